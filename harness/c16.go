package main

// C16: operation sequences on the real vm.CommitStateDB (over a real storage.State with the
// keeper / balance / contract stores wired as in app/context.go) and on go-ethereum's own
// state.StateDB with the same starting accounts; every answer of both is recorded and the Coq
// models (EvmAdapter.v, EvmSpec.v) are evaluated on the same sequences.

import (
	"bytes"
	"encoding/json"
	"flag"
	"fmt"
	"math/big"
	"math/rand"
	"os"
	"strings"

	"github.com/Oneledger/protocol/data/balance"
	"github.com/Oneledger/protocol/data/chain"
	olevm "github.com/Oneledger/protocol/data/evm"
	"github.com/Oneledger/protocol/data/keys"
	"github.com/Oneledger/protocol/log"
	"github.com/Oneledger/protocol/storage"
	"github.com/Oneledger/protocol/utils"
	olvm "github.com/Oneledger/protocol/vm"
	ethcmn "github.com/ethereum/go-ethereum/common"
	"github.com/ethereum/go-ethereum/core/rawdb"
	ethstate "github.com/ethereum/go-ethereum/core/state"
	ethtypes "github.com/ethereum/go-ethereum/core/types"
	ethcrypto "github.com/ethereum/go-ethereum/crypto"
	tmdb "github.com/tendermint/tm-db"
)

func init() { subcmds["c16"] = c16Main }

// ---------------------------------------------------------------------------------------------
// vocabulary

// c16Addrs: the address universe; index 0 is the RIPEMD-160 precompile (special-cased by the
// journal on both sides).
var c16Addrs = []int64{3, 11, 12, 13, 14, 15}

const c16NKeys = 4
const c16NCodes = 4 // code id 0 = no code

func c16Addr(a int64) ethcmn.Address { return ethcmn.BigToAddress(big.NewInt(a)) }
func c16Hash(k int64) ethcmn.Hash    { return ethcmn.BigToHash(big.NewInt(k)) }
func c16Code(id int) []byte {
	if id == 0 {
		return nil
	}
	b := make([]byte, 10+id)
	for i := range b {
		b[i] = byte(0x5b) // JUMPDEST
	}
	b[0] = byte(id)
	return b
}

var c16CodeHashes = func() map[ethcmn.Hash]int {
	m := map[ethcmn.Hash]int{}
	for i := 0; i < c16NCodes; i++ {
		m[ethcrypto.Keccak256Hash(c16Code(i))] = i
	}
	return m
}()

func c16CodeID(code []byte) int64 {
	for i := 0; i < c16NCodes; i++ {
		if bytes.Equal(code, c16Code(i)) {
			return int64(i)
		}
	}
	return -7
}

func c16HashVal(h ethcmn.Hash) string { return new(big.Int).SetBytes(h.Bytes()).String() }

type c16Acct struct {
	A       int64
	Bal     string
	Nonce   uint64
	Code    int
	Stor    [][2]int64
	Native  bool // true: only a native balance record (no keeper record) — an ordinary OLT account
}

type c16Op struct {
	K   string // kind
	A   int64  `json:",omitempty"` // address
	S   int64  `json:",omitempty"` // slot / topic
	V   int64  `json:",omitempty"` // value / nonce / code id / gas / revision id
	Amt string `json:",omitempty"` // balance amount
}

// c16Obs is one answer: kind u(nit) z b p(anic) l(ist)
type c16Obs struct {
	K string
	Z string  `json:",omitempty"`
	B bool    `json:",omitempty"`
	L []int64 `json:",omitempty"`
}

func (o c16Obs) eq(p c16Obs) bool {
	if o.K != p.K || o.Z != p.Z || o.B != p.B || len(o.L) != len(p.L) {
		return false
	}
	for i := range o.L {
		if o.L[i] != p.L[i] {
			return false
		}
	}
	return true
}

type c16Case struct {
	Start []c16Acct
	Ops   []c16Op
	Impl  []c16Obs // vm.CommitStateDB
	Ref   []c16Obs // go-ethereum state.StateDB
	Tag   string
}

// the common interface of the two implementations, as far as the operations go
type c16DB interface {
	CreateAccount(ethcmn.Address)
	SubBalance(ethcmn.Address, *big.Int)
	AddBalance(ethcmn.Address, *big.Int)
	GetBalance(ethcmn.Address) *big.Int
	GetNonce(ethcmn.Address) uint64
	SetNonce(ethcmn.Address, uint64)
	GetCodeHash(ethcmn.Address) ethcmn.Hash
	GetCode(ethcmn.Address) []byte
	SetCode(ethcmn.Address, []byte)
	GetCodeSize(ethcmn.Address) int
	AddRefund(uint64)
	SubRefund(uint64)
	GetRefund() uint64
	GetCommittedState(ethcmn.Address, ethcmn.Hash) ethcmn.Hash
	GetState(ethcmn.Address, ethcmn.Hash) ethcmn.Hash
	SetState(ethcmn.Address, ethcmn.Hash, ethcmn.Hash)
	Suicide(ethcmn.Address) bool
	HasSuicided(ethcmn.Address) bool
	Exist(ethcmn.Address) bool
	Empty(ethcmn.Address) bool
	AddressInAccessList(ethcmn.Address) bool
	SlotInAccessList(ethcmn.Address, ethcmn.Hash) (bool, bool)
	AddAddressToAccessList(ethcmn.Address)
	AddSlotToAccessList(ethcmn.Address, ethcmn.Hash)
	RevertToSnapshot(int)
	Snapshot() int
	AddLog(*ethtypes.Log)
}

type c16Side interface {
	db() c16DB
	finalise(txn int) bool // Finalise(true) then Prepare(hash of txn); false = Finalise reported an error
	blockCommit(txn int)
	txLogs(txn int) []*ethtypes.Log
}

func c16TxHash(n int) ethcmn.Hash { return ethcmn.BigToHash(big.NewInt(int64(1000 + n))) }

// --- side (i): the chain's adapter
type c16Impl struct {
	state *storage.State
	sdb   *olvm.CommitStateDB
	bal   *balance.Store
	cur   balance.Currency
}

func c16NewImpl(start []c16Acct) *c16Impl {
	st := storage.NewState(storage.NewChainState("c16", tmdb.NewMemDB()))
	currencies := balance.NewCurrencySet()
	cur := balance.Currency{Id: 0, Name: "OLT", Chain: chain.ONELEDGER, Decimal: 18, Unit: "nue"}
	_ = currencies.Register(cur)
	balances := balance.NewStore("b", st)
	contracts := olevm.NewContractStore(st)
	keeper := balance.NewNesterAccountKeeper(st, balances, currencies)
	lg := log.NewLoggerWithPrefix(os.Stdout, "c16")
	s := &c16Impl{state: st, bal: balances, cur: cur}
	for _, a := range start {
		addr := c16Addr(a.A)
		amt, _ := new(big.Int).SetString(a.Bal, 10)
		coin := balance.Coin{Currency: cur, Amount: balance.NewAmountFromBigInt(amt)}
		if a.Native {
			if err := balances.SetBalance(keys.Address(addr.Bytes()), coin); err != nil {
				panic(err)
			}
			continue
		}
		code := c16Code(a.Code)
		acc := balance.EthAccount{Address: keys.Address(addr.Bytes()), CodeHash: ethcrypto.Keccak256(code), Coins: coin, Sequence: a.Nonce}
		if err := keeper.SetAccount(acc); err != nil {
			panic(err)
		}
		if a.Code != 0 {
			_ = contracts.Set(olevm.KeyPrefixCode, acc.CodeHash, code)
		}
		for _, kv := range a.Stor {
			pk := utils.GetStorageByAddressKey(addr, c16Hash(kv[0]).Bytes())
			_ = contracts.Set(olevm.AddressStoragePrefix(addr), pk.Bytes(), c16Hash(kv[1]).Bytes())
		}
	}
	st.Commit()
	s.sdb = olvm.NewCommitStateDB(contracts, keeper, lg)
	s.sdb.SetBlockHash(ethcmn.BigToHash(big.NewInt(77)))
	s.sdb.Prepare(c16TxHash(0))
	return s
}
func (s *c16Impl) db() c16DB { return s.sdb }
func (s *c16Impl) finalise(txn int) bool {
	err := s.sdb.Finalise(true)
	s.sdb.Prepare(c16TxHash(txn))
	return err == nil
}
func (s *c16Impl) blockCommit(txn int) {
	_ = s.sdb.Finalise(true)
	s.state.Commit()
	s.sdb.Reset()
	s.sdb.Prepare(c16TxHash(txn))
}
func (s *c16Impl) txLogs(txn int) []*ethtypes.Log { return s.sdb.GetTxLogs() }

// --- side (ii): go-ethereum's own state
type c16Ref struct {
	cache ethstate.Database
	sdb   *ethstate.StateDB
}

func c16NewRef(start []c16Acct) *c16Ref {
	r := &c16Ref{cache: ethstate.NewDatabase(rawdb.NewMemoryDatabase())}
	st, err := ethstate.New(ethcmn.Hash{}, r.cache, nil)
	if err != nil {
		panic(err)
	}
	for _, a := range start {
		addr := c16Addr(a.A)
		amt, _ := new(big.Int).SetString(a.Bal, 10)
		st.SetBalance(addr, amt)
		if a.Native {
			continue
		}
		st.SetNonce(addr, a.Nonce)
		if a.Code != 0 {
			st.SetCode(addr, c16Code(a.Code))
		}
		for _, kv := range a.Stor {
			st.SetState(addr, c16Hash(kv[0]), c16Hash(kv[1]))
		}
	}
	root, err := st.Commit(false)
	if err != nil {
		panic(err)
	}
	r.sdb, err = ethstate.New(root, r.cache, nil)
	if err != nil {
		panic(err)
	}
	r.sdb.Prepare(c16TxHash(0), 0)
	return r
}
func (r *c16Ref) db() c16DB { return r.sdb }
func (r *c16Ref) finalise(txn int) bool {
	r.sdb.Finalise(true)
	r.sdb.Prepare(c16TxHash(txn), txn)
	return true
}
func (r *c16Ref) blockCommit(txn int) {
	root, err := r.sdb.Commit(true)
	if err != nil {
		panic(err)
	}
	r.sdb, err = ethstate.New(root, r.cache, nil)
	if err != nil {
		panic(err)
	}
	r.sdb.Prepare(c16TxHash(txn), txn)
}
func (r *c16Ref) txLogs(txn int) []*ethtypes.Log {
	return r.sdb.GetLogs(c16TxHash(txn), ethcmn.Hash{})
}

// ---------------------------------------------------------------------------------------------
// one step

type c16Runner struct {
	side c16Side
	txn  int
}

func c16Z(x *big.Int) c16Obs  { return c16Obs{K: "z", Z: x.String()} }
func c16I(x int64) c16Obs     { return c16Obs{K: "z", Z: fmt.Sprintf("%d", x)} }
func c16B(b bool) c16Obs      { return c16Obs{K: "b", B: b} }
func c16U() c16Obs            { return c16Obs{K: "u"} }
func c16HashObs(h ethcmn.Hash) c16Obs {
	return c16Obs{K: "z", Z: c16HashVal(h)}
}

func (r *c16Runner) apply(o c16Op) (ob c16Obs) {
	defer func() {
		if e := recover(); e != nil {
			ob = c16Obs{K: "p"}
		}
	}()
	d := r.side.db()
	a := c16Addr(o.A)
	switch o.K {
	case "create":
		d.CreateAccount(a)
		return c16U()
	case "subbal":
		amt, _ := new(big.Int).SetString(o.Amt, 10)
		d.SubBalance(a, amt)
		return c16U()
	case "addbal":
		amt, _ := new(big.Int).SetString(o.Amt, 10)
		d.AddBalance(a, amt)
		return c16U()
	case "getbal":
		return c16Z(d.GetBalance(a))
	case "getnonce":
		return c16I(int64(d.GetNonce(a)))
	case "setnonce":
		d.SetNonce(a, uint64(o.V))
		return c16U()
	case "getcodehash":
		h := d.GetCodeHash(a)
		if h == (ethcmn.Hash{}) {
			return c16I(-1)
		}
		if id, ok := c16CodeHashes[h]; ok {
			return c16I(int64(id))
		}
		return c16I(-7)
	case "getcode":
		return c16I(c16CodeID(d.GetCode(a)))
	case "setcode":
		d.SetCode(a, c16Code(int(o.V)))
		return c16U()
	case "getcodesize":
		return c16I(int64(d.GetCodeSize(a)))
	case "addrefund":
		d.AddRefund(uint64(o.V))
		return c16U()
	case "subrefund":
		d.SubRefund(uint64(o.V))
		return c16U()
	case "getrefund":
		return c16I(int64(d.GetRefund()))
	case "getcommitted":
		return c16HashObs(d.GetCommittedState(a, c16Hash(o.S)))
	case "getstate":
		return c16HashObs(d.GetState(a, c16Hash(o.S)))
	case "setstate":
		d.SetState(a, c16Hash(o.S), c16Hash(o.V))
		return c16U()
	case "suicide":
		return c16B(d.Suicide(a))
	case "hassuicided":
		return c16B(d.HasSuicided(a))
	case "exist":
		return c16B(d.Exist(a))
	case "empty":
		return c16B(d.Empty(a))
	case "aladdaddr":
		d.AddAddressToAccessList(a)
		return c16U()
	case "aladdslot":
		d.AddSlotToAccessList(a, c16Hash(o.S))
		return c16U()
	case "alhasaddr":
		return c16B(d.AddressInAccessList(a))
	case "alhasslot":
		x, y := d.SlotInAccessList(a, c16Hash(o.S))
		l := []int64{0, 0}
		if x {
			l[0] = 1
		}
		if y {
			l[1] = 1
		}
		return c16Obs{K: "l", L: l}
	case "snapshot":
		return c16I(int64(d.Snapshot()))
	case "revert":
		d.RevertToSnapshot(int(o.V))
		return c16U()
	case "addlog":
		d.AddLog(&ethtypes.Log{Address: a, Topics: []ethcmn.Hash{c16Hash(o.S)}, Data: []byte{byte(o.V)}})
		return c16U()
	case "logs":
		l := []int64{}
		for _, lg := range r.side.txLogs(r.txn) {
			t := int64(-1)
			if len(lg.Topics) == 1 {
				t = new(big.Int).SetBytes(lg.Topics[0].Bytes()).Int64()
			}
			l = append(l, new(big.Int).SetBytes(lg.Address.Bytes()).Int64(), t, int64(lg.Index))
		}
		return c16Obs{K: "l", L: l}
	case "finalise":
		r.txn++
		return c16B(r.side.finalise(r.txn))
	case "blockcommit":
		r.txn++
		r.side.blockCommit(r.txn)
		return c16U()
	}
	panic("c16: bad op " + o.K)
}

// ---------------------------------------------------------------------------------------------
// generation (driven by the reference side, so that preconditions of the interface — no
// overdraft, no refund underflow, revert only to a live revision — are respected)

func c16GenStart(r *rand.Rand) []c16Acct {
	out := []c16Acct{}
	for _, a := range c16Addrs {
		if a == 3 && r.Intn(4) != 0 {
			continue
		}
		switch r.Intn(5) {
		case 0: // absent
		case 1: // plain native account
			out = append(out, c16Acct{A: a, Bal: c16GenAmt(r, false), Native: true})
		case 2: // keeper account, no code
			out = append(out, c16Acct{A: a, Bal: c16GenAmt(r, true), Nonce: uint64(1 + r.Intn(3))})
		default: // contract
			acc := c16Acct{A: a, Bal: c16GenAmt(r, true), Nonce: uint64(1 + r.Intn(2)), Code: 1 + r.Intn(c16NCodes-1)}
			for k := 0; k < c16NKeys; k++ {
				if r.Intn(2) == 0 {
					acc.Stor = append(acc.Stor, [2]int64{int64(k), int64(1 + r.Intn(3))})
				}
			}
			out = append(out, acc)
		}
	}
	return out
}

func c16GenAmt(r *rand.Rand, zeroOK bool) string {
	switch x := r.Intn(10); {
	case x == 0 && zeroOK:
		return "0"
	case x < 7:
		return fmt.Sprintf("%d", 1+r.Intn(9))
	case x < 9:
		return fmt.Sprintf("%d", 100+r.Intn(900))
	default:
		return new(big.Int).Add(new(big.Int).Lsh(big.NewInt(1), 70), big.NewInt(int64(r.Intn(1000)))).String()
	}
}

func c16Sweep(addrs []int64) []c16Op {
	ops := []c16Op{}
	for _, a := range addrs {
		ops = append(ops, c16Op{K: "exist", A: a}, c16Op{K: "getbal", A: a}, c16Op{K: "getnonce", A: a},
			c16Op{K: "getcodehash", A: a}, c16Op{K: "getcode", A: a})
		for k := 0; k < c16NKeys; k++ {
			ops = append(ops, c16Op{K: "getstate", A: a, S: int64(k)}, c16Op{K: "getcommitted", A: a, S: int64(k)})
		}
	}
	return ops
}

type c16Gen struct {
	r     *rand.Rand
	ref   *c16Runner
	ops   []c16Op
	obs   []c16Obs
	valid []int64 // live revision ids on the reference side
	dead  bool
	prof  int
}

func (g *c16Gen) emit(o c16Op) c16Obs {
	ob := g.ref.apply(o)
	g.ops = append(g.ops, o)
	g.obs = append(g.obs, ob)
	if ob.K == "p" {
		g.dead = true
	}
	switch o.K {
	case "snapshot":
		if ob.K == "z" {
			var id int64
			fmt.Sscan(ob.Z, &id)
			g.valid = append(g.valid, id)
		}
	case "revert":
		for i, id := range g.valid {
			if id == o.V {
				g.valid = g.valid[:i]
				break
			}
		}
	case "finalise", "blockcommit":
		g.valid = nil
	}
	return ob
}

func (g *c16Gen) addr() int64 {
	if g.prof == 1 { // few addresses: more interaction
		return c16Addrs[1+g.r.Intn(3)]
	}
	if g.r.Intn(12) == 0 {
		return 3
	}
	return c16Addrs[1+g.r.Intn(len(c16Addrs)-1)]
}

func (g *c16Gen) step() {
	r := g.r
	a := g.addr()
	k := int64(r.Intn(c16NKeys))
	x := r.Intn(1000)
	switch {
	case x < 90:
		amt := c16GenAmt(r, false)
		if r.Intn(6) == 0 {
			amt = "0"
		}
		g.emit(c16Op{K: "addbal", A: a, Amt: amt})
	case x < 160:
		bal := g.ref.side.db().GetBalance(c16Addr(a))
		amt := new(big.Int)
		switch r.Intn(4) {
		case 0:
			amt.Set(bal) // drain
			if bal.Sign() == 0 && !g.ref.side.db().Exist(c16Addr(a)) {
				return
			}
		case 1:
			amt.SetInt64(0)
			if !g.ref.side.db().Exist(c16Addr(a)) {
				return // a zero transfer out of a non-existent account: outside the interface contract
			}
		default:
			if bal.Sign() > 0 {
				amt.Rand(r, bal)
			}
			if amt.Sign() == 0 && !g.ref.side.db().Exist(c16Addr(a)) {
				return
			}
		}
		g.emit(c16Op{K: "subbal", A: a, Amt: amt.String()})
	case x < 200:
		g.emit(c16Op{K: "getbal", A: a})
	case x < 250:
		g.emit(c16Op{K: "setnonce", A: a, V: int64(r.Intn(4))})
	case x < 280:
		g.emit(c16Op{K: "getnonce", A: a})
	case x < 380:
		v := int64(r.Intn(4))
		if v == 0 && !g.ref.side.db().Exist(c16Addr(a)) {
			v = 1
		}
		g.emit(c16Op{K: "setstate", A: a, S: k, V: v})
	case x < 430:
		g.emit(c16Op{K: "getstate", A: a, S: k})
	case x < 460:
		g.emit(c16Op{K: "getcommitted", A: a, S: k})
	case x < 490:
		g.emit(c16Op{K: "setcode", A: a, V: int64(r.Intn(c16NCodes))})
	case x < 505:
		g.emit(c16Op{K: "getcode", A: a})
	case x < 520:
		g.emit(c16Op{K: "getcodehash", A: a})
	case x < 530:
		g.emit(c16Op{K: "getcodesize", A: a})
	case x < 560:
		g.emit(c16Op{K: "addrefund", V: int64(r.Intn(5))})
	case x < 575:
		ref := int64(g.ref.side.db().GetRefund())
		g.emit(c16Op{K: "subrefund", V: r.Int63n(ref + 1)})
	case x < 590:
		g.emit(c16Op{K: "getrefund"})
	case x < 615:
		if g.prof != 2 {
			g.emit(c16Op{K: "suicide", A: a})
		}
	case x < 630:
		g.emit(c16Op{K: "hassuicided", A: a})
	case x < 655:
		g.emit(c16Op{K: "exist", A: a})
	case x < 675:
		g.emit(c16Op{K: "empty", A: a})
	case x < 690:
		if g.prof != 2 {
			g.emit(c16Op{K: "create", A: a})
			if !g.dead {
				// what evm.create does next (EIP-158); a bare creation is outside the interface contract
				g.emit(c16Op{K: "setnonce", A: a, V: 1})
			}
		}
	case x < 705:
		g.emit(c16Op{K: "aladdaddr", A: a})
	case x < 720:
		g.emit(c16Op{K: "aladdslot", A: a, S: k})
	case x < 730:
		g.emit(c16Op{K: "alhasaddr", A: a})
	case x < 740:
		g.emit(c16Op{K: "alhasslot", A: a, S: k})
	case x < 760:
		g.emit(c16Op{K: "addlog", A: a, S: k, V: int64(r.Intn(200))})
	case x < 770:
		g.emit(c16Op{K: "logs"})
	case x < 860:
		g.emit(c16Op{K: "snapshot"})
	case x < 930:
		if len(g.valid) > 0 {
			g.emit(c16Op{K: "revert", V: g.valid[r.Intn(len(g.valid))]})
		}
	case x < 985:
		g.emit(c16Op{K: "finalise"})
		if r.Intn(3) == 0 {
			g.emit(c16Op{K: "blockcommit"})
		}
		if r.Intn(2) == 0 {
			for _, o := range c16Sweep(c16Addrs) {
				g.emit(o)
			}
		}
	default:
		g.emit(c16Op{K: "logs"})
	}
}

func c16GenCase(r *rand.Rand, n int, prof int) c16Case {
	start := c16GenStart(r)
	g := &c16Gen{r: r, ref: &c16Runner{side: c16NewRef(start)}, prof: prof}
	for len(g.ops) < n && !g.dead {
		g.step()
	}
	if !g.dead {
		g.emit(c16Op{K: "finalise"})
		for _, o := range c16Sweep(c16Addrs) {
			g.emit(o)
		}
	}
	return c16Case{Start: start, Ops: g.ops, Ref: g.obs, Tag: fmt.Sprintf("random/p%d", prof)}
}

// run a fixed sequence on both sides; the sequence is cut after the first step at which either
// side panics (the state after a panic is not meaningful)
func c16RunCase(start []c16Acct, ops []c16Op, tag string) c16Case {
	c := c16Case{Start: start, Tag: tag}
	ref := &c16Runner{side: c16NewRef(start)}
	impl := &c16Runner{side: c16NewImpl(start)}
	for _, o := range ops {
		x := impl.apply(o)
		y := ref.apply(o)
		c.Ops = append(c.Ops, o)
		c.Impl = append(c.Impl, x)
		c.Ref = append(c.Ref, y)
		if x.K == "p" || y.K == "p" {
			break
		}
	}
	return c
}

// ---------------------------------------------------------------------------------------------
// Coq rendering

func c16CoqOp(o c16Op) string {
	switch o.K {
	case "create":
		return fmt.Sprintf("CreateAccount %d%%N", o.A)
	case "subbal":
		return fmt.Sprintf("SubBalance %d%%N (%s)", o.A, o.Amt)
	case "addbal":
		return fmt.Sprintf("AddBalance %d%%N (%s)", o.A, o.Amt)
	case "getbal":
		return fmt.Sprintf("GetBalance %d%%N", o.A)
	case "getnonce":
		return fmt.Sprintf("GetNonce %d%%N", o.A)
	case "setnonce":
		return fmt.Sprintf("SetNonce %d%%N %d", o.A, o.V)
	case "getcodehash":
		return fmt.Sprintf("GetCodeHash %d%%N", o.A)
	case "getcode":
		return fmt.Sprintf("GetCode %d%%N", o.A)
	case "setcode":
		return fmt.Sprintf("SetCode %d%%N %d%%N", o.A, o.V)
	case "getcodesize":
		return fmt.Sprintf("GetCodeSize %d%%N", o.A)
	case "addrefund":
		return fmt.Sprintf("AddRefund %d", o.V)
	case "subrefund":
		return fmt.Sprintf("SubRefund %d", o.V)
	case "getrefund":
		return "GetRefund"
	case "getcommitted":
		return fmt.Sprintf("GetCommittedState %d%%N %d%%N", o.A, o.S)
	case "getstate":
		return fmt.Sprintf("GetState %d%%N %d%%N", o.A, o.S)
	case "setstate":
		return fmt.Sprintf("SetState %d%%N %d%%N %d", o.A, o.S, o.V)
	case "suicide":
		return fmt.Sprintf("Suicide %d%%N", o.A)
	case "hassuicided":
		return fmt.Sprintf("HasSuicided %d%%N", o.A)
	case "exist":
		return fmt.Sprintf("Exist %d%%N", o.A)
	case "empty":
		return fmt.Sprintf("Empty %d%%N", o.A)
	case "aladdaddr":
		return fmt.Sprintf("AlAddAddr %d%%N", o.A)
	case "aladdslot":
		return fmt.Sprintf("AlAddSlot %d%%N %d%%N", o.A, o.S)
	case "alhasaddr":
		return fmt.Sprintf("AlHasAddr %d%%N", o.A)
	case "alhasslot":
		return fmt.Sprintf("AlHasSlot %d%%N %d%%N", o.A, o.S)
	case "snapshot":
		return "Snapshot"
	case "revert":
		return fmt.Sprintf("RevertToSnapshot (%d)", o.V)
	case "addlog":
		return fmt.Sprintf("AddLog %d%%N %d%%N", o.A, o.S)
	case "logs":
		return "GetLogs"
	case "finalise":
		return "Finalise"
	case "blockcommit":
		return "BlockCommit"
	}
	panic("c16: bad op " + o.K)
}

func c16CoqObs(o c16Obs) string {
	switch o.K {
	case "u":
		return "OUnit"
	case "z":
		return "OZ (" + o.Z + ")"
	case "b":
		if o.B {
			return "OBool true"
		}
		return "OBool false"
	case "p":
		return "OPanic"
	case "l":
		parts := make([]string, len(o.L))
		for i, x := range o.L {
			parts[i] = fmt.Sprintf("%d", x)
		}
		return "OList [" + strings.Join(parts, ";") + "]"
	}
	panic("c16: bad obs")
}

func c16CoqCase(c c16Case) string {
	st := make([]string, len(c.Start))
	for i, a := range c.Start {
		kv := make([]string, len(a.Stor))
		for j, p := range a.Stor {
			kv[j] = fmt.Sprintf("(%d%%N,%d)", p[0], p[1])
		}
		nat := "false"
		if a.Native {
			nat = "true"
		}
		st[i] = fmt.Sprintf("{| sa_addr := %d%%N; sa_bal := %s; sa_nonce := %d; sa_code := %d%%N; sa_stor := [%s]; sa_native := %s |}",
			a.A, a.Bal, a.Nonce, a.Code, strings.Join(kv, ";"), nat)
	}
	ops := make([]string, len(c.Ops))
	im := make([]string, len(c.Impl))
	rf := make([]string, len(c.Ref))
	for i := range c.Ops {
		ops[i] = c16CoqOp(c.Ops[i])
		im[i] = c16CoqObs(c.Impl[i])
		rf[i] = c16CoqObs(c.Ref[i])
	}
	return fmt.Sprintf("{| c_start := [%s];\n   c_ops := [%s];\n   c_impl := [%s];\n   c_ref := [%s] |}",
		strings.Join(st, "; "), strings.Join(ops, "; "), strings.Join(im, "; "), strings.Join(rf, "; "))
}

// ---------------------------------------------------------------------------------------------
// directed sequences aimed at the places where reading the adapter suggests trouble

func c16Directed() []c16Case {
	mk := func(tag string, start []c16Acct, ops ...c16Op) c16Case { return c16Case{Start: start, Ops: ops, Tag: tag} }
	contract := func(a int64, bal string) c16Acct {
		return c16Acct{A: a, Bal: bal, Nonce: 1, Code: 1, Stor: [][2]int64{{0, 2}, {1, 3}}}
	}
	plain := func(a int64, bal string) c16Acct { return c16Acct{A: a, Bal: bal, Native: true} }
	sw := c16Sweep([]int64{11, 12, 13})
	cat := func(xs ...[]c16Op) []c16Op {
		out := []c16Op{}
		for _, x := range xs {
			out = append(out, x...)
		}
		return out
	}
	cs := []c16Case{}
	// self-destruct of a funded contract, beneficiary credited, then look again after the tx and after the block
	cs = append(cs, mk("directed/suicide_funded", []c16Acct{contract(11, "50"), plain(12, "7")}, cat([]c16Op{
		{K: "getbal", A: 11}, {K: "addbal", A: 12, Amt: "50"}, {K: "suicide", A: 11}, {K: "getbal", A: 11},
		{K: "finalise"}}, sw, []c16Op{{K: "blockcommit"}}, sw)...))
	// self-destruct of a contract with zero balance but storage; re-created later
	cs = append(cs, mk("directed/suicide_storage", []c16Acct{contract(11, "0"), plain(12, "7")}, cat([]c16Op{
		{K: "suicide", A: 11}, {K: "finalise"}}, sw, []c16Op{{K: "addbal", A: 11, Amt: "1"}}, sw, []c16Op{{K: "finalise"}}, sw)...))
	// value received by a self-destructed account later in the same transaction (go-ethereum burns it)
	cs = append(cs, mk("directed/suicide_then_funded", []c16Acct{contract(11, "0"), plain(12, "7")}, cat([]c16Op{
		{K: "suicide", A: 11}, {K: "subbal", A: 12, Amt: "3"}, {K: "addbal", A: 11, Amt: "3"}, {K: "getbal", A: 11},
		{K: "finalise"}}, sw, []c16Op{{K: "blockcommit"}}, sw)...))
	// CreateAccount over an existing account with storage
	cs = append(cs, mk("directed/create_over", []c16Acct{contract(11, "5")}, cat([]c16Op{
		{K: "create", A: 11}}, sw, []c16Op{{K: "finalise"}}, sw)...))
	// drained plain account (becomes empty, deleted at Finalise)
	cs = append(cs, mk("directed/drain_plain", []c16Acct{plain(11, "9"), plain(12, "1")}, cat([]c16Op{
		{K: "subbal", A: 11, Amt: "9"}, {K: "addbal", A: 12, Amt: "9"}, {K: "finalise"}}, sw)...))
	// journal dirties: a revert that removes a dirty entry that is not the last one
	cs = append(cs, mk("directed/stale_dirty_index", []c16Acct{plain(11, "9"), contract(12, "4"), plain(13, "2")}, cat([]c16Op{
		{K: "snapshot"}, {K: "setnonce", A: 12, V: 3}, {K: "addbal", A: 13, Amt: "1"}, {K: "revert", V: 0},
		{K: "addbal", A: 13, Amt: "2"}, {K: "getbal", A: 13}, {K: "finalise"}}, sw)...))
	cs = append(cs, mk("directed/stale_dirty_alias", []c16Acct{plain(11, "9"), contract(12, "4"), plain(13, "2")}, cat([]c16Op{
		{K: "snapshot"}, {K: "setnonce", A: 12, V: 3}, {K: "addbal", A: 13, Amt: "1"}, {K: "revert", V: 0},
		{K: "setstate", A: 12, S: 0, V: 1}, {K: "snapshot"}, {K: "setnonce", A: 13, V: 1}, {K: "revert", V: 1},
		{K: "finalise"}}, sw)...))
	// ripemd touch surviving a revert
	cs = append(cs, mk("directed/ripemd_touch", []c16Acct{contract(12, "4")}, cat([]c16Op{
		{K: "snapshot"}, {K: "setstate", A: 12, S: 0, V: 1}, {K: "addbal", A: 3, Amt: "0"}, {K: "revert", V: 0},
		{K: "addbal", A: 3, Amt: "0"}, {K: "finalise"}}, sw)...))
	// slot zeroed in one tx, read in the next one of the same block
	cs = append(cs, mk("directed/slot_zeroed", []c16Acct{contract(11, "5")}, cat([]c16Op{
		{K: "setstate", A: 11, S: 0, V: 0}, {K: "finalise"}, {K: "getstate", A: 11, S: 0}, {K: "getcommitted", A: 11, S: 0},
		{K: "setstate", A: 11, S: 0, V: 3}, {K: "finalise"}}, sw)...))
	// account removed (emptied) and read again in the same block
	cs = append(cs, mk("directed/removed_then_read", []c16Acct{{A: 11, Bal: "3", Nonce: 0, Code: 0}}, cat([]c16Op{
		{K: "subbal", A: 11, Amt: "3"}, {K: "finalise"}, {K: "exist", A: 11}, {K: "getnonce", A: 11}, {K: "addbal", A: 11, Amt: "2"},
		{K: "finalise"}}, sw)...))
	for i := range cs {
		cs[i] = c16RunCase(cs[i].Start, cs[i].Ops, cs[i].Tag)
	}
	return cs
}

// ---------------------------------------------------------------------------------------------

type c16Report struct {
	Cases     int            `json:"cases"`
	Steps     int            `json:"steps"`
	Distinct  int            `json:"distinct_cases"`
	OpHist    map[string]int `json:"op_histogram"`
	ObsHist   map[string]int `json:"obs_histogram"`
	TagHist   map[string]int `json:"tag_histogram"`
	Reverts   int            `json:"reverts"`
	MaxDepth  int            `json:"max_snapshot_depth"`
	ImplVsRef [][2]int       `json:"impl_vs_ref"` // (case, first differing step) as seen by the harness itself
	Panics    int            `json:"impl_panics"`
	Samples   []string       `json:"samples"`
	Files     []string       `json:"files"`
}

func c16Main(args []string) int {
	fs := flag.NewFlagSet("c16", flag.ExitOnError)
	seed := fs.Int64("seed", 1, "PRNG seed")
	nrand := fs.Int("n", 300, "number of random sequences")
	rlen := fs.Int("len", 60, "length of random sequences")
	outDir := fs.String("out", ".", "output directory")
	shard := fs.Int("shard", 100, "cases per Coq file")
	corpus := fs.String("corpus", "", "JSON file of cases (Start, Ops) to run first")
	nodirected := fs.Bool("nodirected", false, "skip the directed sequences")
	fs.Parse(args)

	r := rand.New(rand.NewSource(*seed))
	cases := []c16Case{}
	if *corpus != "" {
		bz, err := os.ReadFile(*corpus)
		if err != nil {
			fmt.Fprintln(os.Stderr, err)
			return 2
		}
		var cc []c16Case
		if err := json.Unmarshal(bz, &cc); err != nil {
			fmt.Fprintln(os.Stderr, "bad corpus:", err)
			return 2
		}
		for _, c := range cc {
			cases = append(cases, c16RunCase(c.Start, c.Ops, "corpus"))
		}
	}
	if !*nodirected {
		cases = append(cases, c16Directed()...)
	}
	for i := 0; i < *nrand; i++ {
		n := *rlen
		if i%10 == 9 {
			n *= 4
		}
		g := c16GenCase(r, n, i%3)
		cases = append(cases, c16RunCase(g.Start, g.Ops, g.Tag))
	}

	rep := c16Report{OpHist: map[string]int{}, ObsHist: map[string]int{}, TagHist: map[string]int{}}
	seen := map[string]bool{}
	for ci, c := range cases {
		rep.Cases++
		rep.Steps += len(c.Ops)
		rep.TagHist[c.Tag]++
		var sb strings.Builder
		depth := 0
		for i, o := range c.Ops {
			rep.OpHist[o.K]++
			rep.ObsHist[c.Impl[i].K]++
			sb.WriteString(c16CoqOp(o))
			sb.WriteByte(';')
			switch o.K {
			case "snapshot":
				depth++
				if depth > rep.MaxDepth {
					rep.MaxDepth = depth
				}
			case "revert":
				rep.Reverts++
			case "finalise":
				depth = 0
			}
			if c.Impl[i].K == "p" {
				rep.Panics++
			}
		}
		seen[sb.String()] = true
		for i := range c.Ops {
			if !c.Impl[i].eq(c.Ref[i]) {
				rep.ImplVsRef = append(rep.ImplVsRef, [2]int{ci, i})
				break
			}
		}
	}
	rep.Distinct = len(seen)

	for s := 0; s*(*shard) < len(cases); s++ {
		lo, hi := s*(*shard), (s+1)*(*shard)
		if hi > len(cases) {
			hi = len(cases)
		}
		var b bytes.Buffer
		b.WriteString("From stdpp Require Import gmap list.\nFrom Coq Require Import ZArith.\n")
		b.WriteString("From OL Require Import theories.EvmSpec theories.EvmAdapter theories.EvmCheck.\nLocal Open Scope Z_scope.\n")
		b.WriteString("Definition cases : list case := [\n")
		for i := lo; i < hi; i++ {
			b.WriteString(c16CoqCase(cases[i]))
			if i+1 < hi {
				b.WriteString(";\n")
			}
		}
		b.WriteString("].\n")
		fmt.Fprintf(&b, "Definition MM := Eval vm_compute in flat3 (model_mismatches %d cases).\n", lo)
		fmt.Fprintf(&b, "Definition SM := Eval vm_compute in flat2 (spec_mismatches %d cases).\n", lo)
		fmt.Fprintf(&b, "Definition PV := Eval vm_compute in flat3 (property_violations %d cases).\n", lo)
		b.WriteString("Definition NG := Eval vm_compute in Z.of_nat (count_guarded cases).\nDefinition PG := Eval vm_compute in Z.of_nat (count_pguarded cases).\nDefinition CC := Eval vm_compute in case_classes cases.\n")
		b.WriteString("Print MM.\nPrint SM.\nPrint PV.\nPrint NG.\nPrint PG.\nPrint CC.\n")
		name := fmt.Sprintf("%s/c16_cases_%d.v", *outDir, s)
		if err := os.WriteFile(name, b.Bytes(), 0644); err != nil {
			fmt.Fprintln(os.Stderr, err)
			return 2
		}
		rep.Files = append(rep.Files, name)
	}
	for i := 0; i < len(cases) && len(rep.Samples) < 3; i += 1 + len(cases)/3 {
		rep.Samples = append(rep.Samples, c16CoqCase(cases[i]))
	}
	all, _ := json.Marshal(cases)
	_ = os.WriteFile(*outDir+"/c16_cases.json", all, 0644)
	bz, _ := json.MarshalIndent(rep, "", " ")
	_ = os.WriteFile(*outDir+"/c16_report.json", bz, 0644)
	say("c16: %d cases, %d steps, %d impl-vs-reference differences, %d impl panics\n", rep.Cases, rep.Steps, len(rep.ImplVsRef), rep.Panics)
	return 0
}
