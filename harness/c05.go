package main

// C05: at-most-once.  For every kind: execute a valid signed transaction in a block, then
// resubmit it byte-identical and in re-encodings of the same signed content, to CheckTx and
// inside a later block; "took effect" = the deliver state's view changed across DeliverTx.

import (
	"bytes"
	"encoding/json"
	"flag"
	"fmt"
	"math/big"
	"math/rand"
	"os"
	"strings"

	ethcmn "github.com/ethereum/go-ethereum/common"
	ethcrypto "github.com/ethereum/go-ethereum/crypto"

	"github.com/Oneledger/protocol/action"
	acteth "github.com/Oneledger/protocol/action/eth"
	govact "github.com/Oneledger/protocol/action/governance"
	ethchain "github.com/Oneledger/protocol/chains/ethereum"
	"github.com/Oneledger/protocol/consensus"
	"github.com/Oneledger/protocol/data/governance"
	"github.com/Oneledger/protocol/data/keys"
)

func init() { subcmds["c05"] = c05Main }

type c05Sub struct {
	Name       string   `json:"name"`
	SameParsed bool     `json:"same_parsed"`
	CheckCode  uint32   `json:"check_code"`
	CheckDup   bool     `json:"check_said_duplicate"`
	Deliver    uint32   `json:"deliver_code"`
	Effect     bool     `json:"took_effect"`
	Changed    []string `json:"changed_keys,omitempty"`
	Tx         string   `json:"tx"`
}

type c05Kind struct {
	Kind       string   `json:"kind"`
	BaseCode   uint32   `json:"base_deliver_code"`
	BaseEffect bool     `json:"base_took_effect"`
	Base       string   `json:"base_tx"`
	Subs       []c05Sub `json:"resubmissions"`
	LaterSame  *c05Sub  `json:"identical_three_blocks_later,omitempty"`
}

type c05Report struct {
	Kinds []c05Kind `json:"kinds"`
	Files []string  `json:"files"`
}

func c05Main(args []string) int {
	fs := flag.NewFlagSet("c05", flag.ExitOnError)
	seed := fs.Int64("seed", 1, "seed")
	outDir := fs.String("out", ".", "output directory")
	only := fs.String("kind", "", "only this kind")
	fs.Parse(args)
	r := rand.New(rand.NewSource(*seed))
	rep := &c05Report{}
	probe := newLab(0)
	names := []string{}
	for _, k := range probe.Kinds {
		names = append(names, k.Name)
	}
	probe.Rep.Close()
	var b bytes.Buffer
	b.WriteString("From Coq Require Import ZArith List Bool.\nImport ListNotations.\nFrom OL Require Import theories.Replay theories.ReplayCheck.\nLocal Open Scope Z_scope.\n")
	b.WriteString("Definition cases : list rcase := [\n")
	first := true
	for ki, name := range names {
		if *only != "" && *only != name {
			continue
		}
		l := newLab(0)
		k := l.Kinds[ki]
		base := k.Build(l.memo())
		kr := c05Kind{Kind: name, Base: hx(base)}
		// block 1: execute the base transaction
		in := &BlockIn{Absent: map[int]bool{}}
		l.Rep.BeginBlock(in)
		v0 := l.Rep.View()
		res := l.Rep.DeliverTx(base)
		kr.BaseCode = res.Code
		kr.BaseEffect = len(diffKeys(v0, l.Rep.View())) > 0
		l.Rep.EndBlock()
		l.Rep.Commit()
		if res.Code != 0 {
			l.Rep.Close()
			rep.Kinds = append(rep.Kinds, kr)
			continue
		}
		subs := append([]labMutant{{"identical", "same", base}}, reencodings(base, r)...)
		// a re-encoding submitted twice is itself indexed after its first inclusion
		l.Rep.BeginBlock(in)
		for _, s := range subs {
			c := l.Rep.CheckTx(s.Tx)
			va := l.Rep.View()
			d := l.Rep.DeliverTx(s.Tx)
			ch := diffKeys(va, l.Rep.View())
			sr := c05Sub{Name: s.Name, SameParsed: sameParsed(s.Tx, base), CheckCode: c.Code, CheckDup: strings.Contains(c.Log, "duplicated tx"),
				Deliver: d.Code, Effect: len(ch) > 0, Tx: hx(s.Tx)}
			if len(ch) > 6 {
				ch = ch[:6]
			}
			sr.Changed = ch
			kr.Subs = append(kr.Subs, sr)
		}
		l.Rep.EndBlock()
		l.Rep.Commit()
		// three blocks later: the identical bytes once more, and every re-encoding again (now indexed)
		l.Rep.RunBlock(in)
		l.Rep.RunBlock(in)
		l.Rep.BeginBlock(in)
		again := []c05Sub{}
		for _, s := range subs {
			c := l.Rep.CheckTx(s.Tx)
			va := l.Rep.View()
			d := l.Rep.DeliverTx(s.Tx)
			ch := diffKeys(va, l.Rep.View())
			again = append(again, c05Sub{Name: s.Name + "@later", SameParsed: true, CheckCode: c.Code, CheckDup: strings.Contains(c.Log, "duplicated tx"), Deliver: d.Code, Effect: len(ch) > 0, Tx: hx(s.Tx)})
		}
		l.Rep.EndBlock()
		l.Rep.Commit()
		kr.Subs = append(kr.Subs, again...)
		l.Rep.Close()
		rep.Kinds = append(rep.Kinds, kr)
		// Coq case: ids: 0 = base bytes, i = i-th resubmission's bytes (identical = 0 again)
		ids := []int{}
		for i := range subs {
			if i == 0 {
				ids = append(ids, 0)
			} else {
				ids = append(ids, i)
			}
		}
		mk := func(index []int, subsIds []int, dups []bool) string {
			f := func(xs []int) string {
				ss := []string{}
				for _, x := range xs {
					ss = append(ss, fmt.Sprint(x))
				}
				return "[" + strings.Join(ss, "; ") + "]"
			}
			ds := []string{}
			for _, d := range dups {
				ds = append(ds, fmt.Sprint(d))
			}
			return fmt.Sprintf("  mkr %s %s [%s]", f(index), f(subsIds), strings.Join(ds, "; "))
		}
		d1, d2 := []bool{}, []bool{}
		for i := range subs {
			d1 = append(d1, kr.Subs[i].CheckDup)
			d2 = append(d2, kr.Subs[len(subs)+i].CheckDup)
		}
		if !first {
			b.WriteString(";\n")
		}
		first = false
		b.WriteString(mk([]int{0}, ids, d1))
		b.WriteString(";\n")
		b.WriteString(mk(append([]int{0}, ids...), ids, d2))
	}
	// OLVM flows: protected by the account nonce as well, so even re-encodings must be refused
	if *only == "" || strings.HasPrefix(*only, "OLVM") {
		// OLVM_CALL_REVERT / OLVM_CALL_OOG / OLVM_CREATE_REVERT: the executed transaction ENDS IN A VM ERROR
		// (status 0 receipt: gas charged, nonce consumed, nothing else) — it was executed in a block all the
		// same and may never run again
		for _, flow := range []string{"OLVM_TRANSFER", "OLVM_DRAIN_REFUND", "OLVM_CALL_REVERT", "OLVM_CALL_OOG", "OLVM_CREATE_REVERT"} {
			l := newLab(0)
			w := l.W
			in := &BlockIn{Absent: map[int]bool{}}
			var base []byte
			e := w.Eth[0]
			if flow == "OLVM_DRAIN_REFUND" {
				// an account that holds exactly value + 21000*price sends everything (balance 0, nonce 1),
				// is paid again in a later block, and its old transaction is resubmitted
				e = c17Key(77)
				l.Rep.RunBlock(&BlockIn{Txs: [][]byte{txSend(w.Users[0], e.Addr, oltAmt("5000021000000000000"), l.memo())}, Absent: map[int]bool{}})
				to := w.Users[1].Addr
				base = txOLVM(e, &to, 0, "5000000000000000000", 21000, nil)
			} else if flow == "OLVM_CALL_REVERT" || flow == "OLVM_CALL_OOG" {
				rt, gas := c17RtRevert, int64(100000)
				if flow == "OLVM_CALL_OOG" {
					rt, gas = c17RtLoop, 60000
				}
				res := l.Rep.RunBlock(&BlockIn{Txs: [][]byte{txOLVM(e, nil, 0, "0", 300000, c17Deployer(rt))}, Absent: map[int]bool{}})
				if len(res.Txs) != 1 || res.Txs[0].Code != 0 {
					panic("c05: contract deployment failed: " + res.Txs[0].Log)
				}
				to := keys.Address(ethcrypto.CreateAddress(ethcmn.BytesToAddress(e.Addr), 0).Bytes())
				base = txOLVM(e, &to, 1, "0", gas, nil)
			} else if flow == "OLVM_CREATE_REVERT" {
				base = txOLVM(e, nil, 0, "0", 300000, c17InitRevert)
			} else {
				to := w.Users[1].Addr
				base = txOLVM(e, &to, 0, "1000000000000", 30000, nil)
			}
			kr := c05Kind{Kind: flow, Base: hx(base)}
			l.Rep.BeginBlock(in)
			v0 := l.Rep.View()
			res := l.Rep.DeliverTx(base)
			kr.BaseCode = res.Code
			kr.BaseEffect = len(diffKeys(v0, l.Rep.View())) > 0
			l.Rep.EndBlock()
			l.Rep.Commit()
			if res.Code == 0 {
				if flow == "OLVM_DRAIN_REFUND" {
					l.Rep.RunBlock(&BlockIn{Txs: [][]byte{txSend(w.Users[0], e.Addr, oltAmt("9000000000000000000"), l.memo())}, Absent: map[int]bool{}})
				}
				subs := append([]labMutant{{"identical", "same", base}}, reencodings(base, r)...)
				l.Rep.RunBlock(in)
				l.Rep.BeginBlock(in)
				for _, sb := range subs {
					c := l.Rep.CheckTx(sb.Tx)
					va := l.Rep.View()
					d := l.Rep.DeliverTx(sb.Tx)
					ch := diffKeys(va, l.Rep.View())
					sr := c05Sub{Name: sb.Name, SameParsed: sameParsed(sb.Tx, base), CheckCode: c.Code, CheckDup: strings.Contains(c.Log, "duplicated tx"),
						Deliver: d.Code, Effect: len(ch) > 0, Tx: hx(sb.Tx)}
					if len(ch) > 6 {
						ch = ch[:6]
					}
					sr.Changed = ch
					kr.Subs = append(kr.Subs, sr)
				}
				l.Rep.EndBlock()
				l.Rep.Commit()
			}
			l.Rep.Close()
			rep.Kinds = append(rep.Kinds, kr)
		}
	}
	// Ethereum lock / redeem life cycles: the executed transaction is protected by its tracker record
	// (ongoing, then passed / failed store) for ever — also after the tracker was cleaned up
	if *only == "" || strings.HasPrefix(*only, "ETH") {
		for _, flow := range []string{"ETH_LOCK_LIFECYCLE", "ETH_REDEEM_LIFECYCLE", "ETH_LOCK_ONGOING"} {
			w := c15NewWorld(c15Cfg{NWit: 4, Cap: 1000000, Seed: 1, FlagFrom: -1, ERC: true, Init: 1000, TTCInit: 1000})
			GAS = 1000000
			u := w.idKey[1]
			var base, ethTx []byte
			if flow == "ETH_REDEEM_LIFECYCLE" {
				ethTx = c15RedeemBytes(big.NewInt(3), 7)
				base = mkTx(action.ETH_REDEEM, acteth.Redeem{Owner: u.Addr, To: ethcmn.BytesToAddress(u.Addr), ETHTxn: ethTx}, GAS, "c05eth", u)
			} else {
				ethTx = c15LockBytes(big.NewInt(5), c15Contract, c15LockData, 7, c15S(7))
				base = mkTx(action.ETH_LOCK, acteth.Lock{Locker: u.Addr, ETHTxn: ethTx}, GAS, "c05eth", u)
			}
			kr := c05Kind{Kind: flow, Base: hx(base)}
			in := &BlockIn{Absent: map[int]bool{}}
			w.rep.BeginBlock(in)
			v0 := w.rep.View()
			res := w.rep.DeliverTx(base)
			kr.BaseCode = res.Code
			kr.BaseEffect = len(diffKeys(v0, w.rep.View())) > 0
			w.rep.EndBlock()
			w.rep.Commit()
			if res.Code == 0 {
				w.rep.RunBlock(in)
				if flow != "ETH_LOCK_ONGOING" {
					var tn ethchain.TrackerName
					tn.SetBytes(ethcmn.BytesToHash(ethTx).Bytes())
					for i := 0; i < 3; i++ { // 3 of 4 witnesses: floor(2*4/3)+1
						k := w.idKey[20+i]
						m := &acteth.ReportFinality{TrackerName: tn, Locker: u.Addr, ValidatorAddress: k.Addr, VoteIndex: int64(i), Success: true}
						r := w.rep.RunBlock(&BlockIn{Txs: [][]byte{mkTx(action.ETH_REPORT_FINALITY_MINT, m, GAS, fmt.Sprintf("c05rep%d", i), k)}, Absent: map[int]bool{}})
						if len(r.Txs) != 1 || r.Txs[0].Code != 0 {
							panic("c05: finality report refused: " + r.Txs[0].Log)
						}
					}
					for i := 0; i < 4; i++ { // mint / burn, cleanup
						w.rep.RunBlock(in)
					}
					if len(w.observe(true).Ongoing) != 0 {
						panic("c05: the tracker of the " + flow + " flow was not archived")
					}
				}
				subs := append([]labMutant{{"identical", "same", base}}, reencodings(base, r)...)
				w.rep.BeginBlock(in)
				for _, sb := range subs {
					c := w.rep.CheckTx(sb.Tx)
					va := w.rep.View()
					d := w.rep.DeliverTx(sb.Tx)
					ch := diffKeys(va, w.rep.View())
					sr := c05Sub{Name: sb.Name, SameParsed: sameParsed(sb.Tx, base), CheckCode: c.Code, CheckDup: strings.Contains(c.Log, "duplicated tx"),
						Deliver: d.Code, Effect: len(ch) > 0, Tx: hx(sb.Tx)}
					if len(ch) > 6 {
						ch = ch[:6]
					}
					sr.Changed = ch
					kr.Subs = append(kr.Subs, sr)
				}
				w.rep.EndBlock()
				w.rep.Commit()
			}
			func() { defer func() { recover() }(); w.rep.Close() }()
			rep.Kinds = append(rep.Kinds, kr)
		}
	}
	// A proposal that ended FINALIZE-FAILED (its configuration update no longer validated when it was
	// finalised) and whose update later becomes admissible again: its executed PROPOSAL_CREATE is
	// protected by the proposal id, which stays taken in the finalize-failed store
	if *only == "" || strings.HasPrefix(*only, "GOV") {
		w := NewWorld(3, 5, 2)
		gs := w.Genesis()
		gs.Customize = func(st *consensus.AppState) {
			// proposal options in the range ValidateProposal demands, so that option updates validate
			d := governance.ProposalFundDistribution{Validators: 18, FeePool: 18, Burn: 18, ExecutionCost: 18, BountyPool: 10, ProposerReward: 18}
			mk := func(fdl, vdl int64, pass int) governance.ProposalOption {
				return governance.ProposalOption{InitialFunding: amt("1000000000"), FundingGoal: amt("10000000000"), FundingDeadline: fdl, VotingDeadline: vdl,
					PassPercentage: pass, PassedFundDistribution: d, FailedFundDistribution: d, ProposalExecutionCost: "executionCost"}
			}
			st.Governance.PropOptions = governance.ProposalOptionSet{ConfigUpdate: mk(10000, 10000, 51), CodeChange: mk(10000, 150000, 60), General: mk(75000, 75000, 67), BountyProgramAddr: "oneledgerBountyProgram"}
		}
		rp := NewReplica(gs, ReplicaOpts{NodeVal: w.Vals[0].Val})
		rp.InitChain()
		GAS = 1000000
		n := 0
		memo := func() string { n++; return fmt.Sprintf("c05gov%d", n) }
		blk := func(what string, txs ...[]byte) {
			res := rp.RunBlock(&BlockIn{Txs: txs, Absent: map[int]bool{}})
			for i, t := range res.Txs {
				if t.Code != 0 && what != "vote" { // votes after the proposal has passed are refused
					panic(fmt.Sprintf("c05 gov flow: %s: transaction %d refused: %s", what, i, t.Log))
				}
			}
		}
		createCfg := func(u Key, id, update, goal string) []byte {
			return mkTx(action.PROPOSAL_CREATE, govact.CreateProposal{ProposalID: propID(id), ProposalType: governance.ProposalTypeConfigUpdate, Headline: "h", Description: "d " + id,
				Proposer: u.Addr, InitialFunding: oltAmt("1000000000"), FundingDeadline: 200, FundingGoal: amt(goal), VotingDeadline: 10200, PassPercentage: 51, ConfigUpdate: update}, GAS, memo(), u)
		}
		votes := func(ids ...string) [][]byte {
			txs := [][]byte{}
			for _, v := range w.Vals {
				for _, id := range ids {
					txs = append(txs, txPropVote(v, id, governance.OPIN_POSITIVE, memo()))
				}
			}
			return txs
		}
		u0, u1, u2 := w.Users[0], w.Users[1], w.Users[2]
		blk("warm-up")
		blk("warm-up")
		base := createCfg(u1, "c05B", "propOptions.configUpdate.initialFunding:2000000000", "10000000000")
		kr := c05Kind{Kind: "GOV_CREATE_AFTER_FINALIZE_FAILED", Base: hx(base)}
		in := &BlockIn{Absent: map[int]bool{}}
		rp.BeginBlock(in)
		v0 := rp.View()
		res := rp.DeliverTx(base)
		kr.BaseCode = res.Code
		kr.BaseEffect = len(diffKeys(v0, rp.View())) > 0
		if r2 := rp.DeliverTx(createCfg(u0, "c05A", "propOptions.configUpdate.fundingGoal:4000000000", "10000000000")); r2.Code != 0 || res.Code != 0 {
			panic("c05 gov flow: creating the two proposals failed: " + res.Log + r2.Log)
		}
		rp.EndBlock()
		rp.Commit()
		blk("fund", txPropFund(u2, "c05A", oltAmt("9000000000"), memo()), txPropFund(u2, "c05B", oltAmt("9000000000"), memo()))
		blk("vote", votes("c05A", "c05B")...)
		blk("finalise")
		blk("finalise")
		blk("finalise")
		has := func(prefix, id string) bool {
			_, ok := rp.View()[prefix+string(propID(id))]
			return ok
		}
		if !has("propFinalized", "c05A") || !has("propFinalizeFailed", "c05B") {
			panic("c05 gov flow: expected c05A finalized and c05B finalize-failed")
		}
		// the goal is restored under the options in force (goal 4e9): c05B's update is admissible again
		blk("restore", createCfg(u2, "c05C", "propOptions.configUpdate.fundingGoal:10000000000", "4000000000"))
		blk("fund", txPropFund(u0, "c05C", oltAmt("3000000000"), memo()))
		blk("vote", votes("c05C")...)
		blk("finalise")
		blk("finalise")
		blk("finalise")
		if !has("propFinalized", "c05C") {
			panic("c05 gov flow: expected c05C finalized")
		}
		if c := rp.CheckTx(createCfg(u1, "c05D", "propOptions.configUpdate.initialFunding:2000000000", "10000000000")); c.Code != 0 {
			panic("c05 gov flow: the update of c05B is not admissible again: " + c.Log)
		}
		subs := append([]labMutant{{"identical", "same", base}}, reencodings(base, r)...)
		rp.BeginBlock(in)
		for _, sb := range subs {
			c := rp.CheckTx(sb.Tx)
			va := rp.View()
			d := rp.DeliverTx(sb.Tx)
			ch := diffKeys(va, rp.View())
			sr := c05Sub{Name: sb.Name, SameParsed: sameParsed(sb.Tx, base), CheckCode: c.Code, CheckDup: strings.Contains(c.Log, "duplicated tx"),
				Deliver: d.Code, Effect: len(ch) > 0, Tx: hx(sb.Tx)}
			if len(ch) > 6 {
				ch = ch[:6]
			}
			sr.Changed = ch
			kr.Subs = append(kr.Subs, sr)
		}
		rp.EndBlock()
		rp.Commit()
		rp.Close()
		rep.Kinds = append(rep.Kinds, kr)
	}
	// ONS: a first-level domain record is never deleted, so its executed DOMAIN_CREATE stays refused for ever in
	// every encoding — also after the sub domains of ANOTHER domain whose name is a string suffix of it
	// (pay.ol / applepay.ol: records are keyed by the reversed name) were removed by the owner's
	// DOMAIN_DELETE_SUB, or by a DOMAIN_PURCHASE of that other domain; and a sub domain survives the removal of
	// a sibling's sub domains (b.shop.ol / ab.shop.ol)
	if *only == "" || strings.HasPrefix(*only, "ONS") {
		for _, flow := range []string{"ONS_CREATE_SUFFIX_DELETE_SUB", "ONS_CREATE_SUFFIX_PURCHASE", "ONS_CREATE_SUB_SUFFIX_DELETE_SUB"} {
			w := NewWorld(3, 5, 2)
			rp := NewReplica(w.Genesis(), ReplicaOpts{NodeVal: w.Vals[0].Val})
			rp.InitChain()
			GAS = 1000000
			n := 0
			memo := func() string { n++; return fmt.Sprintf("c05ons%d", n) }
			blk := func(what string, txs ...[]byte) {
				res := rp.RunBlock(&BlockIn{Txs: txs, Absent: map[int]bool{}})
				for i, t := range res.Txs {
					if t.Code != 0 {
						panic(fmt.Sprintf("c05 ons flow %s: %s: transaction %d refused: %s", flow, what, i, t.Log))
					}
				}
			}
			u0, u1, u2 := w.Users[0], w.Users[1], w.Users[2]
			price := oltAmt("1002000000000000000000")
			blk("warm-up")
			blk("warm-up")
			var base []byte
			in := &BlockIn{Absent: map[int]bool{}}
			first := func(others ...[]byte) c05Kind {
				kr := c05Kind{Kind: flow, Base: hx(base)}
				rp.BeginBlock(in)
				v0 := rp.View()
				res := rp.DeliverTx(base)
				kr.BaseCode = res.Code
				kr.BaseEffect = len(diffKeys(v0, rp.View())) > 0
				for _, o := range others {
					if r2 := rp.DeliverTx(o); r2.Code != 0 {
						panic("c05 ons flow " + flow + ": set-up refused: " + r2.Log)
					}
				}
				rp.EndBlock()
				rp.Commit()
				if res.Code != 0 {
					panic("c05 ons flow " + flow + ": base refused: " + res.Log)
				}
				return kr
			}
			var kr c05Kind
			switch flow {
			case "ONS_CREATE_SUFFIX_DELETE_SUB":
				base = txDomainCreate(u0, "applepay.ol", price, memo())
				kr = first(txDomainCreate(u1, "pay.ol", price, memo()))
				blk("subs", txDomainCreate(u0, "x.applepay.ol", price, memo()), txDomainCreate(u1, "s.pay.ol", price, memo()))
				blk("quiet")
				blk("delete subs of pay.ol", txDomainDeleteSub(u1, "pay.ol", memo()))
			case "ONS_CREATE_SUFFIX_PURCHASE":
				base = txDomainCreate(u0, "applepay.ol", price, memo())
				kr = first(txDomainCreate(u1, "pay.ol", price, memo()))
				blk("subs", txDomainCreate(u1, "s.pay.ol", price, memo()))
				blk("sell", txDomainSell(u1, "pay.ol", oltAmt("5000000000000000000"), false, memo()))
				blk("purchase", txDomainPurchase(u2, "pay.ol", oltAmt("5000000000000000000"), memo()))
			case "ONS_CREATE_SUB_SUFFIX_DELETE_SUB":
				blk("parent", txDomainCreate(u0, "shop.ol", price, memo()))
				base = txDomainCreate(u0, "ab.shop.ol", price, memo())
				kr = first(txDomainCreate(u0, "b.shop.ol", price, memo()))
				blk("quiet")
				blk("delete sub b.shop.ol", txDomainDeleteSub(u0, "b.shop.ol", memo()))
			}
			blk("quiet")
			subs := append([]labMutant{{"identical", "same", base}}, reencodings(base, r)...)
			rp.BeginBlock(in)
			for _, sb := range subs {
				c := rp.CheckTx(sb.Tx)
				va := rp.View()
				d := rp.DeliverTx(sb.Tx)
				ch := diffKeys(va, rp.View())
				sr := c05Sub{Name: sb.Name, SameParsed: sameParsed(sb.Tx, base), CheckCode: c.Code, CheckDup: strings.Contains(c.Log, "duplicated tx"),
					Deliver: d.Code, Effect: len(ch) > 0, Tx: hx(sb.Tx)}
				if len(ch) > 6 {
					ch = ch[:6]
				}
				sr.Changed = ch
				kr.Subs = append(kr.Subs, sr)
			}
			rp.EndBlock()
			rp.Commit()
			rp.Close()
			rep.Kinds = append(rep.Kinds, kr)
		}
	}
	// An allegation with TWO recorded votes: the executed vote of each voter (the one with the lower and the one with
	// the higher address; the votes are kept sorted) must stay refused in every encoding
	if *only == "" || strings.HasPrefix(*only, "ALLEGATION_VOTE_TWO") {
		for _, flow := range []string{"ALLEGATION_VOTE_TWO_VOTERS_FIRST", "ALLEGATION_VOTE_TWO_VOTERS_SECOND"} {
			w := NewWorld(3, 5, 2)
			rp := NewReplica(w.Genesis(), ReplicaOpts{NodeVal: w.Vals[0].Val})
			rp.InitChain()
			GAS = 1000000
			n := 0
			memo := func() string { n++; return fmt.Sprintf("c05av%d", n) }
			in := &BlockIn{Absent: map[int]bool{}}
			v0, v1, v2 := w.Vals[0], w.Vals[1], w.Vals[2]
			for i := 0; i < 5; i++ {
				rp.RunBlock(in)
			}
			rp.RunBlock(&BlockIn{Txs: [][]byte{txAllegation(v0, "c05two", v1.Val.Addr, 6, memo())}, Absent: map[int]bool{}})
			a, b := v0, v2
			if bytes.Compare(a.Val.Addr, b.Val.Addr) > 0 {
				a, b = b, a
			}
			voter, other := a, b // FIRST: the voter with the lower address
			if flow == "ALLEGATION_VOTE_TWO_VOTERS_SECOND" {
				voter, other = b, a
			}
			base := txAllegationVote(voter, "c05two", 1, memo())
			kr := c05Kind{Kind: flow, Base: hx(base)}
			rp.BeginBlock(in)
			v0v := rp.View()
			res := rp.DeliverTx(base)
			kr.BaseCode = res.Code
			kr.BaseEffect = len(diffKeys(v0v, rp.View())) > 0
			r2 := rp.DeliverTx(txAllegationVote(other, "c05two", 2, memo()))
			rp.EndBlock()
			rp.Commit()
			if res.Code == 0 && r2.Code == 0 {
				rp.RunBlock(in)
				subs := append([]labMutant{{"identical", "same", base}}, reencodings(base, r)...)
				rp.BeginBlock(in)
				for _, sb := range subs {
					c := rp.CheckTx(sb.Tx)
					va := rp.View()
					d := rp.DeliverTx(sb.Tx)
					ch := diffKeys(va, rp.View())
					sr := c05Sub{Name: sb.Name, SameParsed: sameParsed(sb.Tx, base), CheckCode: c.Code, CheckDup: strings.Contains(c.Log, "duplicated tx"),
						Deliver: d.Code, Effect: len(ch) > 0, Tx: hx(sb.Tx)}
					if len(ch) > 6 {
						ch = ch[:6]
					}
					sr.Changed = ch
					kr.Subs = append(kr.Subs, sr)
				}
				rp.EndBlock()
				rp.Commit()
			} else {
				kr.BaseCode = 1
			}
			rp.Close()
			rep.Kinds = append(rep.Kinds, kr)
		}
	}
	// The executed transaction itself arrives in a non-canonical framing (a leading blank, a trailing newline, both):
	// the replay record is keyed by the hash of the bytes AS RECEIVED (that is what Tendermint indexes), so a
	// byte-identical copy of it must be recognised like any other
	if *only == "" || strings.HasPrefix(*only, "FRAMED") {
		for _, flow := range []string{"FRAMED_LEADING_SPACE", "FRAMED_TRAILING_NEWLINE", "FRAMED_BOTH"} {
			l := newLab(0)
			w := l.W
			GAS = 1000000
			tx := txSend(w.Users[0], w.Users[1].Addr, oltAmt("1000000000000"), l.memo())
			var base []byte
			switch flow {
			case "FRAMED_LEADING_SPACE":
				base = append([]byte(" "), tx...)
			case "FRAMED_TRAILING_NEWLINE":
				base = append(append([]byte{}, tx...), '\n')
			default:
				base = append(append([]byte("\t "), tx...), []byte(" \r\n")...)
			}
			kr := c05Kind{Kind: flow, Base: hx(base)}
			in := &BlockIn{Absent: map[int]bool{}}
			l.Rep.BeginBlock(in)
			v0 := l.Rep.View()
			res := l.Rep.DeliverTx(base)
			kr.BaseCode = res.Code
			kr.BaseEffect = len(diffKeys(v0, l.Rep.View())) > 0
			l.Rep.EndBlock()
			l.Rep.Commit()
			if res.Code == 0 {
				l.Rep.RunBlock(in)
				subs := []labMutant{{"identical", "same", base}}
				l.Rep.BeginBlock(in)
				for _, sb := range subs {
					c := l.Rep.CheckTx(sb.Tx)
					va := l.Rep.View()
					d := l.Rep.DeliverTx(sb.Tx)
					ch := diffKeys(va, l.Rep.View())
					sr := c05Sub{Name: sb.Name, SameParsed: true, CheckCode: c.Code, CheckDup: strings.Contains(c.Log, "duplicated tx"),
						Deliver: d.Code, Effect: len(ch) > 0, Tx: hx(sb.Tx)}
					if len(ch) > 6 {
						ch = ch[:6]
					}
					sr.Changed = ch
					kr.Subs = append(kr.Subs, sr)
				}
				l.Rep.EndBlock()
				l.Rep.Commit()
			}
			l.Rep.Close()
			rep.Kinds = append(rep.Kinds, kr)
		}
	}
	// Allegations: the request record is DELETED when the validators have decided (guilty or innocent), so after the
	// verdict nothing of the executed ALLEGATION stays taken: what does a re-encoding of it do then?
	if *only == "" || strings.HasPrefix(*only, "ALLEGATION_AFTER") {
		for _, flow := range []string{"ALLEGATION_AFTER_VERDICT_INNOCENT", "ALLEGATION_AFTER_VERDICT_GUILTY"} {
			w := NewWorld(3, 5, 2)
			rp := NewReplica(w.Genesis(), ReplicaOpts{NodeVal: w.Vals[0].Val})
			rp.InitChain()
			GAS = 1000000
			n := 0
			memo := func() string { n++; return fmt.Sprintf("c05al%d", n) }
			in := &BlockIn{Absent: map[int]bool{}}
			v0, v1, v2 := w.Vals[0], w.Vals[1], w.Vals[2]
			for i := 0; i < 5; i++ {
				rp.RunBlock(in)
			}
			base := txAllegation(v0, "c05req", v1.Val.Addr, 6, memo())
			kr := c05Kind{Kind: flow, Base: hx(base)}
			rp.BeginBlock(in)
			v0v := rp.View()
			res := rp.DeliverTx(base)
			kr.BaseCode = res.Code
			kr.BaseEffect = len(diffKeys(v0v, rp.View())) > 0
			rp.EndBlock()
			rp.Commit()
			if res.Code == 0 {
				choice := int8(2) // no
				if flow == "ALLEGATION_AFTER_VERDICT_GUILTY" {
					choice = 1
				}
				rp.RunBlock(&BlockIn{Txs: [][]byte{txAllegationVote(v0, "c05req", choice, memo()), txAllegationVote(v2, "c05req", choice, memo()),
					txAllegationVote(v1, "c05req", choice, memo())}, Absent: map[int]bool{}})
				for i := 0; i < 3; i++ {
					rp.RunBlock(in)
				}
				subs := append([]labMutant{{"identical", "same", base}}, reencodings(base, r)...)
				rp.BeginBlock(in)
				for _, sb := range subs {
					c := rp.CheckTx(sb.Tx)
					va := rp.View()
					d := rp.DeliverTx(sb.Tx)
					ch := diffKeys(va, rp.View())
					sr := c05Sub{Name: sb.Name, SameParsed: sameParsed(sb.Tx, base), CheckCode: c.Code, CheckDup: strings.Contains(c.Log, "duplicated tx"),
						Deliver: d.Code, Effect: len(ch) > 0, Tx: hx(sb.Tx)}
					if len(ch) > 6 {
						ch = ch[:6]
					}
					sr.Changed = ch
					kr.Subs = append(kr.Subs, sr)
				}
				rp.EndBlock()
				rp.Commit()
			}
			rp.Close()
			rep.Kinds = append(rep.Kinds, kr)
		}
	}
	b.WriteString("\n].\nDefinition MM := Eval vm_compute in replay_mismatches 0 cases.\nPrint MM.\n")
	name := *outDir + "/c05_cases_0.v"
	must(os.WriteFile(name, b.Bytes(), 0644))
	rep.Files = append(rep.Files, name)
	bz, _ := json.MarshalIndent(rep, "", " ")
	must(os.WriteFile(*outDir+"/c05_report.json", bz, 0644))
	say("c05: %d kinds\n", len(rep.Kinds))
	return 0
}
