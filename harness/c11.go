package main

// c11: stake lifecycle.  Runs the REAL application (Replica) on generated and scripted histories of
// STAKE / UNSTAKE / WITHDRAW by several validators' stake accounts, allegation verdicts, block
// progress past maturity heights, changes of the maturity option (through the real
// governance.Store.SetStakingOptions + SetLUH, the calls the governance update makes) and a
// genesis variant with maturing amounts.  Records, per transaction, the inputs the model needs
// (frozen flag, open request, balance, height, maturity option, purge block) and ok/fail + balance
// change; per block the decoded st__* / v_ records.  Writes c11_cases_<i>.v for Stake.v/StakeCheck.v.

import (
	"encoding/json"
	"flag"
	"fmt"
	"io/ioutil"
	"math/big"
	"math/rand"
	"os"
	"os/exec"
	"path/filepath"
	"sort"
	"strings"
	"sync"
	"time"

	"github.com/Oneledger/protocol/action"
	govact "github.com/Oneledger/protocol/action/governance"
	"github.com/Oneledger/protocol/consensus"
	"github.com/Oneledger/protocol/data/balance"
	"github.com/Oneledger/protocol/data/delegation"
	"github.com/Oneledger/protocol/data/evidence"
	"github.com/Oneledger/protocol/data/governance"
	"github.com/Oneledger/protocol/data/keys"
	"github.com/Oneledger/protocol/identity"
)

func init() { subcmds["c11"] = c11Main }

// ---- one planned step of a history ----
type c11Tx struct {
	Kind    string // stake | unstake | withdraw | allege | vote | setmaturity
	V       int    // index into the validator cast (the validator NAMED in the transaction)
	D       int    // index into the cast whose stake account signs / is the delegator (-1: same as V)
	Amount  string
	Req     string
	Mal     int
	Choice  int8
	NewMat  int64
	Update  string // propcfg: the configuration update, e.g. "stakingOptions.maturityTime:150000"
	CheckOnly bool // propcfg: only CheckTx, never delivered
}

type c11Plan struct {
	Name    string
	Genesis string // default | mature
	Mat     int64  // genesis MaturityTime
	Blocks  [][]c11Tx
	// process restarts (Replica.Crash: byte copy of the data directory + a fresh application):
	CrashAfter  []int // block indices: restart after the Commit of that block
	CrashMid    []int // block indices: restart between EndBlock and Commit; the block is replayed
	NoVerdictCrash bool // by default every verdict block is followed by a restart after its Commit
	VerdictMid  bool  // additionally restart between EndBlock and Commit of every verdict block
	JumpAt      []int // block indices whose block time is one day (+1 s) later than the regular 15 s step
}

func c11In(l []int, x int) bool {
	for _, y := range l {
		if y == x {
			return true
		}
	}
	return false
}

// ---- recorded trace ----
type c11OpRec struct {
	Coq  string // the (op, expect) pair as Coq text
	Kind string
	OK   bool
	Desc string
}

type c11CaseRec struct {
	Plan                 c11Plan
	Steps                []c11OpRec
	Restarts             int
	RestartsMid          int
	RestartsAfterVerdict int
	SharedVerdicts       int
	PropChecked, PropDelivered, PropCreated, PropRefused, OptionChanges int
	Releases int
}

type c11Addrs struct {
	idx   map[string]int
	names []string
}

func (a *c11Addrs) of(s string) int {
	s = strings.ToLower(s)
	if i, ok := a.idx[s]; ok {
		return i
	}
	a.names = append(a.names, s)
	a.idx[s] = len(a.names)
	return len(a.names)
}

func c11Z(s string) string {
	if strings.HasPrefix(s, "-") {
		return "(" + s + ")"
	}
	return s
}

func c11Bool(b bool) string {
	if b {
		return "true"
	}
	return "false"
}

func c11Unquote(s string) string { return strings.Trim(s, "\"") }

type c11Obs struct {
	Eff  [][3]string
	Vtot [][2]string
	Deff [][2]string
	Dbnd [][2]string
	Mat  map[int64][][2]string
	Vrec [][4]string // v, saddr, staking, power
}

func c11Observe(view map[string]string, ad *c11Addrs) c11Obs {
	o := c11Obs{Mat: map[int64][][2]string{}}
	for _, k := range sortedKeys(view) {
		v := view[k]
		switch {
		case strings.HasPrefix(k, "st__e_"):
			parts := strings.Split(k[len("st__e_"):], "_")
			if len(parts) == 2 && c11Unquote(v) != "0" {
				o.Eff = append(o.Eff, [3]string{fmt.Sprint(ad.of(parts[0])), fmt.Sprint(ad.of(parts[1])), c11Unquote(v)})
			}
		case strings.HasPrefix(k, "st__t_"):
			if c11Unquote(v) != "0" {
				o.Vtot = append(o.Vtot, [2]string{fmt.Sprint(ad.of(k[len("st__t_"):])), c11Unquote(v)})
			}
		case strings.HasPrefix(k, "st__d_e_"):
			if c11Unquote(v) != "0" {
				o.Deff = append(o.Deff, [2]string{fmt.Sprint(ad.of(k[len("st__d_e_"):])), c11Unquote(v)})
			}
		case strings.HasPrefix(k, "st__d_b_"):
			if c11Unquote(v) != "0" {
				o.Dbnd = append(o.Dbnd, [2]string{fmt.Sprint(ad.of(k[len("st__d_b_"):])), c11Unquote(v)})
			}
		case strings.HasPrefix(k, "st__m_"):
			var mb struct {
				Height int64
				Data   []struct {
					Address string
					Amount  string
					Height  int64
				}
			}
			if err := json.Unmarshal([]byte(v), &mb); err != nil {
				panic("c11: cannot decode " + k + ": " + err.Error())
			}
			var h int64
			fmt.Sscanf(k[len("st__m_"):], "%d", &h)
			if len(mb.Data) > 0 {
				es := [][2]string{}
				for _, e := range mb.Data {
					es = append(es, [2]string{fmt.Sprint(ad.of(e.Address)), e.Amount})
				}
				o.Mat[h] = es
			}
		case strings.HasPrefix(k, "v_") && len(k) == 22:
			var vr struct {
				Address      string `json:"address"`
				StakeAddress string `json:"stakeAddress"`
				Power        int64  `json:"power"`
				Staking      string `json:"staking"`
			}
			if err := json.Unmarshal([]byte(v), &vr); err != nil || vr.Address == "" {
				continue
			}
			o.Vrec = append(o.Vrec, [4]string{fmt.Sprint(ad.of(vr.Address)), fmt.Sprint(ad.of(vr.StakeAddress)), vr.Staking, fmt.Sprint(vr.Power)})
		}
	}
	return o
}

func (o c11Obs) coq() string {
	var b strings.Builder
	b.WriteString("Obs [")
	for i, e := range o.Eff {
		if i > 0 {
			b.WriteString("; ")
		}
		fmt.Fprintf(&b, "(%s%%positive, %s%%positive, %s)", e[0], e[1], c11Z(e[2]))
	}
	pl := func(l [][2]string) {
		b.WriteString("] [")
		for i, e := range l {
			if i > 0 {
				b.WriteString("; ")
			}
			fmt.Fprintf(&b, "(%s%%positive, %s)", e[0], c11Z(e[1]))
		}
	}
	pl(o.Vtot)
	pl(o.Deff)
	pl(o.Dbnd)
	b.WriteString("] [")
	hs := []int64{}
	for h := range o.Mat {
		hs = append(hs, h)
	}
	sort.Slice(hs, func(i, j int) bool { return hs[i] < hs[j] })
	for i, h := range hs {
		if i > 0 {
			b.WriteString("; ")
		}
		fmt.Fprintf(&b, "(%s, [", c11Z(fmt.Sprint(h)))
		for j, e := range o.Mat[h] {
			if j > 0 {
				b.WriteString("; ")
			}
			fmt.Fprintf(&b, "(%s%%positive, %s)", e[0], c11Z(e[1]))
		}
		b.WriteString("])")
	}
	b.WriteString("] [")
	for i, e := range o.Vrec {
		if i > 0 {
			b.WriteString("; ")
		}
		fmt.Fprintf(&b, "(%s%%positive, VRec %s%%positive %s %s)", e[0], e[1], c11Z(e[2]), c11Z(e[3]))
	}
	b.WriteString("]")
	return b.String()
}

func c11Bal(view map[string]string, a keys.Address) *big.Int {
	s := c11Unquote(view["b_"+a.String()+"_OLT"])
	z, ok := new(big.Int).SetString(s, 10)
	if !ok {
		return big.NewInt(0)
	}
	return z
}

// ---- running one plan on the real application ----
func c11Run(plan c11Plan) c11CaseRec {
	w := NewWorld(4, 2, 2)
	cast := append(append([]ValSpec{}, w.Vals...), w.Extra...)
	gen := w.Genesis()
	mat := plan.Mat
	matureGen := plan.Genesis == "mature"
	prodGov := plan.Genesis == "prodgov"
	gen.Customize = func(st *consensus.AppState) {
		st.Governance.StakingOptions.MaturityTime = mat
		if matureGen {
			customizeMature(w)(st)
		}
		if prodGov {
			// production-range proposal and staking options, so that a configuration update of the staking
			// options validates and can be finalised (ValidateProposal / ValidateStaking ranges)
			d := governance.ProposalFundDistribution{Validators: 18, FeePool: 18, Burn: 18, ExecutionCost: 18, BountyPool: 10, ProposerReward: 18}
			mk := func(fdl, vdl int64, pass int) governance.ProposalOption {
				return governance.ProposalOption{InitialFunding: amt("1000000000"), FundingGoal: amt("10000000000"), FundingDeadline: fdl, VotingDeadline: vdl,
					PassPercentage: pass, PassedFundDistribution: d, FailedFundDistribution: d, ProposalExecutionCost: "executionCost"}
			}
			st.Governance.PropOptions = governance.ProposalOptionSet{ConfigUpdate: mk(10000, 10000, 51), CodeChange: mk(10000, 150000, 60), General: mk(75000, 75000, 67), BountyProgramAddr: "oneledgerBountyProgram"}
			st.Governance.StakingOptions.MinSelfDelegationAmount = *balance.NewAmount(500000)
			st.Governance.StakingOptions.TopValidatorCount = 8
		}
	}
	rep := NewReplica(gen, ReplicaOpts{NodeVal: w.Vals[0].Val})
	defer rep.Close()
	rep.InitChain()
	ad := &c11Addrs{idx: map[string]int{}}
	for _, c := range cast {
		ad.of(c.Val.Addr.String())
		ad.of(c.Stake.Addr.String())
	}
	rec := c11CaseRec{Plan: plan}
	add := func(kind, coq, desc string, ok bool) {
		rec.Steps = append(rec.Steps, c11OpRec{Coq: coq, Kind: kind, OK: ok, Desc: desc})
	}
	// genesis operations
	for _, v := range w.Vals {
		add("genstake", fmt.Sprintf("(OGenStake %d%%positive %d%%positive %d, ENone)", ad.of(v.Val.Addr.String()), ad.of(v.Stake.Addr.String()), v.Power), "genesis stake", true)
	}
	if matureGen {
		for h := int64(5); h < 12; h++ {
			add("genmature", fmt.Sprintf("(OGenMature %d %d%%positive 1, ENone)", h, ad.of(w.Vals[0].Stake.Addr.String())), "genesis maturing", true)
		}
	}
	// the application creates a fresh deliver state in every BeginBlock: re-aim after each one
	es := evidence.NewEvidenceStore("es", rep.A.VerifDeliver())
	gov := governance.NewStore("g", rep.A.VerifDeliver())
	vs := identity.NewValidatorStore("v", "purged", rep.A.VerifDeliver())
	frozenSet := func() []int {
		fs := []int{}
		for _, c := range cast {
			if es.IsFrozenValidator(c.Val.Addr) {
				fs = append(fs, ad.of(c.Val.Addr.String()))
			}
		}
		return fs
	}
	nonce := 0
	memo := func() string { nonce++; return fmt.Sprintf("c11-%d", nonce) }
	convicted := map[int]bool{} // validators with a GUILTY verdict and no successful RELEASE since
	lastMat := int64(-1)
	for bi := 0; bi < len(plan.Blocks); bi++ {
		blk := plan.Blocks[bi]
		lastH := rep.H
		attempt := 0
		if c11In(plan.JumpAt, bi) {
			rep.T0 = rep.T0.Add(86401 * time.Second)
		}
	retry:
		attempt++
		mark := len(rec.Steps)
		h := rep.H + 1
		blocked := []string{} // (the purge-height rule is no longer consulted by the postponed update: fix 0ce270f)
		rep.BeginBlock(&BlockIn{Absent: map[int]bool{}})
		es.WithState(rep.A.VerifDeliver())
		gov.WithState(rep.A.VerifDeliver())
		vs.WithState(rep.A.VerifDeliver())
		if o0, err := gov.GetStakingOptions(); err == nil {
			if lastMat >= 0 && o0.MaturityTime != lastMat && attempt == 1 {
				rec.OptionChanges++
			}
			lastMat = o0.MaturityTime
		}
		add("begin", fmt.Sprintf("(OBegin [%s], ENone)", strings.Join(blocked, "; ")), fmt.Sprintf("begin block %d", h), true)
		for _, t := range blk {
			v := cast[t.V]
			dcast := v
			if t.D >= 0 {
				dcast = cast[t.D]
			}
			signer := ValSpec{Val: v.Val, Stake: dcast.Stake}
			switch t.Kind {
			case "setmaturity":
				opt, err := gov.GetStakingOptions()
				must(err)
				opt.MaturityTime = t.NewMat
				must(gov.WithHeight(h).SetStakingOptions(*opt))
				must(gov.WithHeight(h).SetLUH(governance.LAST_UPDATE_HEIGHT_STAKING))
				continue
			case "propcfg":
				// a configuration-update proposal about the staking options: CheckTx'ed, and delivered unless CheckOnly
				fdl, vdl := h+3, h+3+12
				if prodGov {
					fdl, vdl = 200, 10200
				}
				ptx := mkTx(action.PROPOSAL_CREATE, govact.CreateProposal{ProposalID: propID(plan.Name + t.Req), ProposalType: governance.ProposalTypeConfigUpdate, Headline: "h", Description: "d " + t.Req,
					Proposer: w.Users[0].Addr, InitialFunding: oltAmt("1000000000"), FundingDeadline: fdl, FundingGoal: amt("10000000000"), VotingDeadline: vdl, PassPercentage: 51, ConfigUpdate: t.Update}, GAS, memo(), w.Users[0])
				cres := rep.CheckTx(ptx)
				rec.PropChecked++
				if cres.Code != 0 {
					rec.PropRefused++
				}
				if !t.CheckOnly {
					dres := rep.DeliverTx(ptx)
					rec.PropDelivered++
					if dres.Code == 0 {
						rec.PropCreated++
					}
				}
				continue
			case "propfund":
				rep.DeliverTx(txPropFund(w.Users[1], plan.Name+t.Req, oltAmt("9000000000"), memo()))
				continue
			case "propvote":
				for _, gv := range w.Vals {
					rep.DeliverTx(txPropVote(gv, plan.Name+t.Req, governance.OPIN_POSITIVE, memo()))
				}
				continue
			case "release":
				if rr := rep.DeliverTx(txRelease(v, memo())); rr.Code == 0 {
					delete(convicted, ad.of(v.Val.Addr.String()))
					rec.Releases++
				}
				continue
			case "allege":
				rep.DeliverTx(txAllegation(v, t.Req, cast[t.Mal].Val.Addr, h, memo()))
				continue
			case "vote":
				rep.DeliverTx(txAllegationVote(v, t.Req, t.Choice, memo()))
				continue
			}
			view := rep.View()
			balBefore := c11Bal(view, signer.Stake.Addr)
			frozen := es.IsFrozenValidator(v.Val.Addr)
			reqOpen := es.CheckRequestExists(v.Val.Addr)
			fset := frozenSet()
			opt, err := gov.GetStakingOptions()
			must(err)
			ph, _ := vs.GetLastPurgeHeight(v.Val.Addr)
			purgeBlock := ph > 0 && ph+2 > h
			var tx []byte
			switch t.Kind {
			case "stake":
				tx = txStake(signer, oltAmt(t.Amount), memo())
			case "unstake":
				tx = txUnstake(signer, oltAmt(t.Amount), memo())
			case "withdraw":
				tx = txWithdraw(signer, oltAmt(t.Amount), memo())
			default:
				panic("c11: unknown kind " + t.Kind)
			}
			if os.Getenv("C11_TRACE") != "" {
				say("c11 trace: %s h=%d %s v=%d d=%d amount=%s\n", plan.Name, h, t.Kind, t.V, t.D, t.Amount)
			}
			res := rep.DeliverTx(tx)
			ok := res.Code == 0
			// the fee step is the cause of a failure only if the account cannot afford 0.01 OLT after the
			// handler's debit (a Validate rejection also reports GasUsed = 0 since fix d276709)
			afford := new(big.Int).Set(balBefore)
			if t.Kind == "stake" {
				if z, okz := new(big.Int).SetString(t.Amount, 10); okz && z.Sign() >= 0 && z.BitLen() < 64 {
					afford.Sub(afford, new(big.Int).Mul(z, new(big.Int).Exp(big.NewInt(10), big.NewInt(18), nil)))
				}
			}
			feeFail := !ok && res.GasUsed == 0 && afford.Cmp(new(big.Int).Exp(big.NewInt(10), big.NewInt(16), nil)) < 0
			balAfter := c11Bal(rep.View(), signer.Stake.Addr)
			dbal := new(big.Int).Sub(balAfter, balBefore)
			if ok {
				dbal.Add(dbal, new(big.Int).Mul(big.NewInt(res.GasUsed), big.NewInt(1000000000)))
			}
			vi, di := ad.of(v.Val.Addr.String()), ad.of(signer.Stake.Addr.String())
			fs := []string{}
			for _, f := range fset {
				fs = append(fs, fmt.Sprintf("%d%%positive", f))
			}
			cv := []string{}
			for _, c := range cast {
				if convicted[ad.of(c.Val.Addr.String())] {
					cv = append(cv, fmt.Sprintf("%d%%positive", ad.of(c.Val.Addr.String())))
				}
			}
			exp := fmt.Sprintf("ETx %s %s [%s] [%s]", c11Bool(ok), c11Z(dbal.String()), strings.Join(fs, "; "), strings.Join(cv, "; "))
			var op string
			switch t.Kind {
			case "stake":
				op = fmt.Sprintf("OStake %d%%positive %d%%positive %s %s %s %d %s %s %s", vi, di, c11Z(t.Amount), c11Bool(frozen), c11Z(balBefore.String()), h, c11Z(fmt.Sprint(opt.MaturityTime)), c11Bool(purgeBlock), c11Bool(feeFail))
			case "unstake":
				op = fmt.Sprintf("OUnstake %d%%positive %d%%positive %s %s %s %d %s %s %s", vi, di, c11Z(t.Amount), c11Bool(frozen), c11Bool(reqOpen), h, c11Z(fmt.Sprint(opt.MaturityTime)), c11Bool(purgeBlock), c11Bool(feeFail))
			case "withdraw":
				op = fmt.Sprintf("OWithdraw %d%%positive %d%%positive %s %s %s", vi, di, c11Z(t.Amount), c11Bool(frozen), c11Bool(feeFail))
			}
			add(t.Kind, "("+op+", "+exp+")", fmt.Sprintf("h=%d %s v=%d d=%d amount=%s code=%d", h, t.Kind, t.V, t.D, t.Amount, res.Code), ok)
		}
		// EndBlock: verdicts = validators whose suspicious-validator record is (re)written by the hook
		before := rep.View()
		rep.EndBlock()
		after := rep.View()
		verdicts := []string{}
		guilty := map[string]bool{} // GUILTY decisions of this end-block, read from the allegation request records
		for k, av := range after {
			if !strings.HasPrefix(k, "es__ark_") {
				continue
			}
			var ar, br struct {
				MaliciousAddress string
				Status           int
			}
			if json.Unmarshal([]byte(av), &ar) != nil || ar.Status != 3 {
				continue
			}
			if bv, okb := before[k]; okb && json.Unmarshal([]byte(bv), &br) == nil && br.Status == 3 {
				continue
			}
			guilty[strings.ToLower(ar.MaliciousAddress)] = true
		}
		for k, bv := range before {
			// a decided request is deleted: GUILTY if the convicted validator's total was reduced by this end-block
			if _, still := after[k]; still || !strings.HasPrefix(k, "es__ark_") {
				continue
			}
			var br struct{ MaliciousAddress string }
			if json.Unmarshal([]byte(bv), &br) != nil {
				continue
			}
			tk := "st__t_" + strings.ToLower(br.MaliciousAddress)
			if before[tk] != after[tk] {
				guilty[strings.ToLower(br.MaliciousAddress)] = true
			}
		}
		isVerdict := func(c ValSpec) bool {
			k := "es__ssvk_" + c.Val.Addr.String()
			return (after[k] != before[k] && after[k] != "") || guilty[strings.ToLower(c.Val.Addr.String())]
		}
		for _, c := range cast {
			if isVerdict(c) {
				verdicts = append(verdicts, fmt.Sprintf("(%d%%positive, 30, 100)", ad.of(c.Val.Addr.String())))
			}
		}
		if attempt == 1 && bi > 0 && (c11In(plan.CrashMid, bi) || (plan.VerdictMid && len(verdicts) > 0)) {
			// the process dies between EndBlock and Commit: nothing of this block is committed; the
			// restarted application is handed the same block again
			rep.Crash()
			rec.Restarts++
			rec.RestartsMid++
			rep.H = lastH
			rec.Steps = rec.Steps[:mark]
			goto retry
		}
		rep.Commit()
		obs := c11Observe(rep.Dump(), ad)
		for _, c := range cast {
			if isVerdict(c) {
				convicted[ad.of(c.Val.Addr.String())] = true
			}
		}
		for _, vd := range verdicts {
			// verdicts on a validator whose stake account backs another validator record as well
			var vi string
			fmt.Sscanf(vd, "(%s", &vi)
			vi = strings.TrimSuffix(strings.TrimPrefix(strings.SplitN(vd, ",", 2)[0], "("), "%positive")
			sa, n := "", 0
			for _, e := range obs.Vrec {
				if e[0] == vi {
					sa = e[1]
				}
			}
			for _, e := range obs.Vrec {
				if sa != "" && e[1] == sa {
					n++
				}
			}
			if n > 1 {
				rec.SharedVerdicts++
			}
		}
		add("end", fmt.Sprintf("(OEnd %d [%s], EBlock (%s))", h, strings.Join(verdicts, "; "), obs.coq()), fmt.Sprintf("end block %d verdicts=%d", h, len(verdicts)), true)
		if c11In(plan.CrashAfter, bi) || (!plan.NoVerdictCrash && len(verdicts) > 0) {
			// the process dies after the Commit: the next block runs in a fresh process on the stored state
			rep.Crash()
			rec.Restarts++
			if len(verdicts) > 0 {
				rec.RestartsAfterVerdict++
			}
		}
	}
	return rec
}

// ---- plans ----
var c11Amounts = []string{"0", "1", "500", "1000", "1500", "5000", "250000", "999000", "1000000", "1000001", "2999000", "3000000",
	"9223372036854775807", "18446744073709551616", "18446744073709552616", "36893488147419103232", "-1", "-100", "-18446744073709551616"}

func c11RandomPlan(r *rand.Rand, i int) c11Plan {
	p := c11Plan{Name: fmt.Sprintf("rand%d", i), Genesis: "default", Mat: int64(1 + r.Intn(4))}
	if r.Intn(5) == 0 {
		p.Genesis = "mature"
	}
	nb := 14 + r.Intn(10)
	verdictAt := -1
	mal := 1 + r.Intn(3)
	if r.Intn(2) == 0 {
		verdictAt = 4 + r.Intn(6)
	}
	// in two thirds of the verdict histories the convicted validator's stake account backs a second
	// validator: either the convicted one is the genesis validator (larger share) or the candidate
	// staked out of a genesis validator's account (smaller share)
	sharedCand, sharedOwner := -1, -1
	if verdictAt >= 0 {
		switch r.Intn(3) {
		case 0:
			sharedCand, sharedOwner = 4+r.Intn(2), mal
		case 1:
			sharedOwner = mal
			sharedCand = 4 + r.Intn(2)
			mal = sharedCand
		}
	}
	voterA, voterB := 1, 2
	if mal < 4 {
		voterA, voterB = (mal%3)+1, ((mal+1)%3)+1
	}
	wild := r.Intn(3) == 0 // amounts outside [0, 2^63) only in a third of the histories
	amount := func(kind string) string {
		if wild && r.Intn(4) == 0 {
			return c11Amounts[12+r.Intn(len(c11Amounts)-12)]
		}
		switch kind {
		case "stake":
			return []string{"0", "1", "1500", "5000", "250000", "999000", "1000000", "1000001"}[r.Intn(8)]
		case "unstake":
			return []string{"0", "1", "500", "1000", "1500", "5000", "2999000", "3000000", "2998000"}[r.Intn(9)]
		}
		return []string{"1", "500", "1000", "1500", "5000", "2999000"}[r.Intn(6)]
	}
	p.VerdictMid = r.Intn(2) == 0
	for b := 1; b < nb; b++ {
		if r.Intn(8) == 0 {
			p.CrashAfter = append(p.CrashAfter, b)
		}
		if r.Intn(12) == 0 {
			p.CrashMid = append(p.CrashMid, b)
		}
	}
	for b := 0; b < nb; b++ {
		blk := []c11Tx{}
		if sharedCand >= 0 && b == verdictAt-2 {
			blk = append(blk, c11Tx{Kind: "stake", V: sharedCand, D: sharedOwner, Amount: []string{"1500", "5000", "250000"}[r.Intn(3)]})
		}
		if b == verdictAt {
			blk = append(blk, c11Tx{Kind: "allege", V: 0, Req: fmt.Sprintf("r%d", i), Mal: mal})
		}
		if b == verdictAt+1 && verdictAt >= 0 {
			blk = append(blk, c11Tx{Kind: "vote", V: 0, Req: fmt.Sprintf("r%d", i), Choice: 1})
			blk = append(blk, c11Tx{Kind: "vote", V: voterA, Req: fmt.Sprintf("r%d", i), Choice: 1})
			blk = append(blk, c11Tx{Kind: "vote", V: voterB, Req: fmt.Sprintf("r%d", i), Choice: 1})
		}
		if r.Intn(5) == 0 {
			// burst: several unstakes of the same delegator in one block (same maturity height), from its
			// own validator and from a candidate validator staked out of the same account
			v := r.Intn(4)
			for j := 0; j < 2+r.Intn(3); j++ {
				a := []string{"1", "100", "100", "500", "1500"}[r.Intn(5)]
				if r.Intn(3) == 0 {
					blk = append(blk, c11Tx{Kind: "unstake", V: 4 + r.Intn(2), D: v, Amount: a})
				} else {
					blk = append(blk, c11Tx{Kind: "unstake", V: v, D: -1, Amount: a})
				}
			}
		}
		n := r.Intn(4)
		for j := 0; j < n; j++ {
			v := r.Intn(6)
			d := -1
			if r.Intn(10) == 0 {
				d = r.Intn(6) // a delegator other than the validator's own stake account
			}
			switch k := r.Intn(10); {
			case k < 3:
				if v >= 4 && d < 0 && r.Intn(3) == 0 {
					d = r.Intn(4) // a candidate validator staked from a genesis validator's stake account
				}
				blk = append(blk, c11Tx{Kind: "stake", V: v, D: d, Amount: amount("stake")})
			case k < 6:
				blk = append(blk, c11Tx{Kind: "unstake", V: v, D: d, Amount: amount("unstake")})
			case k < 9:
				blk = append(blk, c11Tx{Kind: "withdraw", V: v, D: d, Amount: amount("withdraw")})
			default:
				if r.Intn(2) == 0 {
					upd := []string{"stakingOptions.maturityTime:0", "stakingOptions.maturityTime:1", "stakingOptions.maturityTime:7", "stakingOptions.maturityTime:150000",
						"stakingOptions.minSelfDelegationAmount:600000", "stakingOptions.topValidatorCount:9"}[r.Intn(6)]
					blk = append(blk, c11Tx{Kind: "propcfg", V: 0, D: -1, Req: fmt.Sprintf("q%d_%d", b, j), Update: upd, CheckOnly: r.Intn(3) == 0})
					blk = append(blk, c11Tx{Kind: "unstake", V: r.Intn(4), D: -1, Amount: []string{"1", "100", "500"}[r.Intn(3)]})
				} else {
					blk = append(blk, c11Tx{Kind: "setmaturity", V: 0, D: -1, NewMat: int64(r.Intn(6))})
				}
			}
		}
		p.Blocks = append(p.Blocks, blk)
	}
	return p
}

func c11Empty(n int) [][]c11Tx {
	out := [][]c11Tx{}
	for i := 0; i < n; i++ {
		out = append(out, []c11Tx{})
	}
	return out
}

// scripted histories: the witnesses of the refuted theorems and the ordinary life cycle
func c11Scripts() []c11Plan {
	ps := []c11Plan{}
	tx := func(kind string, v int, a string) c11Tx { return c11Tx{Kind: kind, V: v, D: -1, Amount: a} }
	// ordinary life cycle: stake, unstake, wait, withdraw; early and double withdraw refused
	life := c11Plan{Name: "lifecycle", Genesis: "default", Mat: 3, Blocks: c11Empty(12), CrashAfter: []int{2, 4}, CrashMid: []int{5}}
	life.Blocks[1] = []c11Tx{tx("stake", 4, "5000"), tx("stake", 1, "700")}
	life.Blocks[2] = []c11Tx{tx("unstake", 4, "2000"), tx("withdraw", 4, "1")}
	life.Blocks[4] = []c11Tx{tx("withdraw", 4, "2000")}
	life.Blocks[5] = []c11Tx{tx("withdraw", 4, "1500"), tx("withdraw", 4, "501"), tx("withdraw", 4, "500"), tx("withdraw", 4, "1")}
	life.Blocks[6] = []c11Tx{tx("unstake", 1, "3000000"), tx("unstake", 1, "299700")}
	ps = append(ps, life)
	// E3: STAKE of 2^64 is debited 0; unstake + withdraw pay out what was never paid in
	e3 := c11Plan{Name: "stake_2p64", Genesis: "default", Mat: 2, Blocks: c11Empty(8)}
	e3.Blocks[1] = []c11Tx{tx("stake", 4, "18446744073709551616")}
	e3.Blocks[2] = []c11Tx{tx("unstake", 4, "1000")}
	e3.Blocks[5] = []c11Tx{tx("withdraw", 4, "1000")}
	ps = append(ps, e3)
	// negative STAKE on the deliver path: the balance is credited, the records go negative
	neg := c11Plan{Name: "stake_negative", Genesis: "default", Mat: 2, Blocks: c11Empty(5)}
	neg.Blocks[1] = []c11Tx{tx("stake", 5, "-100")}
	ps = append(ps, neg)
	// negative WITHDRAW / UNSTAKE on the deliver path
	neg2 := c11Plan{Name: "withdraw_unstake_negative", Genesis: "default", Mat: 2, Blocks: c11Empty(8)}
	neg2.Blocks[1] = []c11Tx{tx("withdraw", 1, "-7")}
	neg2.Blocks[2] = []c11Tx{tx("unstake", 2, "-50")}
	neg2.Blocks[6] = []c11Tx{tx("withdraw", 1, "7")}
	ps = append(ps, neg2)
	// the v_ record is deleted one block after the power was <= 0 although stake was added again
	del := c11Plan{Name: "record_deleted_with_stake", Genesis: "default", Mat: 2, Blocks: c11Empty(10)}
	del.Blocks[1] = []c11Tx{tx("unstake", 2, "2998000")}
	del.Blocks[2] = []c11Tx{tx("stake", 2, "5000")}
	del.Blocks[5] = []c11Tx{tx("unstake", 2, "100")}
	del.Blocks[6] = []c11Tx{tx("stake", 2, "10")}
	del.Blocks[8] = []c11Tx{tx("unstake", 2, "5010")}
	ps = append(ps, del)
	// verdict: freeze + penalty; WITHDRAW naming the frozen validator refused, naming another accepted
	fz := c11Plan{Name: "frozen_sidestep", Genesis: "default", Mat: 2, Blocks: c11Empty(14), VerdictMid: true}
	fz.Blocks[1] = []c11Tx{tx("unstake", 2, "1000")}
	fz.Blocks[4] = []c11Tx{{Kind: "allege", V: 0, Req: "fz", Mal: 2}}
	fz.Blocks[5] = []c11Tx{{Kind: "vote", V: 0, Req: "fz", Choice: 1}, {Kind: "vote", V: 1, Req: "fz", Choice: 1}, {Kind: "vote", V: 3, Req: "fz", Choice: 1}}
	fz.Blocks[7] = []c11Tx{tx("withdraw", 2, "10"), tx("unstake", 2, "10"), tx("stake", 2, "10"),
		{Kind: "withdraw", V: 5, D: 2, Amount: "400"}, {Kind: "withdraw", V: 1, D: 2, Amount: "300"}}
	ps = append(ps, fz)
	// penalty applied through the non-atomic MinusFromAddress with the stake address of the PREVIOUS
	// version: the validator total is reduced, the (validator, delegator) amount is not
	pn := c11Plan{Name: "penalty_stale_address", Genesis: "default", Mat: 0, Blocks: c11Empty(8)}
	pn.Blocks[1] = []c11Tx{tx("unstake", 2, "2998000")}
	pn.Blocks[2] = []c11Tx{tx("withdraw", 2, "2998000"), {Kind: "stake", V: 2, D: 5, Amount: "5000"},
		{Kind: "allege", V: 0, Req: "pn", Mal: 2}, {Kind: "vote", V: 0, Req: "pn", Choice: 1}, {Kind: "vote", V: 1, Req: "pn", Choice: 1}, {Kind: "vote", V: 3, Req: "pn", Choice: 1}}
	ps = append(ps, pn)
	// the postponed record update of a penalty is refused by the purge-height rule in BeginBlock
	pb := c11Plan{Name: "postponed_blocked", Genesis: "default", Mat: 2, Blocks: c11Empty(9), VerdictMid: true}
	pb.Blocks[1] = []c11Tx{tx("unstake", 2, "2997500")}
	pb.Blocks[2] = []c11Tx{{Kind: "allege", V: 0, Req: "pb", Mal: 2}, {Kind: "vote", V: 0, Req: "pb", Choice: 1}, {Kind: "vote", V: 1, Req: "pb", Choice: 1}, {Kind: "vote", V: 3, Req: "pb", Choice: 1}}
	ps = append(ps, pb)
	// several unstakes of one delegator maturing at the same height: same validator (incl. equal
	// amounts), another validator staked from the same account, and a later unstake under a shorter
	// maturity option that lands on the same height
	sh := c11Plan{Name: "same_height_unstakes", Genesis: "default", Mat: 2, Blocks: c11Empty(10)}
	sh.Blocks[1] = []c11Tx{{Kind: "stake", V: 4, D: 1, Amount: "5000"}}
	sh.Blocks[2] = []c11Tx{tx("unstake", 1, "100"), tx("unstake", 1, "200"), {Kind: "unstake", V: 4, D: 1, Amount: "300"}, tx("unstake", 1, "100")}
	sh.Blocks[3] = []c11Tx{{Kind: "setmaturity", NewMat: 1, D: -1}, tx("unstake", 1, "50"), {Kind: "unstake", V: 4, D: 1, Amount: "50"}}
	sh.Blocks[4] = []c11Tx{tx("withdraw", 1, "801")}
	sh.Blocks[5] = []c11Tx{tx("withdraw", 1, "800"), tx("withdraw", 1, "1")}
	ps = append(ps, sh)
	// GUILTY verdicts on validators whose stake account backs two validators: first the candidate with
	// the smaller share (5000 of 3003000), then the genesis validator with the larger share; each
	// penalty is the configured percentage of the CONVICTED validator's own total
	sv := c11Plan{Name: "shared_stake_verdicts", Genesis: "default", Mat: 2, Blocks: c11Empty(14)}
	sv.Blocks[1] = []c11Tx{{Kind: "stake", V: 4, D: 2, Amount: "5000"}}
	sv.Blocks[3] = []c11Tx{{Kind: "allege", V: 0, Req: "sv1", Mal: 4}}
	sv.Blocks[4] = []c11Tx{{Kind: "vote", V: 0, Req: "sv1", Choice: 1}, {Kind: "vote", V: 1, Req: "sv1", Choice: 1}, {Kind: "vote", V: 3, Req: "sv1", Choice: 1}}
	sv.Blocks[6] = []c11Tx{{Kind: "allege", V: 0, Req: "sv2", Mal: 2}}
	sv.Blocks[7] = []c11Tx{{Kind: "vote", V: 0, Req: "sv2", Choice: 1}, {Kind: "vote", V: 1, Req: "sv2", Choice: 1}, {Kind: "vote", V: 3, Req: "sv2", Choice: 1}}
	ps = append(ps, sv)
	// configuration-update proposals about the staking options between stake and unstake; only a
	// finalised one changes the option in the store, and only that value enters a maturity height.
	// Default genesis (staking options outside the production range): every such proposal is refused.
	cp := c11Plan{Name: "cfg_proposals_refused", Genesis: "default", Mat: 2, Blocks: c11Empty(12)}
	cp.Blocks[1] = []c11Tx{tx("stake", 1, "700"), {Kind: "propcfg", Req: "a", Update: "stakingOptions.maturityTime:3", CheckOnly: true}, tx("unstake", 1, "100")}
	cp.Blocks[2] = []c11Tx{{Kind: "propcfg", Req: "b", Update: "stakingOptions.maturityTime:5"}, tx("unstake", 1, "200")}
	cp.Blocks[3] = []c11Tx{{Kind: "propcfg", Req: "c", Update: "stakingOptions.maturityTime:150000"}, tx("unstake", 2, "300"),
		{Kind: "propcfg", Req: "d", Update: "stakingOptions.minSelfDelegationAmount:600000"}, {Kind: "propcfg", Req: "e", Update: "stakingOptions.topValidatorCount:9"}, tx("unstake", 1, "50")}
	cp.Blocks[5] = []c11Tx{tx("withdraw", 1, "350"), tx("withdraw", 2, "300")}
	cp.Blocks[6] = []c11Tx{tx("withdraw", 2, "300")}
	ps = append(ps, cp)
	// production-range genesis (maturity 109200): out-of-range refused, in-range created but unfunded,
	// CheckTx only, funded but unvoted, and one funded + voted + finalised that really changes the option
	cf := c11Plan{Name: "cfg_proposals_prod", Genesis: "prodgov", Mat: 109200, Blocks: c11Empty(16)}
	cf.Blocks[1] = []c11Tx{tx("stake", 1, "700"), {Kind: "propcfg", Req: "a", Update: "stakingOptions.maturityTime:3"}, tx("unstake", 1, "100")}
	cf.Blocks[2] = []c11Tx{{Kind: "propcfg", Req: "b", Update: "stakingOptions.maturityTime:200000"}, tx("unstake", 1, "110"),
		{Kind: "propcfg", Req: "c", Update: "stakingOptions.maturityTime:300000", CheckOnly: true}, tx("unstake", 2, "120")}
	cf.Blocks[3] = []c11Tx{{Kind: "propcfg", Req: "d", Update: "stakingOptions.maturityTime:250000"}, {Kind: "propfund", Req: "d"}, tx("unstake", 1, "130"),
		{Kind: "propcfg", Req: "m", Update: "stakingOptions.minSelfDelegationAmount:600000"}, {Kind: "propcfg", Req: "t", Update: "stakingOptions.topValidatorCount:70"}}
	cf.Blocks[4] = []c11Tx{{Kind: "propcfg", Req: "f", Update: "stakingOptions.maturityTime:150000"}, tx("unstake", 3, "140")}
	cf.Blocks[5] = []c11Tx{{Kind: "propfund", Req: "f"}, tx("unstake", 1, "150")}
	cf.Blocks[6] = []c11Tx{{Kind: "propvote", Req: "f"}, tx("unstake", 1, "160")}
	cf.Blocks[8] = []c11Tx{tx("unstake", 1, "170")}
	cf.Blocks[10] = []c11Tx{tx("unstake", 1, "180"), tx("unstake", 2, "190"), tx("withdraw", 1, "1")}
	ps = append(ps, cf)
	// convicted, released after the release time, convicted AGAIN: after every verdict the delegator's
	// unstake / withdraw naming the validator are refused until a successful release
	ro := c11Plan{Name: "repeat_offender", Genesis: "default", Mat: 2, Blocks: c11Empty(16), JumpAt: []int{6}}
	ro.Blocks[1] = []c11Tx{tx("unstake", 2, "1000")}
	ro.Blocks[3] = []c11Tx{{Kind: "allege", V: 0, Req: "ro1", Mal: 2}}
	ro.Blocks[4] = []c11Tx{{Kind: "vote", V: 0, Req: "ro1", Choice: 1}, {Kind: "vote", V: 1, Req: "ro1", Choice: 1}, {Kind: "vote", V: 3, Req: "ro1", Choice: 1}}
	ro.Blocks[5] = []c11Tx{tx("unstake", 2, "10"), tx("withdraw", 2, "10"), {Kind: "release", V: 2}}
	ro.Blocks[6] = []c11Tx{{Kind: "release", V: 2}}
	ro.Blocks[7] = []c11Tx{tx("unstake", 2, "10"), tx("withdraw", 2, "10")}
	ro.Blocks[8] = []c11Tx{{Kind: "allege", V: 0, Req: "ro2", Mal: 2}}
	ro.Blocks[9] = []c11Tx{{Kind: "vote", V: 0, Req: "ro2", Choice: 1}, {Kind: "vote", V: 1, Req: "ro2", Choice: 1}, {Kind: "vote", V: 3, Req: "ro2", Choice: 1}}
	ro.Blocks[10] = []c11Tx{tx("unstake", 2, "10"), tx("withdraw", 2, "10")}
	ro.Blocks[12] = []c11Tx{tx("unstake", 2, "20"), tx("withdraw", 2, "20")}
	ps = append(ps, ro)
	// maturity option changed between unstake and maturity: the height fixed at unstake time counts
	mc := c11Plan{Name: "maturity_change", Genesis: "mature", Mat: 4, Blocks: c11Empty(14)}
	mc.Blocks[1] = []c11Tx{tx("unstake", 1, "1000")}
	mc.Blocks[2] = []c11Tx{{Kind: "setmaturity", NewMat: 1, D: -1}, tx("unstake", 1, "500")}
	mc.Blocks[3] = []c11Tx{tx("withdraw", 1, "500"), tx("withdraw", 1, "1")}
	mc.Blocks[4] = []c11Tx{tx("withdraw", 1, "500")}
	mc.Blocks[6] = []c11Tx{tx("withdraw", 1, "1000"), {Kind: "setmaturity", NewMat: 0, D: -1}, tx("unstake", 0, "5")}
	mc.Blocks[7] = []c11Tx{tx("withdraw", 0, "5")}
	ps = append(ps, mc)
	return ps
}

type c11Report struct {
	Files     []string       `json:"files"`
	Cases     int            `json:"cases"`
	Steps     int            `json:"steps"`
	Txs       int            `json:"txs"`
	KindHist  map[string]int `json:"kind_histogram"`
	OkHist    map[string]int `json:"outcome_histogram"`
	AmtHist   map[string]int `json:"amount_class_histogram"`
	Verdicts  int            `json:"verdicts"`
	Samples   []string       `json:"samples"`
	Crashed   []string       `json:"crashed_histories"`
	Restarts  int            `json:"restarts"`
	RestartsMid int          `json:"restarts_between_endblock_and_commit"`
	RestartsAfterVerdict int `json:"restarts_after_verdict_block"`
	SharedVerdicts int `json:"verdicts_on_shared_stake_account"`
	PropChecked int `json:"staking_option_proposals_checktx"`
	PropDelivered int `json:"staking_option_proposals_delivered"`
	PropCreated int `json:"staking_option_proposals_created"`
	PropRefused int `json:"staking_option_proposals_refused_at_checktx"`
	OptionChanges int `json:"persisted_maturity_option_changes"`
	Releases int `json:"successful_releases"`
	Names     []string       `json:"names"`
}

func c11AmtClass(a string) string {
	z, _ := new(big.Int).SetString(a, 10)
	p63 := new(big.Int).Lsh(big.NewInt(1), 63)
	switch {
	case z == nil:
		return "none"
	case z.Sign() < 0:
		return "negative"
	case z.Sign() == 0:
		return "zero"
	case z.Cmp(p63) >= 0:
		return ">=2^63"
	case z.Cmp(big.NewInt(100000)) >= 0:
		return "near-balance-or-total"
	}
	return "small"
}

func c11Main(args []string) int {
	fs := flag.NewFlagSet("c11", flag.ExitOnError)
	seed := fs.Int64("seed", 1, "seed")
	n := fs.Int("n", 10, "random histories")
	outDir := fs.String("out", ".", "output directory")
	only := fs.String("only", "", "run only the plan with this name (scripted name or rand<i>)")
	perFile := fs.Int("perfile", 4, "cases per Coq file")
	child := fs.String("child", "", "internal: run the selected plan in this process and write its record to this file")
	planFile := fs.String("plan", "", "run only the plan stored in this JSON file (replay)")
	fs.Parse(args)
	plans := c11Scripts()
	for i := 0; i < *n; i++ {
		plans = append(plans, c11RandomPlan(rand.New(rand.NewSource(*seed*1000003+int64(i))), i))
	}
	if *planFile != "" {
		bz, err := ioutil.ReadFile(*planFile)
		must(err)
		p := c11Plan{}
		must(json.Unmarshal(bz, &p))
		plans = []c11Plan{p}
	}
	if *only != "" {
		sel := []c11Plan{}
		for _, p := range plans {
			if p.Name == *only {
				sel = append(sel, p)
			}
		}
		plans = sel
	}
	if *child != "" {
		c := c11Run(plans[0])
		cj, _ := json.Marshal(c)
		must(ioutil.WriteFile(*child, cj, 0644))
		return 0
	}
	rep := c11Report{KindHist: map[string]int{}, OkHist: map[string]int{}, AmtHist: map[string]int{}}
	// every history runs in its own process: some inputs make the application call logger.Fatal
	// (= os.Exit), e.g. a negative validator power reaching the fee distribution in EndBlock
	results := make([]*c11CaseRec, len(plans))
	sem := make(chan bool, 12)
	var wg sync.WaitGroup
	for i := range plans {
		wg.Add(1)
		go func(i int) {
			defer wg.Done()
			sem <- true
			defer func() { <-sem }()
			cf := filepath.Join(*outDir, fmt.Sprintf("c11_child_%d.json", i))
			cargs := []string{"c11", "-seed", fmt.Sprint(*seed), "-n", fmt.Sprint(*n), "-only", plans[i].Name, "-child", cf, "-out", *outDir}
			if *planFile != "" {
				cargs = []string{"c11", "-plan", *planFile, "-child", cf, "-out", *outDir}
			}
			cmd := exec.Command(os.Args[0], cargs...)
			if err := cmd.Run(); err != nil {
				return
			}
			bz, err := ioutil.ReadFile(cf)
			if err != nil {
				return
			}
			c := &c11CaseRec{}
			if json.Unmarshal(bz, c) == nil {
				results[i] = c
			}
			os.Remove(cf)
		}(i)
	}
	wg.Wait()
	cases := []c11CaseRec{}
	for i, p := range plans {
		if results[i] == nil {
			rep.Crashed = append(rep.Crashed, p.Name)
			continue
		}
		c := *results[i]
		cases = append(cases, c)
		rep.Restarts += c.Restarts
		rep.RestartsMid += c.RestartsMid
		rep.RestartsAfterVerdict += c.RestartsAfterVerdict
		rep.SharedVerdicts += c.SharedVerdicts
		rep.PropChecked += c.PropChecked
		rep.PropDelivered += c.PropDelivered
		rep.PropCreated += c.PropCreated
		rep.PropRefused += c.PropRefused
		rep.OptionChanges += c.OptionChanges
		rep.Releases += c.Releases
		for _, blk := range p.Blocks {
			for _, t := range blk {
				if t.Kind == "stake" || t.Kind == "unstake" || t.Kind == "withdraw" {
					rep.AmtHist[t.Kind+":"+c11AmtClass(t.Amount)]++
				}
			}
		}
		for _, s := range c.Steps {
			rep.Steps++
			rep.KindHist[s.Kind]++
			if s.Kind == "stake" || s.Kind == "unstake" || s.Kind == "withdraw" {
				rep.Txs++
				rep.OkHist[s.Kind+":"+map[bool]string{true: "ok", false: "fail"}[s.OK]]++
				if len(rep.Samples) < 12 {
					rep.Samples = append(rep.Samples, p.Name+": "+s.Desc)
				}
			}
			if s.Kind == "end" && strings.Contains(s.Desc, "verdicts=1") {
				rep.Verdicts++
			}
		}
	}
	rep.Cases = len(cases)
	for _, c := range cases {
		rep.Names = append(rep.Names, c.Plan.Name)
	}
	for f := 0; f*(*perFile) < len(cases); f++ {
		var b strings.Builder
		b.WriteString("From stdpp Require Import gmap list.\nRequire Import ZArith.\nFrom OL Require Import theories.Stake theories.StakeCheck.\nOpen Scope Z_scope.\n")
		b.WriteString("Definition cases : list (list (op * expect)) := [\n")
		lo, hi := f*(*perFile), (f+1)*(*perFile)
		if hi > len(cases) {
			hi = len(cases)
		}
		for ci := lo; ci < hi; ci++ {
			if ci > lo {
				b.WriteString(";\n")
			}
			b.WriteString(" [")
			for si, s := range cases[ci].Steps {
				if si > 0 {
					b.WriteString(";\n  ")
				}
				b.WriteString(s.Coq)
			}
			b.WriteString("]")
		}
		fmt.Fprintf(&b, "].\nDefinition RES := Eval vm_compute in run_cases %d cases.\n", lo)
		b.WriteString("Definition MM := fst (fst RES).\nDefinition MON := snd (fst RES).\nDefinition TRG := snd RES.\n")
		b.WriteString("Definition MMv := Eval vm_compute in MM. Definition MONv := Eval vm_compute in MON. Definition TRGv := Eval vm_compute in TRG.\n")
		b.WriteString("Print MMv.\nPrint MONv.\nPrint TRGv.\n")
		fn := filepath.Join(*outDir, fmt.Sprintf("c11_cases_%d.v", f))
		must(ioutil.WriteFile(fn, []byte(b.String()), 0644))
		rep.Files = append(rep.Files, fn)
	}
	cj, _ := json.MarshalIndent(cases, "", " ")
	must(ioutil.WriteFile(filepath.Join(*outDir, "c11_cases.json"), cj, 0644))
	rj, _ := json.MarshalIndent(rep, "", " ")
	must(ioutil.WriteFile(filepath.Join(*outDir, "c11_report.json"), rj, 0644))
	say("c11: %d cases, %d steps, %d staking txs, %d verdicts\n", rep.Cases, rep.Steps, rep.Txs, rep.Verdicts)
	_ = os.Stdout
	_ = delegation.Options{}
	return 0
}
