// Command vh is the verification harness: it drives the real Oneledger/protocol code
// (built from /repo's working tree with -tags verif) and writes traces for the Coq models.
package main

import (
	"fmt"
	"os"
	"syscall"
)

// out is the harness's own output channel: file descriptor 1 is pointed at /dev/null for the
// life of the process, because the application's package-level loggers write to it.
var out *os.File

func say(format string, a ...interface{}) { fmt.Fprintf(out, format, a...) }

type subcmd func(args []string) int

var subcmds = map[string]subcmd{}

func main() {
	saved, err := syscall.Dup(1)
	if err != nil {
		panic(err)
	}
	out = os.NewFile(uintptr(saved), "harness-out")
	dn, _ := os.OpenFile(os.DevNull, os.O_WRONLY, 0)
	syscall.Dup2(int(dn.Fd()), 1)
	if os.Getenv("VH_DEBUG") == "" {
		syscall.Dup2(int(dn.Fd()), 2)
	}
	if len(os.Args) < 2 {
		fmt.Fprintln(os.Stderr, "usage: vh <subcommand> [flags]")
		os.Exit(2)
	}
	f, ok := subcmds[os.Args[1]]
	if !ok {
		fmt.Fprintln(os.Stderr, "unknown subcommand", os.Args[1])
		os.Exit(2)
	}
	os.Exit(f(os.Args[2:]))
}
