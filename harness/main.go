// Command vh is the verification harness: it drives the real Oneledger/protocol code
// (built from /repo's working tree with -tags verif) and writes traces for the Coq models.
package main

import (
	"fmt"
	"os"
)

type subcmd func(args []string) int

var subcmds = map[string]subcmd{}

func main() {
	if len(os.Args) < 2 {
		fmt.Fprintln(os.Stderr, "usage: vh <subcommand> [flags]")
		os.Exit(2)
	}
	f, ok := subcmds[os.Args[1]]
	if !ok {
		fmt.Fprintln(os.Stderr, "unknown subcommand", os.Args[1])
		os.Exit(2)
	}
	os.Exit(f(os.Args[2:]))
}
