package main

// C02 / C03: inputs of the per-kind effect functions of coq/theories/LedgerTx.v, filled from the
// observed state before the step and from the transaction.

import (
	"encoding/json"
	"fmt"
	"math/big"
	"sort"
	"strconv"
	"strings"

	"github.com/Oneledger/protocol/action"
	"github.com/Oneledger/protocol/action/olvm"
	acteth "github.com/Oneledger/protocol/action/eth"
	ethchain "github.com/Oneledger/protocol/chains/ethereum"
	govact "github.com/Oneledger/protocol/action/governance"
	netdel "github.com/Oneledger/protocol/action/network_delegation"
	onsact "github.com/Oneledger/protocol/action/ons"
	rewact "github.com/Oneledger/protocol/action/rewards"
	"github.com/Oneledger/protocol/action/staking"
	"github.com/Oneledger/protocol/action/transfer"
	"github.com/Oneledger/protocol/data/governance"
	"github.com/Oneledger/protocol/data/keys"
	"github.com/Oneledger/protocol/data/ons"
	"github.com/Oneledger/protocol/external_apps/bid/bid_action"
	"github.com/Oneledger/protocol/external_apps/bid/bid_data"
	ethcommon "github.com/ethereum/go-ethereum/common"
	ethcrypto "github.com/ethereum/go-ethereum/crypto"
)

// kind codes K_* of coq/theories/LedgerTx.v
const (
	c02KSend = 1 + iota
	c02KSendPool
	c02KStake
	c02KUnstake
	c02KWithdraw
	c02KDelegate
	c02KUndelegate
	c02KRewardsWithdraw
	c02KRewardsReinvest
	c02KWithdrawReward
	c02KProposalCreate
	c02KProposalFund
	c02KProposalWithdrawFunds
	c02KDomainCreate
	c02KDomainRenew
	c02KDomainPurchase
	c02KDomainSend
	c02KDomainSell
	c02KBidCreate
	c02KBidCounter
)

// c02Msg decodes the payload of the kinds that carry an amount
func c02Msg(tx *action.SignedTx) (kind int, msg interface{}, amount *action.Amount) {
	un := func(v interface{}) bool { return json.Unmarshal(tx.Data, v) == nil }
	switch tx.Type {
	case action.SEND:
		m := &transfer.Send{}
		if un(m) {
			return c02KSend, m, &m.Amount
		}
	case action.SENDPOOL:
		m := &transfer.SendPool{}
		if un(m) {
			return c02KSendPool, m, &m.Amount
		}
	case action.STAKE:
		m := &staking.Stake{}
		if un(m) {
			return c02KStake, m, &m.Stake
		}
	case action.UNSTAKE:
		m := &staking.Unstake{}
		if un(m) {
			return c02KUnstake, m, &m.Stake
		}
	case action.WITHDRAW:
		m := &staking.Withdraw{}
		if un(m) {
			return c02KWithdraw, m, &m.Stake
		}
	case action.ADD_NETWORK_DELEGATE:
		m := &netdel.AddNetworkDelegation{}
		if un(m) {
			return c02KDelegate, m, &m.Amount
		}
	case action.NETWORK_UNDELEGATE:
		m := &netdel.Undelegate{}
		if un(m) {
			return c02KUndelegate, m, &m.Amount
		}
	case action.REWARDS_WITHDRAW_NETWORK_DELEGATE:
		m := &netdel.Withdraw{}
		if un(m) {
			return c02KRewardsWithdraw, m, &m.Amount
		}
	case action.REWARDS_REINVEST_NETWORK_DELEGATE:
		m := &netdel.Reinvest{}
		if un(m) {
			return c02KRewardsReinvest, m, &m.Amount
		}
	case action.WITHDRAW_REWARD:
		m := &rewact.Withdraw{}
		if un(m) {
			return c02KWithdrawReward, m, &m.WithdrawAmount
		}
	case action.PROPOSAL_CREATE:
		m := &govact.CreateProposal{}
		if un(m) {
			return c02KProposalCreate, m, &m.InitialFunding
		}
	case action.PROPOSAL_FUND:
		m := &govact.FundProposal{}
		if un(m) {
			return c02KProposalFund, m, &m.FundValue
		}
	case action.PROPOSAL_WITHDRAW_FUNDS:
		m := &govact.WithdrawFunds{}
		if un(m) {
			return c02KProposalWithdrawFunds, m, &m.WithdrawValue
		}
	case action.DOMAIN_CREATE:
		m := &onsact.DomainCreate{}
		if un(m) {
			return c02KDomainCreate, m, &m.BuyingPrice
		}
	case action.DOMAIN_RENEW:
		m := &onsact.RenewDomain{}
		if un(m) {
			return c02KDomainRenew, m, &m.BuyingPrice
		}
	case action.DOMAIN_PURCHASE:
		m := &onsact.DomainPurchase{}
		if un(m) {
			return c02KDomainPurchase, m, &m.Offering
		}
	case action.DOMAIN_SEND:
		m := &onsact.DomainSend{}
		if un(m) {
			return c02KDomainSend, m, &m.Amount
		}
	case bid_action.BID_CREATE:
		m := &bid_action.CreateBid{}
		if un(m) {
			return c02KBidCreate, m, &m.Amount
		}
	case bid_action.BID_CONTER_OFFER:
		m := &bid_action.CounterOffer{}
		if un(m) {
			return c02KBidCounter, m, &m.Amount
		}
	case action.DOMAIN_SELL:
		m := &onsact.DomainSale{}
		if un(m) {
			return c02KDomainSell, m, &m.Price
		}
	}
	return 0, nil, nil
}

func c02KindAmount(tx *action.SignedTx) (int, string) {
	k, _, a := c02Msg(tx)
	if a == nil {
		return k, "0"
	}
	return k, a.Value.BigInt().String()
}


type c02Pre func(gasUsed int64, ok bool) string

func c02B(b bool) string {
	if b {
		return "true"
	}
	return "false"
}

var c02Pool1 = keys.Address("00000000000000000001").String()

// c02PreTx reads, BEFORE the transaction runs, every non-ledger fact its effect function needs (options, domain
// record, pool addresses, heights) from the live deliver state, and returns the constructor of the model term
func c02PreTx(r *c02Runner, before *c02View, tx *action.SignedTx) c02Pre {
	kind, msg, amt := c02Msg(tx)
	if len(tx.Signatures) == 0 {
		return nil
	}
	if tx.Type == action.OLVM {
		return c02PreOLVM(r, before, tx)
	}
	if kind == 0 {
		return c02PreBid(r, before, tx)
	}
	if amt == nil {
		return nil
	}
	h0, err := tx.Signatures[0].Signer.GetHandler()
	if err != nil {
		return nil
	}
	state := r.rep.A.VerifDeliver()
	gov := governance.NewStore("g", state)
	curs, err := gov.GetCurrencies()
	if err != nil {
		return nil
	}
	known := false
	for _, c := range curs {
		if c.Name == amt.Currency {
			known = true
		}
	}
	o := func(a keys.Address) int { return r.in.owner(a.String()) }
	cur := r.in.cur(amt.Currency)
	v := c02Z(amt.Value.BigInt().String())
	payer := o(h0.Address())
	fp := r.in.owner(c02FeePoolOwner)
	height := r.rep.H
	price := new(big.Int).Set(tx.Fee.Price.Value.BigInt())
	var eff string
	switch m := msg.(type) {
	case *transfer.Send:
		eff = fmt.Sprintf("effect_send %s %d %d %d %s", c02B(known), cur, o(m.From), o(m.To), v)
	case *transfer.SendPool:
		pl, err := gov.GetPoolList()
		if err != nil {
			return nil
		}
		pa, ok := pl[m.PoolName]
		if !ok {
			return func(int64, bool) string { return "fun _ => None" }
		}
		eff = fmt.Sprintf("effect_sendpool %s %d %d %d %s", c02B(known), cur, o(m.From), o(pa), v)
	case *staking.Stake:
		eff = fmt.Sprintf("effect_stake %s %d %d %d %s", c02B(known), cur, o(m.StakeAddress), o(m.ValidatorAddress), v)
	case *staking.Unstake:
		so, err := gov.GetStakingOptions()
		if err != nil {
			return nil
		}
		eff = fmt.Sprintf("effect_unstake %s %d %d %d %s %d", c02B(known), cur, o(m.StakeAddress), o(m.ValidatorAddress), v, height+so.MaturityTime)
	case *staking.Withdraw:
		eff = fmt.Sprintf("effect_withdraw %s %d %d %s", c02B(known), cur, o(m.StakeAddress), v)
	case *netdel.AddNetworkDelegation:
		eff = fmt.Sprintf("effect_delegate %s %d %d %d %s", c02B(known), cur, o(m.DelegationAddress), r.in.owner(c02Pool1), v)
	case *netdel.Undelegate:
		do, err := gov.GetNetworkDelegOptions()
		if err != nil {
			return nil
		}
		eff = fmt.Sprintf("effect_undelegate %s %d %d %d %s %d", c02B(known), cur, o(m.Delegator), r.in.owner(c02Pool1), v, height+do.RewardsMaturityTime)
	case *netdel.Withdraw:
		do, err := gov.GetNetworkDelegOptions()
		if err != nil {
			return nil
		}
		eff = fmt.Sprintf("effect_rewards_withdraw %s %d %d %s %d", c02B(known), cur, o(m.Delegator), v, height+do.RewardsMaturityTime)
	case *netdel.Reinvest:
		eff = fmt.Sprintf("effect_reinvest %s %d %d %d %s", c02B(known), cur, o(m.Delegator), r.in.owner(c02Pool1), v)
	case *rewact.Withdraw:
		ro, err := gov.GetRewardOptions()
		if err != nil {
			return nil
		}
		eff = fmt.Sprintf("effect_withdraw_reward %s %d %d %d %s", c02B(known), cur, o(m.SignerAddress), o(keys.Address(ro.RewardPoolAddress)), v)
	case *govact.CreateProposal:
		po, err := gov.GetProposalOptionsByType(m.ProposalType)
		if err != nil || po == nil || po.InitialFunding == nil || po.FundingGoal == nil {
			return nil
		}
		eff = fmt.Sprintf("effect_proposal_create %s %d %d %d %s %s %s", c02B(known), cur, o(m.Proposer), r.in.prop(string(m.ProposalID)), v,
			c02Z(po.InitialFunding.BigInt().String()), c02Z(po.FundingGoal.BigInt().String()))
	case *govact.FundProposal:
		eff = fmt.Sprintf("effect_proposal_fund %s %d %d %d %s", c02B(known), cur, o(m.FunderAddress), r.in.prop(string(m.ProposalId)), v)
	case *govact.WithdrawFunds:
		eff = fmt.Sprintf("effect_proposal_withdraw %s %d %d %d %d %s", c02B(known), cur, o(m.Funder), o(m.Beneficiary), r.in.prop(string(m.ProposalID)), v)
	case *onsact.DomainCreate:
		oo, err := gov.GetONSOptions()
		if err != nil {
			return nil
		}
		eff = fmt.Sprintf("effect_domain_create %s %d %d %d %s %s", c02B(known), cur, o(m.Owner), fp, v, c02Z(oo.BaseDomainPrice.BigInt().String()))
	case *onsact.RenewDomain:
		oo, err := gov.GetONSOptions()
		if err != nil {
			return nil
		}
		eff = fmt.Sprintf("effect_domain_renew %s %d %d %d %s %s", c02B(known), cur, o(m.Owner), fp, v, c02Z(oo.PerBlockFees.BigInt().String()))
	case *onsact.DomainPurchase:
		oo, err := gov.GetONSOptions()
		if err != nil {
			return nil
		}
		d, err := ons.NewDomainStore("d", state).Get(m.Name)
		if err != nil || d == nil {
			return func(int64, bool) string { return "fun _ => None" }
		}
		onSale := state.Version() <= d.ExpireHeight && d.OnSaleFlag
		sale := "0"
		if d.SalePrice != nil {
			sale = c02Z(d.SalePrice.BigInt().String())
		}
		eff = fmt.Sprintf("effect_domain_purchase %s %d %d %d %s %s %s %d %s", c02B(known), cur, o(m.Buyer), fp, v, c02B(onSale), sale, o(d.Owner), c02Z(oo.BaseDomainPrice.BigInt().String()))
	case *bid_action.CreateBid:
		id := string(m.BidConvId)
		if id == "" {
			id = string(bid_data.NewBidConv(m.AssetOwner, m.AssetName, m.AssetType, m.Bidder, m.Deadline, height).BidConvId)
		}
		hc, c := "false", "0"
		if ca, ok := before.BidCounter[id]; ok {
			hc, c = "true", c02Z(ca.String())
		}
		eff = fmt.Sprintf("effect_bid_create %s %d %d %d %s %s %s", c02B(known), cur, o(m.Bidder), r.in.prop("bid:"+id), v, hc, c)
	case *bid_action.CounterOffer:
		cv, ok := before.Convs[string(m.BidConvId)]
		if !ok {
			return func(int64, bool) string { return "fun _ => None" }
		}
		price0 := new(big.Int).Set(tx.Fee.Price.Value.BigInt())
		bidder, conv := r.in.owner(cv[0]), r.in.prop("bid:"+string(m.BidConvId))
		return func(gasUsed int64, ok bool) string {
			fee := new(big.Int).Mul(big.NewInt(gasUsed), price0)
			return fmt.Sprintf("fun l => tx_ops (effect_bid_counter l %s %d %d %d %s) %d %d %s", c02B(known), cur, bidder, conv, v, payer, fp, c02Z(fee.String()))
		}
	case *onsact.DomainSend:
		d, err := ons.NewDomainStore("d", state).Get(m.Name)
		if err != nil || d == nil {
			return func(int64, bool) string { return "fun _ => None" }
		}
		eff = fmt.Sprintf("effect_domain_send %s %d %d %d %s", c02B(known), cur, o(m.From), o(d.Beneficiary), v)
	default:
		return nil
	}
	return func(gasUsed int64, ok bool) string {
		fee := new(big.Int).Mul(big.NewInt(gasUsed), price)
		return fmt.Sprintf("fun _ => tx_ops (%s) %d %d %s", eff, payer, fp, c02Z(fee.String()))
	}
}

// c02EthStep: wrapped-currency bookkeeping per tracker (tracker name = hash of the embedded transaction bytes):
//   ETH_LOCK accepted      -> the lock's value (decoded by go-ethereum from the embedded transaction) may be minted once;
//   ETH_REDEEM accepted    -> what the step burnt (observed decrease of the owner's ETH balance) may be refunded once;
//   ETH_REPORT_FINALITY    -> if the wrapped total rises in this step, the allowance is the pending amount of THAT tracker
//                             ("refund of tracker T = amount burnt at T's creation", "mint of T = value locked by T").
// Also sets the model of the step (LedgerTx.effect_eth_*).
func c02EthStep(r *c02Runner, before, after *c02View, tx *action.SignedTx, s *c02Step) {
	if r.ethLock == nil {
		r.ethLock, r.ethBurnt = map[string]*big.Int{}, map[string]*big.Int{}
	}
	ethCur := r.in.cur("ETH")
	bal := func(v *c02View, a keys.Address) *big.Int {
		if x := v.Led[c02Key{a.String(), c02BBal, "ETH", ""}]; x != nil {
			return x
		}
		return new(big.Int)
	}
	feeTerm := func() string {
		h0, err := tx.Signatures[0].Signer.GetHandler()
		if err != nil {
			return ""
		}
		// the fee is what the payer's OLT balance lost in this step (gas x price; the ETH kinds charge an upfront gas amount)
		k := c02Key{h0.Address().String(), c02BBal, "OLT", ""}
		d := new(big.Int)
		if b0 := before.Led[k]; b0 != nil {
			d.Set(b0)
		}
		if b1 := after.Led[k]; b1 != nil {
			d.Sub(d, b1)
		}
		return fmt.Sprintf("fee_ops %d %d %s", r.in.owner(h0.Address().String()), r.in.owner(c02FeePoolOwner), c02Z(d.String()))
	}
	switch tx.Type {
	case action.ETH_LOCK:
		m := &acteth.Lock{}
		if json.Unmarshal(tx.Data, m) != nil || !s.OK {
			return
		}
		if etx, err := ethchain.DecodeTransaction(m.ETHTxn); err == nil {
			r.ethLock[ethcommon.BytesToHash(m.ETHTxn).Hex()] = new(big.Int).Set(etx.Value())
		}
		s.Model = fmt.Sprintf("fun _ => Some (%s)", feeTerm())
	case action.ETH_REDEEM:
		m := &acteth.Redeem{}
		if json.Unmarshal(tx.Data, m) != nil || !s.OK {
			return
		}
		burnt := new(big.Int).Sub(bal(before, m.Owner), bal(after, m.Owner))
		r.ethBurnt[ethcommon.BytesToHash(m.ETHTxn).Hex()] = burnt
		// the model burns the amount of the redeem(uint256) call of the embedded transaction, as the refund will read it
		amt := "(-1)"
		if o, err := governance.NewStore("g", r.rep.A.VerifDeliver()).GetETHChainDriverOption(); err == nil {
			if req, err := ethchain.ParseRedeem(m.ETHTxn, o.ContractABI); err == nil {
				amt = c02Z(req.Amount.String())
			}
		}
		s.Model = fmt.Sprintf("fun _ => match effect_eth_redeem_burn %d %d %s with Some ops => Some (ops ++ %s) | None => None end", r.in.owner(m.Owner.String()), ethCur, amt, feeTerm())
	case action.ETH_REPORT_FINALITY_MINT:
		m := &acteth.ReportFinality{}
		if json.Unmarshal(tx.Data, m) != nil || !s.OK {
			return
		}
		name := ethcommon.BytesToHash(m.TrackerName.Bytes()).Hex()
		rose := false
		var who string
		for k, a := range after.Led {
			if k.Bucket == c02BBal && k.Cur == "ETH" {
				if old := before.Led[k]; old == nil || old.Cmp(a) < 0 {
					rose, who = true, k.Owner
				}
			}
		}
		if !rose {
			s.Model = "fun _ => Some []"
			return
		}
		if a, ok := r.ethLock[name]; ok {
			delete(r.ethLock, name)
			s.AllowC = append(s.AllowC, c02Rec{C: ethCur, Amt: a.String()})
			s.Model = fmt.Sprintf("fun _ => Some (effect_eth_lock_mint %d %d %s)", r.in.owner(who), ethCur, c02Z(a.String()))
		} else if a, ok := r.ethBurnt[name]; ok {
			delete(r.ethBurnt, name)
			s.AllowC = append(s.AllowC, c02Rec{C: ethCur, Amt: a.String()})
			s.Model = fmt.Sprintf("fun _ => Some (effect_eth_redeem_refund %d %d %s)", r.in.owner(who), ethCur, c02Z(a.String()))
		}
	}
}

// OLVM at the transaction level: contract creations and value transfers to addresses without code (calls of contracts are C17's):
// value sender -> target unless the execution reverted (observed: whether the target received it), gas fee sender -> fee pool
func c02PreOLVM(r *c02Runner, before *c02View, tx *action.SignedTx) c02Pre {
	m := &olvm.Transaction{}
	if m.Unmarshal(tx.Data) != nil || m.Amount.Currency != "OLT" {
		return nil
	}
	var target keys.Address
	if m.To == nil {
		target = keys.Address(ethcrypto.CreateAddress(ethcommon.BytesToAddress(m.From.Bytes()), m.Nonce).Bytes())
	} else {
		target = *m.To
		if before.Protocol[target.String()] {
			return nil // a call of a contract: what its code does with the balances is C17's
		}
	}
	if target.Equal(m.From) {
		return nil
	}
	price := new(big.Int).Set(tx.Fee.Price.Value.BigInt())
	value := new(big.Int).Set(m.Amount.Value.BigInt())
	sender, tgt, fp := r.in.owner(m.From.String()), r.in.owner(target.String()), r.in.owner(c02FeePoolOwner)
	tk := c02Key{target.String(), c02BBal, "OLT", ""}
	old := new(big.Int)
	if b := before.Led[tk]; b != nil {
		old.Set(b)
	}
	creation := m.To == nil
	return func(gasUsed int64, ok bool) string {
		fee := new(big.Int).Mul(big.NewInt(gasUsed), price)
		reverted := "false"
		if creation && value.Sign() > 0 {
			// the endowment of a creation whose init code reverts stays with the sender
			if now := r.cur; now != nil {
				nb := new(big.Int)
				if b := c02Decode(r.rep.View()).Led[tk]; b != nil {
					nb.Set(b)
				}
				if nb.Cmp(old) == 0 {
					reverted = "true"
				}
			}
		}
		return fmt.Sprintf("fun _ => effect_olvm %d %d %d %s %s %s", sender, tgt, fp, c02Z(value.String()), reverted, c02Z(fee.String()))
	}
}

// the bid kinds without an amount: cancel, expire, the two decisions
func c02PreBid(r *c02Runner, before *c02View, tx *action.SignedTx) c02Pre {
	h0, err := tx.Signatures[0].Signer.GetHandler()
	if err != nil {
		return nil
	}
	payer, fp := r.in.owner(h0.Address().String()), r.in.owner(c02FeePoolOwner)
	price := new(big.Int).Set(tx.Fee.Price.Value.BigInt())
	var id string
	var build func(bidder, owner, conv int) string
	switch tx.Type {
	case bid_action.BID_CANCEL:
		m := &bid_action.CancelBid{}
		if json.Unmarshal(tx.Data, m) != nil {
			return nil
		}
		id = string(m.BidConvId)
		build = func(b, o, c int) string { return fmt.Sprintf("effect_bid_unlock l %d %d", b, c) }
	case bid_action.BID_EXPIRE:
		m := &bid_action.ExpireBid{}
		if json.Unmarshal(tx.Data, m) != nil {
			return nil
		}
		id = string(m.BidConvId)
		build = func(b, o, c int) string { return fmt.Sprintf("effect_bid_unlock l %d %d", b, c) }
	case bid_action.BID_OWNER_DECISION:
		m := &bid_action.OwnerDecision{}
		if json.Unmarshal(tx.Data, m) != nil {
			return nil
		}
		id = string(m.BidConvId)
		accept := m.Decision == bid_data.AcceptBid
		build = func(b, o, c int) string {
			if accept {
				return fmt.Sprintf("effect_bid_owner_accept l %d %d %d", b, o, c)
			}
			return fmt.Sprintf("effect_bid_unlock l %d %d", b, c)
		}
	case bid_action.BID_BIDDER_DECISION:
		m := &bid_action.BidderDecision{}
		if json.Unmarshal(tx.Data, m) != nil {
			return nil
		}
		id = string(m.BidConvId)
		accept := m.Decision == bid_data.AcceptBid
		ca := before.BidCounter[id]
		build = func(b, o, c int) string {
			if accept && ca != nil {
				return fmt.Sprintf("effect_bid_bidder_accept %d %d %s", b, o, c02Z(ca.String()))
			}
			return "Some []"
		}
	default:
		return nil
	}
	cv, ok := before.Convs[id]
	if !ok {
		return func(int64, bool) string { return "fun _ => None" }
	}
	eff := build(r.in.owner(cv[0]), r.in.owner(cv[1]), r.in.prop("bid:"+id))
	return func(gasUsed int64, ok bool) string {
		fee := new(big.Int).Mul(big.NewInt(gasUsed), price)
		return fmt.Sprintf("fun l => tx_ops (%s) %d %d %s", eff, payer, fp, c02Z(fee.String()))
	}
}

// BeginBlock: the accrual per delegator is an input (observed increase of the reward claims; its size is C13's)
func c02ModelBegin(r *c02Runner, before, after *c02View) string {
	accr := []string{}
	ks := []c02Key{}
	for k := range after.Led {
		if k.Bucket == c02BRewBal {
			ks = append(ks, k)
		}
	}
	sort.Slice(ks, func(i, j int) bool { return ks[i].Owner < ks[j].Owner })
	for _, k := range ks {
		old := before.Led[k]
		if old == nil {
			old = new(big.Int)
		}
		if d := new(big.Int).Sub(after.Led[k], old); d.Sign() != 0 {
			accr = append(accr, fmt.Sprintf("(%d%%N,%s)", r.in.owner(k.Owner), c02Z(d.String())))
		}
	}
	return fmt.Sprintf("fun l => Some (begin_ops l %d [%s])", r.rep.H, strings.Join(accr, ";"))
}

// EndBlock(h), h > 1: fee distribution + stake maturity, when no other hook touched the ledger in this step
// (allegation verdicts, proposal finalisation / expiry are monitored, not modelled)
func c02ModelEnd(r *c02Runner, before, after *c02View) string {
	if r.rep.H <= 1 || r.blockVals == nil {
		return ""
	}
	// guilty verdicts of this step (new BYZANTINE_FAULT freeze records), in the order the requests are decided;
	// the penalty amount depends on the order only when one validator is convicted twice: not modelled then
	verdictVals := []string{}
	for k := range after.Byz {
		if !before.Byz[k] {
			verdictVals = append(verdictVals, k[:strings.Index(k, "@")])
		}
	}
	sort.Strings(verdictVals)
	for i := 1; i < len(verdictVals); i++ {
		if verdictVals[i] == verdictVals[i-1] {
			return ""
		}
	}
	for _, u := range r.in.diff(before.Led, after.Led) {
		switch u.B {
		case c02BFee, c02BUnstake, c02BWithdraw:
		case c02BStake, c02BBal:
			if len(verdictVals) == 0 {
				return ""
			}
		default:
			return ""
		}
	}
	if len(after.Fin) != len(before.Fin) {
		return "" // proposal finalisation / distribution: monitored, not modelled (C14)
	}
	gov := governance.NewStore("g", r.rep.A.VerifDeliver())
	fo, err := gov.GetFeeOption()
	if err != nil {
		return ""
	}
	vals := []string{}
	tp := int64(0)
	stakeOf := map[string]string{}
	for _, v := range r.blockVals {
		vals = append(vals, fmt.Sprintf("(%d%%N,%s)", r.in.owner(v.StakeAddress.String()), c02Z(strconv.FormatInt(v.Power, 10))))
		tp += v.Power
		stakeOf[v.Address.String()] = v.StakeAddress.String()
	}
	base := fmt.Sprintf("%d %d %s %s [%s]", r.rep.H, r.in.owner(c02FeePoolOwner), c02Z(fo.MinFee().Amount.BigInt().String()), c02Z(strconv.FormatInt(tp, 10)), strings.Join(vals, ";"))
	if len(verdictVals) == 0 {
		return fmt.Sprintf("fun l => Some (end_ops l %s)", base)
	}
	eo, err := gov.GetEvidenceOptions()
	if err != nil {
		return ""
	}
	po, err := gov.GetProposalOptions()
	if err != nil {
		return ""
	}
	vd := []string{}
	for _, val := range verdictVals {
		st, ok := stakeOf[val]
		if !ok {
			continue // no record at the previous version: the code skips the penalty
		}
		vd = append(vd, fmt.Sprintf("(%d%%N,%d%%N)", r.in.owner(st), r.in.owner(val)))
	}
	return fmt.Sprintf("fun l => Some (end_ops_verdicts l %s %d %d %d %d %d [%s])", base, r.in.owner(keys.Address(po.BountyProgramAddr).String()),
		eo.PenaltyBasePercentage, eo.PenaltyBaseDecimals, eo.PenaltyBountyPercentage, eo.PenaltyBountyDecimals, strings.Join(vd, ";"))
}
