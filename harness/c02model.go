package main

// C02 / C03: inputs of the per-kind effect functions of coq/theories/LedgerTx.v, filled from the
// observed state before the step and from the transaction.

import (
	"encoding/json"

	"github.com/Oneledger/protocol/action"
	govact "github.com/Oneledger/protocol/action/governance"
	netdel "github.com/Oneledger/protocol/action/network_delegation"
	onsact "github.com/Oneledger/protocol/action/ons"
	rewact "github.com/Oneledger/protocol/action/rewards"
	"github.com/Oneledger/protocol/action/staking"
	"github.com/Oneledger/protocol/action/transfer"
)

// kind codes K_* of coq/theories/LedgerTx.v
const (
	c02KSend = 1 + iota
	c02KSendPool
	c02KStake
	c02KUnstake
	c02KWithdraw
	c02KDelegate
	c02KUndelegate
	c02KRewardsWithdraw
	c02KRewardsReinvest
	c02KWithdrawReward
	c02KProposalCreate
	c02KProposalFund
	c02KProposalWithdrawFunds
	c02KDomainCreate
	c02KDomainRenew
	c02KDomainPurchase
	c02KDomainSend
	c02KDomainSell
)

// c02Msg decodes the payload of the kinds that carry an amount
func c02Msg(tx *action.SignedTx) (kind int, msg interface{}, amount *action.Amount) {
	un := func(v interface{}) bool { return json.Unmarshal(tx.Data, v) == nil }
	switch tx.Type {
	case action.SEND:
		m := &transfer.Send{}
		if un(m) {
			return c02KSend, m, &m.Amount
		}
	case action.SENDPOOL:
		m := &transfer.SendPool{}
		if un(m) {
			return c02KSendPool, m, &m.Amount
		}
	case action.STAKE:
		m := &staking.Stake{}
		if un(m) {
			return c02KStake, m, &m.Stake
		}
	case action.UNSTAKE:
		m := &staking.Unstake{}
		if un(m) {
			return c02KUnstake, m, &m.Stake
		}
	case action.WITHDRAW:
		m := &staking.Withdraw{}
		if un(m) {
			return c02KWithdraw, m, &m.Stake
		}
	case action.ADD_NETWORK_DELEGATE:
		m := &netdel.AddNetworkDelegation{}
		if un(m) {
			return c02KDelegate, m, &m.Amount
		}
	case action.NETWORK_UNDELEGATE:
		m := &netdel.Undelegate{}
		if un(m) {
			return c02KUndelegate, m, &m.Amount
		}
	case action.REWARDS_WITHDRAW_NETWORK_DELEGATE:
		m := &netdel.Withdraw{}
		if un(m) {
			return c02KRewardsWithdraw, m, &m.Amount
		}
	case action.REWARDS_REINVEST_NETWORK_DELEGATE:
		m := &netdel.Reinvest{}
		if un(m) {
			return c02KRewardsReinvest, m, &m.Amount
		}
	case action.WITHDRAW_REWARD:
		m := &rewact.Withdraw{}
		if un(m) {
			return c02KWithdrawReward, m, &m.WithdrawAmount
		}
	case action.PROPOSAL_CREATE:
		m := &govact.CreateProposal{}
		if un(m) {
			return c02KProposalCreate, m, &m.InitialFunding
		}
	case action.PROPOSAL_FUND:
		m := &govact.FundProposal{}
		if un(m) {
			return c02KProposalFund, m, &m.FundValue
		}
	case action.PROPOSAL_WITHDRAW_FUNDS:
		m := &govact.WithdrawFunds{}
		if un(m) {
			return c02KProposalWithdrawFunds, m, &m.WithdrawValue
		}
	case action.DOMAIN_CREATE:
		m := &onsact.DomainCreate{}
		if un(m) {
			return c02KDomainCreate, m, &m.BuyingPrice
		}
	case action.DOMAIN_RENEW:
		m := &onsact.RenewDomain{}
		if un(m) {
			return c02KDomainRenew, m, &m.BuyingPrice
		}
	case action.DOMAIN_PURCHASE:
		m := &onsact.DomainPurchase{}
		if un(m) {
			return c02KDomainPurchase, m, &m.Offering
		}
	case action.DOMAIN_SEND:
		m := &onsact.DomainSend{}
		if un(m) {
			return c02KDomainSend, m, &m.Amount
		}
	case action.DOMAIN_SELL:
		m := &onsact.DomainSale{}
		if un(m) {
			return c02KDomainSell, m, &m.Price
		}
	}
	return 0, nil, nil
}

func c02KindAmount(tx *action.SignedTx) (int, string) {
	k, _, a := c02Msg(tx)
	if a == nil {
		return k, "0"
	}
	return k, a.Value.BigInt().String()
}

func c02ModelBegin(r *c02Runner, before, after *c02View) string { return "" }
func c02ModelEnd(r *c02Runner, before, after *c02View) string   { return "" }
func c02ModelTx(r *c02Runner, before *c02View, tx *action.SignedTx, gasUsed int64, ok bool) string {
	return ""
}
