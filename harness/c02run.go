package main

// C02 / C03 runner: whole-application histories through Replica; after InitChain and after every
// BeginBlock, DeliverTx and EndBlock the deliver state is decoded to the value ledger.

import (
	"bytes"
	"encoding/hex"
	"encoding/json"
	"flag"
	"fmt"
	"math/big"
	"math/rand"
	"os"
	"sort"
	"strings"

	"github.com/Oneledger/protocol/action"
	acteth "github.com/Oneledger/protocol/action/eth"
	ethchain "github.com/Oneledger/protocol/chains/ethereum"
	onsact "github.com/Oneledger/protocol/action/ons"
	"github.com/Oneledger/protocol/consensus"
	"github.com/Oneledger/protocol/data/governance"
	"github.com/Oneledger/protocol/data/keys"
	"github.com/Oneledger/protocol/data/ons"
	"github.com/Oneledger/protocol/identity"
	"github.com/Oneledger/protocol/serialize"
	ethcmn "github.com/ethereum/go-ethereum/common"
	ethtypes "github.com/ethereum/go-ethereum/core/types"
	ethcrypto "github.com/ethereum/go-ethereum/crypto"
	"github.com/ethereum/go-ethereum/rlp"
)

func init() { subcmds["c02"] = c02Main }

type c02Step struct {
	Kind  int      `json:"kind"` // 0 begin, 1 tx, 2 end
	OK    bool     `json:"ok"`
	Upd   []c02Rec `json:"upd"`
	Side  []c02Rec `json:"side,omitempty"`
	Allow string   `json:"allow"`
	AllowC []c02Rec `json:"allowc,omitempty"` // wrapped currencies: (currency in C, amount in Amt)
	Auth  []int    `json:"auth"`
	H     int64    `json:"h"`
	Type  string   `json:"type,omitempty"`
	Descr string   `json:"descr,omitempty"`
	Tx    string   `json:"tx,omitempty"`
	Log   string   `json:"log,omitempty"`
	Checked   bool `json:"checked,omitempty"`    // these bytes went through CheckTx on this replica before the block
	CheckOK   bool `json:"check_ok,omitempty"`   // ... and CheckTx accepted them
	CheckGap  int  `json:"check_gap,omitempty"`  // blocks between that CheckTx and the delivery (0 = right before this block)
	TK    int      `json:"tk,omitempty"`
	Amt   string   `json:"amt,omitempty"`
	Fin   []int    `json:"fin,omitempty"`
	Model string   `json:"model,omitempty"` // Coq term of type list lop, "" = not modelled
}

type c02Spec struct {
	Name   string       `json:"name"`
	World  [3]int       `json:"world"` // NewWorld(nvals, nusers, nextra)
	Blocks []c02Block `json:"blocks"`
	Genesis       string `json:"genesis,omitempty"`     // genesis variant of harness/twin.go genesisVariant ("" = default, "eth")
	StakeMaturity int64 `json:"stake_maturity,omitempty"` // genesis stakingOptions.maturityTime (0 = the harness default 3)
}

// c02Block: a block of a replayable history; Pre = transactions passed through CheckTx on the same replica right before this
// block's BeginBlock (mempool check; they may be delivered in this block, in a later one, or never)
type c02Block struct {
	Txs    []string `json:"txs"`
	Absent []int    `json:"absent,omitempty"`
	Pre    []string `json:"pre,omitempty"`
}

type c02Case struct {
	Spec    c02Spec  `json:"spec"`
	Owners  []string `json:"owners"`
	EOA     []int    `json:"eoa"`
	Curs    []string `json:"curs"`
	Gen     []c02Rec `json:"gen"`
	GenSide []c02Rec `json:"gen_side,omitempty"`
	Steps   []c02Step `json:"steps"`
	Unknown []string `json:"unknown,omitempty"`
	Bad     []string `json:"bad,omitempty"`
	Crashed string   `json:"crashed,omitempty"` // the application panicked in this case (the case ends at that block)
	Descr   [][]string `json:"-"`
}

type c02Runner struct {
	w        *World
	rep      *Replica
	in       *c02Intern
	c        *c02Case
	cur      *c02View
	protocol map[string]bool
	unknown  map[string]bool
	bad      map[string]bool
	prefix   map[string]int
	nonce    int
	users    map[string]Key
	ethLock   map[string]*big.Int // lock tracker -> value of the embedded Ethereum transaction (go-ethereum decode), not yet minted
	ethBurnt  map[string]*big.Int // redeem tracker -> amount burnt when the redeem was accepted, not yet refunded
	lockAuth  map[c02Key]bool     // bid escrow records locked by a transaction their owner (the bidder) signed
	checked   map[string][2]int64 // tx bytes -> (CheckTx code, height of the block it preceded)
	blockVals []*identity.Validator // validator records of the committed state at block start (the election queue's source)
}

func (r *c02Runner) memo() string { r.nonce++; return fmt.Sprintf("c02m%d", r.nonce) }

func (r *c02Runner) observe() *c02View {
	v := c02Decode(r.rep.View())
	for p := range v.Protocol {
		r.protocol[p] = true
	}
	for _, k := range v.Unknown {
		r.unknown[k] = true
	}
	for _, k := range v.Bad {
		r.bad[k] = true
	}
	for p, n := range v.PrefixHist {
		if n > r.prefix[p] {
			r.prefix[p] = n
		}
	}
	return v
}

func c02NewRunner(name string, world [3]int, customize func(*GenesisSpec)) *c02Runner {
	return c02NewRunnerM(name, world, customize, 0)
}

func c02NewRunnerM(name string, world [3]int, customize func(*GenesisSpec), stakeMaturity int64) *c02Runner {
	return c02NewRunnerG(name, world, customize, stakeMaturity, "")
}

func c02NewRunnerG(name string, world [3]int, customize func(*GenesisSpec), stakeMaturity int64, genesis string) *c02Runner {
	w := NewWorld(world[0], world[1], world[2])
	g := w.Genesis()
	if genesis != "" {
		g = genesisVariant(w, genesis)
	}
	if customize != nil {
		customize(g)
	}
	if stakeMaturity > 0 {
		prev := g.Customize
		g.Customize = func(st *consensus.AppState) {
			if prev != nil {
				prev(st)
			}
			st.Governance.StakingOptions.MaturityTime = stakeMaturity
		}
	}
	rep := NewReplica(g, ReplicaOpts{NodeVal: w.Vals[0].Val})
	r := &c02Runner{w: w, rep: rep, in: c02NewIntern(), c: &c02Case{Spec: c02Spec{Name: name, World: world, StakeMaturity: stakeMaturity, Genesis: genesis}}, protocol: map[string]bool{}, unknown: map[string]bool{}, bad: map[string]bool{}, prefix: map[string]int{}, users: map[string]Key{}}
	rep.InitChain()
	r.cur = r.observe()
	r.c.Gen = r.in.recs(r.cur.Led)
	r.c.GenSide = r.in.recs(r.cur.Side)
	return r
}

func (r *c02Runner) step(kind int, before, after *c02View) *c02Step {
	s := &c02Step{Kind: kind, OK: true, Upd: r.in.diff(before.Led, after.Led), Side: r.in.diff(before.Side, after.Side), Allow: "0", Auth: []int{}, H: r.rep.H}
	r.c.Steps = append(r.c.Steps, *s)
	return &r.c.Steps[len(r.c.Steps)-1]
}

// block runs one block: BeginBlock, the transactions, EndBlock, Commit
func (r *c02Runner) block(in *BlockIn, descr []string) { r.blockPre(in, descr, nil) }

// blockPre: CheckTx of pre (in order) on this replica, then the block
func (r *c02Runner) blockPre(in *BlockIn, descr []string, pre [][]byte) {
	if r.c.Crashed != "" {
		return // the application panicked earlier in this case (handlePanic closed its database): the case ends there
	}
	defer func() {
		if e := recover(); e != nil {
			r.c.Crashed = fmt.Sprintf("height %d: %v", r.rep.H, e)
			if len(r.c.Crashed) > 300 {
				r.c.Crashed = r.c.Crashed[:300]
			}
		}
	}()
	r.blockPre1(in, descr, pre)
}

func (r *c02Runner) blockPre1(in *BlockIn, descr []string, pre [][]byte) {
	jb := c02Block{}
	if r.checked == nil {
		r.checked = map[string][2]int64{}
	}
	for _, t := range pre {
		jb.Pre = append(jb.Pre, hex.EncodeToString(t))
		res := r.rep.CheckTx(t)
		r.checked[string(t)] = [2]int64{int64(res.Code), r.rep.H + 1}
	}
	for _, t := range in.Txs {
		jb.Txs = append(jb.Txs, hex.EncodeToString(t))
	}
	for i := range in.Absent {
		jb.Absent = append(jb.Absent, i)
	}
	sort.Ints(jb.Absent)
	r.c.Spec.Blocks = append(r.c.Spec.Blocks, jb)

	// the queue of BeginBlock(h) is built from the v_ records at version h-1 = the committed tree now
	r.blockVals = nil
	if r.rep.H >= 1 {
		d := r.rep.Dump()
		for _, k := range sortedKeys(d) {
			if strings.HasPrefix(k, "v_") {
				val := &identity.Validator{}
				if serialize.GetSerializer(serialize.JSON).Deserialize([]byte(d[k]), val) == nil {
					r.blockVals = append(r.blockVals, val)
				}
			}
		}
	}
	before := r.cur
	r.rep.BeginBlock(in)
	after := r.observe()
	s := r.step(0, before, after)
	if d := new(big.Int).Sub(after.Counter, before.Counter); d.Sign() > 0 {
		s.Allow = d.String()
	}
	s.Model = c02ModelBegin(r, before, after)
	r.cur = after
	for i, tx := range in.Txs {
		before = r.cur
		var pre c02Pre
		stx0 := &action.SignedTx{}
		if c02Deserialize(tx, stx0) == nil {
			pre = c02PreTx(r, before, stx0)
		}
		res := r.rep.DeliverTx(tx)
		after = r.observe()
		s = r.step(1, before, after)
		s.OK = res.Code == 0
		s.Tx = hex.EncodeToString(tx)
		if ck, ok := r.checked[string(tx)]; ok {
			s.Checked, s.CheckOK, s.CheckGap = true, ck[0] == 0, int(r.rep.H-ck[1])
		}
		if i < len(descr) {
			s.Descr = descr[i]
		}
		lg := res.Log
		if len(lg) > 160 {
			lg = lg[:160]
		}
		s.Log = lg
		stx := &action.SignedTx{}
		if err := c02Deserialize(tx, stx); err == nil {
			s.Type = stx.Type.String()
			if s.OK {
				seen := map[int]bool{}
				add := func(a string) {
					i := r.in.owner(a)
					if !seen[i] {
						seen[i] = true
						s.Auth = append(s.Auth, i)
					}
				}
				for _, a := range c02SignedBy(stx, r.rep.Chain) {
					add(a)
					if st, ok := before.Vals[a]; ok {
						add(st) // validator operations charge their fee to the stake account
					}
				}
			}
			// bid escrow: a record locked (raised) in a step the bidder signed carries his authority; when the asset owner later
			// ACCEPTS that bid the record is paid out to him - the bidder signed the bid, so that debit is authorised
			if r.lockAuth == nil {
				r.lockAuth = map[c02Key]bool{}
			}
			if s.OK {
				for k, a := range after.Led {
					if k.Bucket != c02BBidEscrow {
						continue
					}
					if old := before.Led[k]; old == nil || old.Cmp(a) < 0 {
						signed := false
						for _, ai := range s.Auth {
							if r.in.owners[ai] == k.Owner {
								signed = true
							}
						}
						r.lockAuth[k] = signed
					}
				}
				if s.Type == "BID_OWNER_DECISION" {
					for k := range before.Led {
						if _, still := after.Led[k]; k.Bucket == c02BBidEscrow && !still && r.lockAuth[k] {
							s.Auth = append(s.Auth, r.in.owner(k.Owner))
						}
					}
				}
			}
			c02EthStep(r, before, after, stx, s)
			s.TK, s.Amt = c02KindAmount(stx)
			if pre != nil {
				s.Model = pre(res.GasUsed, s.OK)
			}
		} else {
			s.Type = "undecodable"
		}
		r.cur = after
	}
	before = r.cur
	r.rep.EndBlock()
	after = r.observe()
	s = r.step(2, before, after)
	// guilty verdicts of this block: new BYZANTINE_FAULT freeze records
	for k := range after.Byz {
		if !before.Byz[k] {
			val := k[:strings.Index(k, "@")]
			if st, ok := before.Vals[val]; ok {
				s.Auth = append(s.Auth, r.in.owner(st))
			}
			for _, vs := range append(append([]ValSpec{}, r.w.Vals...), r.w.Extra...) {
				if vs.Val.Addr.String() == val {
					s.Auth = append(s.Auth, r.in.owner(vs.Stake.Addr.String()))
				}
			}
		}
	}
	for id := range after.Fin {
		if !before.Fin[id] {
			s.Fin = append(s.Fin, r.in.prop(id))
		}
	}
	sort.Ints(s.Fin)
	s.Model = c02ModelEnd(r, before, after)
	r.cur = after
	r.rep.Commit()
}

var c02WitnessGenesis = map[string]string{"eth_redeem_refund": "eth"}
var c02WitnessExodus = map[string]int{"reward_withdrawal_empty_pool": 1, "reward_withdrawal_empty_pool_checktx": 2}

// c02Witness: short directed histories for the recorded findings
func c02Witness(name string, w *World) *History {
	s := &scBuilder{h: &History{Name: name}}
	GAS = 1000000
	u0, u1, u2 := w.Users[0], w.Users[1], w.Users[2]
	switch name {
	case "proposal_fund_negative":
		s.empty(2)
		s.block([][]byte{txPropCreate(u0, "wneg", governance.ProposalTypeGeneral, oltAmt("1000000000"), 30, 0, s.memo())}, "prop create")
		s.block([][]byte{txPropFund(u1, "wneg", oltAmt("7000"), s.memo()), txPropFund(u2, "wneg", oltAmt("-5000000000000000000"), s.memo())}, "prop fund 7000", "prop fund -5 OLT")
		s.empty(1)
	case "withdraw_funds_negative":
		// a proposal whose funding deadline passes below the goal: withdrawal becomes eligible; the funder then "withdraws"
		// a NEGATIVE amount to a beneficiary who signs nothing
		s.empty(2)
		s.block([][]byte{txPropCreate(u0, "wwd", governance.ProposalTypeGeneral, oltAmt("1000000000"), 5, 0, s.memo())}, "prop create")
		s.block([][]byte{txPropFund(u1, "wwd", oltAmt("7000"), s.memo())}, "prop fund 7000")
		s.empty(2)
		s.block([][]byte{txPropWithdraw(u1, "wwd", oltAmt("-3000000000000000000"), u2.Addr, s.memo())}, "prop withdraw -3 OLT to beneficiary u2")
		s.block([][]byte{txPropWithdraw(u1, "wwd", oltAmt("-1000000000000000000"), w.Poor[0].Addr, s.memo())}, "prop withdraw -1 OLT to a poor beneficiary")
		s.empty(1)
	case "withdraw_reward_negative":
		// WITHDRAW_REWARD by a real validator with MATURED rewards (rwcum_balance_ > 0 after two reward intervals): negative,
		// beyond-int64 (2^64-2 narrows to -2, 2^64+1 to 1), zero, unknown-currency and ordinary amounts; and by an account
		// holding 0.002 OLT for an address that is no validator
		s.empty(12)
		v0 := w.Vals[0]
		p := w.Poor[0]
		s.block([][]byte{txWithdrawReward(v0, oltAmt("-1"), s.memo()), txWithdrawReward(v0, oltAmt("18446744073709551614"), s.memo())},
			"withdraw validator reward -1", "withdraw validator reward 2^64-2 (narrowed to -2)")
		s.block([][]byte{txWithdrawReward(v0, oltAmt("18446744073709551617"), s.memo()), txWithdrawReward(v0, oltAmt("0"), s.memo()),
			txWithdrawReward(v0, curAmt("XYZ", "1"), s.memo()), txWithdrawReward(v0, curAmt("ETH", "1"), s.memo()), txWithdrawReward(v0, oltAmt("2"), s.memo())},
			"withdraw validator reward 2^64+1 (narrowed to 1)", "withdraw validator reward 0", "withdraw validator reward 1 XYZ", "withdraw validator reward 1 ETH", "withdraw validator reward 2")
		s.block([][]byte{txWithdrawReward(ValSpec{Val: p, Stake: p}, oltAmt("-1"), s.memo()), txWithdrawReward(v0, oltAmt("-9223372036854775808"), s.memo())},
			"withdraw validator reward -1 by a poor non-validator", "withdraw validator reward -2^63")
		s.empty(1)
	case "olvm_foreign_from":
		// an OLVM transaction whose payload names ANOTHER account as From (it would pay value + gas), signed by the attacker's key;
		// and an honest one by the same key
		s.empty(2)
		att, vic := w.Eth[0], w.Eth[1]
		forged := c17EthKey{att.Priv, vic.Addr}
		to := u0.Addr
		s.block([][]byte{txOLVM(forged, &to, 0, "5000000000000000000", 30000, nil), txOLVM(att, &to, 0, "1000000000", 30000, nil)},
			"olvm transfer with a foreign From signed by the attacker", "olvm transfer")
		s.empty(1)
	case "double_unstake":
		// several unstakes of ONE delegator in one block maturing at the same height: same validator twice, and two validators
		// of one stake address; then past maturity, and the withdrawable amount is withdrawn
		v0, x := w.Vals[0], ValSpec{Val: w.Extra[1].Val, Stake: w.Vals[0].Stake}
		s.empty(2)
		s.block([][]byte{txStake(x, oltAmt("700000"), s.memo())}, "stake a second validator from the stake address of v0")
		s.empty(1)
		s.block([][]byte{txUnstake(v0, oltAmt("300"), s.memo()), txUnstake(v0, oltAmt("500"), s.memo()), txUnstake(x, oltAmt("70"), s.memo())},
			"unstake 300", "unstake 500 (same delegator, same validator, same block)", "unstake 70 (same delegator, other validator)")
		s.block([][]byte{txUnstake(v0, oltAmt("11"), s.memo())}, "unstake 11")
		s.empty(4)
		s.block([][]byte{txWithdraw(v0, oltAmt("870"), s.memo()), txWithdraw(v0, oltAmt("11"), s.memo()), txWithdraw(v0, oltAmt("1"), s.memo())},
			"withdraw 870 = everything unstaked in the first block", "withdraw 11", "withdraw 1 more than was ever unstaked")
		s.empty(1)
	case "self_stake_foreign_slot0":
		// a validator candidate staking from its own node key (stake address = validator address): both required signers are one
		// key.  Then STAKE / UNSTAKE whose signature list has a victim's PUBLIC key with junk bytes in slot 0 and the genuine
		// signature in slot 1, at a high fee price: the fee goes to Signatures[0]'s address
		self := ValSpec{Val: w.Extra[1].Stake, Stake: w.Extra[1].Stake}
		s.empty(2)
		s.block([][]byte{txStake(self, oltAmt("600000"), s.memo())}, "stake self")
		s.empty(1)
		forge := func(tx []byte, vic Key) []byte {
			stx := decodeSigned(tx)
			raw := stx.RawTx
			raw.Fee.Price = action.Amount{Currency: "OLT", Value: bigAmt("1000000000000000")}
			good := decodeSigned(signRaw(raw, self.Stake)).Signatures[0]
			out := action.SignedTx{RawTx: raw, Signatures: []action.Signature{{Signer: vic.Pub, Signed: []byte("junkjunkjunkjunkjunkjunkjunkjunkjunkjunkjunkjunkjunkjunkjunkjunk")}, good}}
			return encodeSigned(&out)
		}
		s.block([][]byte{forge(txStake(self, oltAmt("10"), s.memo()), u1), forge(txUnstake(self, oltAmt("5"), s.memo()), u2)},
			"stake self, slot 0 = victim u1's public key + junk", "unstake self, slot 0 = victim u2's public key + junk")
		s.empty(1)
	case "refused_credit_then_spend":
		// a transaction refused in the FEE step after its handler already moved money (gas limit 1: "gas used exceed limit"),
		// immediately followed by a transaction that spends, from the account the refused one had credited, more than it owns.
		// A refused transaction leaves no trace (C06), so the second one must be refused too; then the symmetric order (the refused
		// handler's last balance access was a DEBIT, the next transaction spends what the account really has: must be accepted)
		p := w.Poor[0] // owns 0.002 OLT
		s.empty(2)
		GAS = 1
		t1 := txSend(u0, p.Addr, oltAmt("100000000000000000000"), s.memo())
		GAS = 1000000
		s.block([][]byte{t1, txSend(p, u2.Addr, oltAmt("100000000000000000000"), s.memo())},
			"send 100 OLT to a poor account, gas limit 1 (refused in the fee step)", "the poor account sends 100 OLT on")
		GAS = 1
		t2 := txSendPool(u0, "DelegationPool", oltAmt("70000000000000000000"), s.memo())
		GAS = 1000000
		s.block([][]byte{txDelegate(u1, oltAmt("50000000000000000000"), s.memo())}, "delegate 50 OLT")
		s.block([][]byte{t2, txUndelegate(u1, oltAmt("1000000000000000000"), s.memo())},
			"sendpool 70 OLT to the delegation pool, gas limit 1 (refused in the fee step)", "undelegate 1 OLT (debits the pool)")
		GAS = 1
		t3 := txPropCreate(u1, "wfee", governance.ProposalTypeGeneral, oltAmt("1000000000"), 30, 0, s.memo())
		GAS = 1000000
		s.block([][]byte{t3, txSend(u1, u2.Addr, oltAmt("999000000000000000000000"), s.memo())},
			"proposal create, gas limit 1 (refused in the fee step after the proposer was debited)", "the proposer sends 999000 OLT (he owns more)")
		GAS = 1
		t4 := txSend(u0, u0.Addr, oltAmt("5"), s.memo())
		GAS = 1000000
		s.block([][]byte{t4, txSend(u0, u2.Addr, oltAmt("1"), s.memo())}, "send to self, gas limit 1 (refused)", "send 1")
		s.empty(1)
	case "reward_withdrawal_empty_pool", "reward_withdrawal_empty_pool_checktx":
		// a delegator delegates, rewards accrue; then the epilogue c02Runner.exodus: reward withdrawal, everybody undelegates
		// everything, the withdrawal matures while the delegation pool is empty (second variant: a CheckTx right before each block)
		s.empty(2)
		s.block([][]byte{txDelegate(u0, oltAmt("250000000000000000000"), s.memo()), txDelegate(u1, oltAmt("70000000000000000000"), s.memo())}, "delegate 250", "delegate 70")
		s.empty(5)
	case "bid_negative_amount":
		// BID_CREATE / further offer / counter offer with negative, zero and ordinary amounts (f99f70a: a negative bid used to
		// CREDIT the bidder: Balances.MinusFromAddress of a negative coin)
		s.empty(2)
		h := int64(len(s.h.Blocks) + 1)
		conv := bidConvID(u0.Addr, "wbid", u1.Addr, h)
		s.block([][]byte{txBidCreate(u1, u0.Addr, "wbid", bidExample, oltAmt("5000000000000000000"), bidFar, s.memo()),
			txBidCreate(u2, u0.Addr, "wneg", bidExample, oltAmt("-5000000000000000000"), bidFar, s.memo()),
			txBidCreate(w.Poor[0], u0.Addr, "wneg2", bidExample, oltAmt("-1"), bidFar, s.memo()),
			txBidCreate(u2, u0.Addr, "wzero", bidExample, oltAmt("0"), bidFar, s.memo())},
			"bid 5 OLT", "bid -5 OLT", "bid -1 by a poor account", "bid 0")
		s.block([][]byte{txBidCounter(u0, conv, oltAmt("-1"), s.memo()), txBidCounter(u0, conv, oltAmt("9000000000000000000"), s.memo())}, "counter offer -1", "counter offer 9 OLT")
		s.block([][]byte{txBidOffer(u1, conv, oltAmt("-7000000000000000000"), s.memo()), txBidOffer(u1, conv, oltAmt("7000000000000000000"), s.memo())}, "further offer -7 OLT", "further offer 7 OLT")
		s.block([][]byte{txBidExpire(u2, conv, s.memo())}, "expire by a third party")
		s.empty(1)
	case "olvm_sstore_refund":
		// a contract whose call with empty data sets storage slot 0 and with non-empty data CLEARS it (SSTORE x -> 0 earns a gas
		// refund): what the sender pays (post-refund gas) must be what the fee pool receives; also a reverting and a gas-burning call
		e0, e1 := w.Eth[0], w.Eth[1]
		tog := keys.Address(ethcrypto.CreateAddress(ethcmn.BytesToAddress(e0.Addr.Bytes()), 0).Bytes())
		rev := keys.Address(ethcrypto.CreateAddress(ethcmn.BytesToAddress(e0.Addr.Bytes()), 1).Bytes())
		s.empty(2)
		s.block([][]byte{txOLVM(e0, nil, 0, "0", 200000, c17Deployer(c17RtToggle)), txOLVM(e0, nil, 1, "0", 200000, c17Deployer(c17RtRevert))}, "olvm deploy toggle", "olvm deploy revert")
		s.block([][]byte{txOLVM(e0, &tog, 2, "0", 100000, nil), txOLVM(e1, &tog, 0, "0", 100000, []byte{1})}, "olvm call: set slot 0", "olvm call: clear slot 0 (refund)")
		s.block([][]byte{txOLVM(e1, &tog, 1, "5", 100000, nil), txOLVM(e0, &tog, 3, "0", 100000, []byte{1, 2}), txOLVM(e0, &rev, 4, "7", 100000, nil)},
			"olvm call with value: set slot 0", "olvm call: clear slot 0 (refund)", "olvm call that reverts")
		s.block([][]byte{txOLVM(e1, &tog, 2, "0", 100000, nil), txOLVM(e1, &tog, 3, "0", 100000, []byte{9})}, "olvm call: set", "olvm call: clear in the same block (refund)")
		s.empty(1)
	case "eth_redeem_refund":
		// genesis variant "eth" (chain driver, the validators as witnesses).  lock 5000 wei -> 3 success reports -> mint; a redeem of
		// 200 that SUCCEEDS; a redeem of 300 that FAILS (3 failure reports) and must be refunded exactly 300; then crafted redeems whose
		// embedded, well-formed Ethereum transaction carries the redeem(uint256) selector in a field BEFORE the call data (gas price,
		// nonce, value) or twice in the call data, so that "amount of the call data" and "amount after the first selector in the raw
		// bytes" differ: whatever is burnt when the redeem is accepted is what a failure may refund
		s.empty(2)
		wits := append([]ValSpec{}, w.Vals...)
		sort.Slice(wits, func(i, j int) bool { return bytes.Compare(wits[i].Val.Addr, wits[j].Val.Addr) < 0 })
		report := func(ethTx []byte, locker Key, success bool) {
			var tn ethchain.TrackerName
			tn.SetBytes(ethcmn.BytesToHash(ethTx).Bytes())
			for i, v := range wits {
				m := &acteth.ReportFinality{TrackerName: tn, Locker: locker.Addr, ValidatorAddress: v.Val.Addr, VoteIndex: int64(i), Success: success}
				s.block([][]byte{mkTx(action.ETH_REPORT_FINALITY_MINT, m, GAS, s.memo(), v.Val)}, fmt.Sprintf("ethreport witness %d success=%v", i, success))
			}
			s.empty(1)
		}
		sel := ethcmn.FromHex(c15RedeemSelector())
		word := func(v int64) []byte { b := make([]byte, 32); big.NewInt(v).FillBytes(b); return b }
		etx := func(nonce uint64, gasPrice, value *big.Int, data []byte, tail int64) []byte {
			t := ethtypes.NewTx(&ethtypes.LegacyTx{Nonce: nonce, GasPrice: gasPrice, Gas: 100000, To: &c15Contract, Value: value, Data: data,
				V: big.NewInt(27), R: big.NewInt(12345), S: c15S(tail)})
			bz, err := rlp.EncodeToBytes(t)
			must(err)
			return bz
		}
		redeemTx := func(u Key, raw []byte) []byte {
			return mkTx(action.ETH_REDEEM, acteth.Redeem{Owner: u.Addr, To: ethcmn.BytesToAddress(u.Addr), ETHTxn: raw}, GAS, s.memo(), u)
		}
		lock := c15LockBytes(big.NewInt(5000), c15Contract, c15LockData, 1, c15S(101))
		s.block([][]byte{mkTx(action.ETH_LOCK, acteth.Lock{Locker: u0.Addr, ETHTxn: lock}, GAS, s.memo(), u0)}, "ethlock 5000")
		s.empty(1)
		report(lock, u0, true)
		good := etx(2, big.NewInt(1), big.NewInt(0), append(append([]byte{}, sel...), word(200)...), 102)
		s.block([][]byte{redeemTx(u0, good)}, "ethredeem 200 (will succeed)")
		report(good, u0, true)
		fail := etx(3, big.NewInt(1), big.NewInt(0), append(append([]byte{}, sel...), word(300)...), 103)
		s.block([][]byte{redeemTx(u0, fail)}, "ethredeem 300 (will fail and be refunded)")
		report(fail, u0, false)
		big32 := func(fill byte) *big.Int { // selector || 28 chosen bytes
			b := append(append([]byte{}, sel...), bytes.Repeat([]byte{fill}, 28)...)
			return new(big.Int).SetBytes(b)
		}
		crafted := []struct {
			n   string
			raw []byte
		}{
			{"selector in the gas price, 1 wei in the call data", etx(4, big32(0), big.NewInt(0), append(append([]byte{}, sel...), word(1)...), 104)},
			{"selector in the gas price (small chosen amount 4000), 1 wei in the call data",
				etx(5, new(big.Int).SetBytes(append(append([]byte{}, sel...), word(4000)[4:]...)), big.NewInt(0), append(append([]byte{}, sel...), word(1)...), 105)},
			{"selector in the nonce, 1 wei in the call data", etx(0xdb006a7500000000, big.NewInt(1), big.NewInt(0), append(append([]byte{}, sel...), word(1)...), 106)},
			{"selector in the value field, 1 wei in the call data", etx(6, big.NewInt(1), big32(0), append(append([]byte{}, sel...), word(1)...), 107)},
			{"selector twice in the call data (2 then 900)", etx(7, big.NewInt(1), big.NewInt(0), append(append(append(append([]byte{}, sel...), word(2)...), sel...), word(900)...), 108)},
		}
		for _, c := range crafted {
			s.block([][]byte{redeemTx(u0, c.raw)}, "ethredeem crafted: "+c.n)
			report(c.raw, u0, false)
		}
		s.empty(2)
	case "olvm_create_prefunded":
		// native SENDs to the FUTURE addresses of contracts (CreateAddress(deployer, nonce) is computable in advance), committed; then
		// the OLVM creations at those addresses: without / with endowment, with reverting init code, a self-destructing contract that
		// is then called (pays everything out), and inner CREATE / CREATE2 of a factory at pre-funded child addresses.
		// A creation moves the endowment and the gas fee, NOTHING else: the new contract holds what the address held + the endowment
		e0, e1 := w.Eth[0], w.Eth[1]
		ca := func(a keys.Address, n uint64) keys.Address {
			return keys.Address(ethcrypto.CreateAddress(ethcmn.BytesToAddress(a.Bytes()), n).Bytes())
		}
		f0, f1, f2, f3, fac := ca(e0.Addr, 0), ca(e0.Addr, 1), ca(e0.Addr, 2), ca(e0.Addr, 3), ca(e0.Addr, 4)
		child1 := ca(fac, 1) // the factory's own nonce starts at 1 (EIP-161)
		child2 := keys.Address(ethcrypto.CreateAddress2(ethcmn.BytesToAddress(fac.Bytes()), [32]byte{}, ethcrypto.Keccak256(nil)).Bytes())
		// factory runtime: calldatasize == 0 -> CREATE(callvalue, 0, 0) ; else CREATE2(callvalue, 0, 0, salt 0); STOP
		//   CALLDATASIZE PUSH1 0x0b JUMPI | PUSH1 0 PUSH1 0 CALLVALUE CREATE STOP | JUMPDEST PUSH1 0 PUSH1 0 PUSH1 0 CALLVALUE CREATE2 STOP
		factory := []byte{0x36, 0x60, 0x0b, 0x57, 0x60, 0x00, 0x60, 0x00, 0x34, 0xf0, 0x00, 0x5b, 0x60, 0x00, 0x60, 0x00, 0x60, 0x00, 0x34, 0xf5, 0x00}
		s.empty(2)
		s.block([][]byte{txSend(u0, f0, oltAmt("1000"), s.memo()), txSend(u1, f1, oltAmt("777000000000"), s.memo()), txSend(u0, f2, oltAmt("99"), s.memo()),
			txSend(u1, f3, oltAmt("4000"), s.memo()), txSend(u0, child1, oltAmt("31000"), s.memo()), txSend(u0, child2, oltAmt("52000"), s.memo())},
			"send to a future contract address", "send to a future contract address", "send to a future contract address", "send to a future contract address",
			"send to a future CREATE child address", "send to a future CREATE2 child address")
		s.empty(1)
		s.block([][]byte{txOLVM(e0, nil, 0, "0", 200000, c17Deployer(c17RtStop))}, "olvm creation at a funded address, no endowment")
		s.block([][]byte{txOLVM(e0, nil, 1, "5000", 200000, c17Deployer(c17RtToggle))}, "olvm creation at a funded address, endowment 5000")
		s.block([][]byte{txOLVM(e0, nil, 2, "12", 200000, c17InitRevert)}, "olvm creation at a funded address, init code reverts")
		s.block([][]byte{txOLVM(e0, nil, 3, "3", 200000, c17Deployer(c17RtSuicide)), txOLVM(e1, &f3, 0, "2", 100000, nil)},
			"olvm creation of a self-destructing contract at a funded address", "olvm call: self-destruct pays out to the caller")
		s.block([][]byte{txOLVM(e0, nil, 4, "0", 300000, c17Deployer(factory))}, "olvm creation of a factory")
		s.block([][]byte{txOLVM(e1, &fac, 1, "7", 300000, nil), txOLVM(e1, &fac, 2, "9", 300000, []byte{1})},
			"olvm call: factory CREATEs a child at a funded address (endowment 7)", "olvm call: factory CREATE2s a child at a funded address (endowment 9)")
		s.block([][]byte{txOLVM(e1, &f0, 3, "1", 100000, nil), txSend(u0, f1, oltAmt("5"), s.memo())}, "olvm transfer to the created contract", "native send to a contract")
		s.empty(1)
	case "victim_key_relabelled":
		// a secp256k1-keyed funded account (address = hash160 of the compressed key) whose public key is public; then SEND / SENDPOOL /
		// ADD_NETWORK_DELEGATE naming it as the source, in envelopes that carry ITS public key - unchanged and relabelled as every other
		// key algorithm - with junk / empty signature bytes; the same for an ed25519 victim.  The victims sign nothing: nothing may move
		sv := seedKeyAlg(77, keys.SECP256K1)
		s.empty(2)
		s.block([][]byte{txSend(u0, sv.Addr, oltAmt("5000000000000000000000"), s.memo())}, "fund the secp256k1 account")
		s.block([][]byte{txSend(sv, u1.Addr, oltAmt("1000000000000000000"), s.memo())}, "the secp256k1 account sends (its public key is public now)")
		forge := func(base []byte, vic Key, alg string, sig []byte) []byte {
			stx := decodeSigned(base)
			stx.Signatures = []action.Signature{{Signer: vic.Pub, Signed: sig}}
			bz := encodeSigned(stx)
			cur := vic.Pub.KeyType.String()
			if alg != cur {
				bz = []byte(strings.Replace(string(bz), `"keyType":"`+cur+`"`, `"keyType":"`+alg+`"`, 1))
			}
			return bz
		}
		for _, vic := range []Key{sv, u2} {
			txs, ds := [][]byte{}, []string{}
			for _, alg := range []string{"ed25519", "secp256k1", "btcecsecp", "ethsecp"} {
				for si, sig := range [][]byte{bytes.Repeat([]byte{0x5a}, 64), {}} {
					for ki, base := range [][]byte{txSend(vic, u0.Addr, oltAmt("7000000000000000000"), s.memo()), txSendPool(vic, "BountyPool", oltAmt("3000000000000000000"), s.memo()),
						txDelegate(vic, oltAmt("2000000000000000000"), s.memo())} {
						txs = append(txs, forge(base, vic, alg, sig))
						ds = append(ds, fmt.Sprintf("forged %s of the %s victim: its public key as %s, signature %s", []string{"SEND", "SENDPOOL", "ADD_NETWORK_DELEGATE"}[ki], vic.Pub.KeyType.String(), alg, []string{"junk", "empty"}[si]))
					}
				}
			}
			for len(txs) > 0 {
				n := 6
				if n > len(txs) {
					n = len(txs)
				}
				s.block(txs[:n], ds[:n]...)
				txs, ds = txs[n:], ds[n:]
			}
		}
		s.empty(1)
	case "same_account_both_roles":
		// both parties of a two-party kind are ONE account (what read-both-write-both code breaks): the owner buys its own name on sale
		// (offer = asking price, offer above it), SEND to self, DOMAIN_SEND to the sender's own name, PROPOSAL_WITHDRAW_FUNDS with
		// beneficiary = funder, a bid on the bidder's own asset, delegate / undelegate by a validator's stake account; and a
		// DOMAIN_PURCHASE whose `account` field names a THIRD funded account, offer above the asking price (the buyer pays all of it)
		u3 := w.Users[3]
		v0 := w.Vals[0]
		price := oltAmt("1002000000000000000000")
		s.empty(2)
		s.block([][]byte{txDomainCreate(u0, "self.ol", price, s.memo()), txDomainCreate(u1, "acct.ol", price, s.memo()),
			txPropCreate(u0, "wself", governance.ProposalTypeGeneral, oltAmt("1000000000"), 6, 0, s.memo())}, "domain create", "domain create", "prop create")
		s.block([][]byte{txPropFund(u1, "wself", oltAmt("7000"), s.memo())}, "prop fund 7000")
		s.block([][]byte{txDomainSell(u0, "self.ol", oltAmt("5000000000000000000"), false, s.memo()), txDomainSell(u1, "acct.ol", oltAmt("5000000000000000000"), false, s.memo())}, "domain sell 5 OLT", "domain sell 5 OLT")
		s.empty(1)
		s.block([][]byte{txDomainPurchase(u0, "self.ol", oltAmt("5000000000000000000"), s.memo())}, "the owner buys its own name, offer = asking price")
		s.empty(1)
		s.block([][]byte{txDomainSell(u0, "self.ol", oltAmt("5000000000000000000"), false, s.memo())}, "domain sell again")
		s.empty(1)
		s.block([][]byte{txDomainPurchase(u0, "self.ol", oltAmt("6000000000000000000"), s.memo()),
			mkTx(action.DOMAIN_PURCHASE, onsact.DomainPurchase{Name: ons.Name("acct.ol"), Buyer: u2.Addr, Account: u3.Addr, Offering: oltAmt("8000000000000000000")}, GAS, s.memo(), u2)},
			"the owner buys its own name, offer above the asking price", "purchase with account = a third funded account, offer above the asking price")
		s.block([][]byte{txSend(u0, u0.Addr, oltAmt("123000000000000000000"), s.memo()), txDomainSend(u0, "self.ol", oltAmt("45000000000000000000"), s.memo()),
			txPropWithdraw(u1, "wself", oltAmt("3000"), u1.Addr, s.memo()), txBidCreate(u0, u0.Addr, "ownthing", bidExample, oltAmt("9000000000000000000"), bidFar, s.memo())},
			"send to self", "domain send to the sender's own name", "proposal withdraw with beneficiary = funder", "bid on the bidder's own asset")
		s.block([][]byte{txDelegate(v0.Stake, oltAmt("50000000000000000000"), s.memo())}, "delegate by a validator's stake account")
		s.block([][]byte{txUndelegate(v0.Stake, oltAmt("20000000000000000000"), s.memo())}, "undelegate by a validator's stake account")
		s.empty(5)
	case "two_finalized_in_one_block":
		full := scenarioHistory("govupdate", w)
		s.h.Blocks, s.h.Descr = full.Blocks[:7], full.Descr[:7]
	default:
		panic("c02: unknown witness " + name)
	}
	return s.h
}

func c02Deserialize(bz []byte, tx *action.SignedTx) (err error) {
	defer func() {
		if e := recover(); e != nil {
			err = fmt.Errorf("panic %v", e)
		}
	}()
	return serializeNetwork().Deserialize(bz, tx)
}

func (r *c02Runner) finish() *c02Case {
	c := r.c
	c.Owners = r.in.owners
	c.Curs = r.in.curs
	for i, o := range c.Owners {
		if !r.protocol[o] && c02IsEOAAddr(o) {
			c.EOA = append(c.EOA, i)
		}
	}
	for k := range r.unknown {
		c.Unknown = append(c.Unknown, k)
	}
	sort.Strings(c.Unknown)
	for k := range r.bad {
		c.Bad = append(c.Bad, k)
	}
	sort.Strings(c.Bad)
	r.rep.Close()
	return c
}

// c02RunHistory runs a generated history.  Mempool policy (so that every transaction kind and every forged transaction is seen
// both ways over a run): block i mod 3 = 0: delivered without a prior CheckTx; 1: every transaction goes through CheckTx right
// before the block; 2: its transactions went through CheckTx BEFORE the previous (unrelated) block.  exodus: the epilogue
// "reward withdrawal, then every delegator undelegates everything" (see c02Runner.exodus)
func c02RunHistory(name string, world [3]int, h *History, exodus int) (*c02Case, map[string]int) {
	return c02RunHistoryG(name, world, h, exodus, "")
}

func c02RunHistoryG(name string, world [3]int, h *History, exodus int, genesis string) (*c02Case, map[string]int) {
	r := c02NewRunnerG(name, world, nil, 0, genesis)
	for i := range h.Blocks {
		var d []string
		if i < len(h.Descr) {
			d = h.Descr[i]
		}
		var pre [][]byte
		if i%3 == 1 {
			pre = append(pre, h.Blocks[i].Txs...)
		}
		if i+1 < len(h.Blocks) && (i+1)%3 == 2 {
			pre = append(pre, h.Blocks[i+1].Txs...)
		}
		r.blockPre(&h.Blocks[i], d, pre)
	}
	if exodus > 0 {
		r.exodus(exodus == 2)
	}
	return r.finish(), r.prefix
}

// c02Replay re-runs a recorded spec exactly (same CheckTx calls at the same places)
func c02Replay(s c02Spec) (*c02Case, map[string]int) {
	r := c02NewRunnerG(s.Name, s.World, nil, s.StakeMaturity, s.Genesis)
	for _, b := range s.Blocks {
		in := BlockIn{Absent: map[int]bool{}}
		for _, t := range b.Txs {
			bz, _ := hex.DecodeString(t)
			in.Txs = append(in.Txs, bz)
		}
		for _, i := range b.Absent {
			in.Absent[i] = true
		}
		pre := [][]byte{}
		for _, t := range b.Pre {
			bz, _ := hex.DecodeString(t)
			pre = append(pre, bz)
		}
		r.blockPre(&in, make([]string, len(in.Txs)), pre)
	}
	return r.finish(), r.prefix
}

// c02MaturityLowered: stakingOptions.maturityTime is LOWERED by a finalised configuration proposal (109210 -> 109200, the lowest
// value the option validation accepts) between the unstake of validator V and two unstakes, in one block, of another stake account A
// whose maturity height then coincides with V's (h_V + 109210 = h_A + 109200); V signs nothing in A's blocks
func c02MaturityLowered(name string, ai, vi int) (*c02Case, map[string]int) {
	world := [3]int{3, 5, 2}
	r := c02NewRunnerM(name, world, nil, 109210)
	w := r.w
	GAS = 1000000
	A, V := w.Vals[ai], w.Vals[vi]
	u0, u1 := w.Users[0], w.Users[1]
	blk := func(d string, txs ...[]byte) {
		ds := make([]string, len(txs))
		for i := range ds {
			ds[i] = d
		}
		r.block(&BlockIn{Txs: txs, Absent: map[int]bool{}}, ds)
	}
	maturity := func() int64 {
		o, err := governance.NewStore("g", r.rep.A.VerifDeliver()).GetStakingOptions()
		if err != nil {
			return -1
		}
		return o.MaturityTime
	}
	blk("")
	blk("")
	hs := r.rep.H + 1
	blk("setup", txPropCreateCfg(u0, "cfgmat", "stakingOptions.maturityTime:109200", oltAmt("1000000000"), 10, r.memo()), txUnstake(V, oltAmt("3"), r.memo()))
	blk("setup", txPropFund(u1, "cfgmat", oltAmt("9000000000"), r.memo()), txUnstake(V, oltAmt("3"), r.memo()))
	votes := [][]byte{txUnstake(V, oltAmt("3"), r.memo())}
	for _, v := range w.Vals {
		votes = append(votes, txPropVote(v, "cfgmat", governance.OPIN_POSITIVE, r.memo()))
	}
	blk("vote / V unstakes 3", votes...)
	hf := int64(0)
	for i := 0; i < 12 && hf == 0; i++ {
		blk("V unstakes 3 (maturity 109210 blocks)", txUnstake(V, oltAmt("3"), r.memo()))
		if maturity() == 109200 {
			hf = r.rep.H
		}
	}
	if hf == 0 {
		return r.finish(), r.prefix
	}
	// A's blocks: heights h with V's unstake of height h-10 on record, h > hf; V is silent from now on
	for r.rep.H+1 < hs+10 {
		blk("")
	}
	for i := 0; i < 3 && r.rep.H+1 <= hf+10; i++ {
		r.block(&BlockIn{Txs: [][]byte{txUnstake(A, oltAmt("7"), r.memo()), txUnstake(A, oltAmt("11"), r.memo())}, Absent: map[int]bool{}},
			[]string{"A unstakes 7 (maturity 109200: the height of V's unstake made 10 blocks ago)", "A unstakes 11, same block, same maturity height"})
	}
	blk("")
	return r.finish(), r.prefix
}

// exodus: every delegator with a reward claim starts a reward withdrawal; in the next block EVERY delegator undelegates everything,
// so that the delegation pool is empty when the withdrawal matures; then blocks past both maturities (withCheck: a CheckTx of an
// unrelated valid transaction is the last ABCI call before each of those blocks)
func (r *c02Runner) exodus(withCheck bool) {
	keysOf := map[string]Key{}
	for _, u := range append(append([]Key{}, r.w.Users...), r.w.Poor...) {
		keysOf[u.Addr.String()] = u
	}
	GAS = 1000000
	dels := []string{}
	for k, a := range r.cur.Led {
		if k.Bucket == c02BDelegAct && a.Sign() > 0 {
			if _, ok := keysOf[k.Owner]; ok {
				dels = append(dels, k.Owner)
			}
		}
	}
	sort.Strings(dels)
	if len(dels) == 0 {
		return
	}
	txs, descr := [][]byte{}, []string{}
	for _, d := range dels {
		if rb := r.cur.Led[c02Key{d, c02BRewBal, "OLT", ""}]; rb != nil && rb.Sign() > 0 {
			half := new(big.Int).Div(new(big.Int).Add(rb, big.NewInt(1)), big.NewInt(2))
			txs = append(txs, txDelegWithdrawRewards(keysOf[d], oltAmt(half.String()), r.memo()))
			descr = append(descr, "exodus: reward withdrawal of half the claim")
		}
	}
	r.block(&BlockIn{Txs: txs, Absent: map[int]bool{}}, descr)
	txs, descr = nil, nil
	for _, d := range dels {
		act := r.cur.Led[c02Key{d, c02BDelegAct, "OLT", ""}]
		if act == nil || act.Sign() <= 0 {
			continue
		}
		txs = append(txs, txUndelegate(keysOf[d], oltAmt(act.String()), r.memo()))
		descr = append(descr, "exodus: undelegate everything")
	}
	r.block(&BlockIn{Txs: txs, Absent: map[int]bool{}}, descr)
	for i := 0; i < 7; i++ {
		var pre [][]byte
		if withCheck {
			pre = [][]byte{txSend(r.w.Users[0], r.w.Users[1].Addr, oltAmt("1000"), r.memo())}
		}
		r.blockPre(&BlockIn{Absent: map[int]bool{}}, nil, pre)
	}
}

func c02CoqAllowC(l []c02Rec) string {
	p := make([]string, len(l))
	for i, r := range l {
		p[i] = fmt.Sprintf("(%d%%N,%s)", r.C, c02Z(r.Amt))
	}
	return "[" + strings.Join(p, ";") + "]"
}

// ---------- Coq output ----------

func c02CoqCase(c *c02Case) string {
	var b strings.Builder
	fmt.Fprintf(&b, "{| c_eoa := %s; c_ncur := %d%%N;\n c_gen := %s; c_gen_side := %s;\n c_steps := [\n", c02CoqNs(c.EOA), len(c.Curs), c02CoqRecs(c.Gen), c02CoqRecs(c.GenSide))
	for i, s := range c.Steps {
		m := "None"
		if s.Model != "" {
			m = "Some (" + s.Model + ")"
		}
		amt := s.Amt
		if amt == "" {
			amt = "0"
		}
		fmt.Fprintf(&b, "  {| s_kind := %d%%N; s_ok := %v; s_upd := %s; s_side := %s; s_allow := %s; s_allowc := %s; s_auth := %s; s_tk := %d%%N; s_amt := %s; s_fin := %s; s_m := %s |}",
			s.Kind, s.OK, c02CoqRecs(s.Upd), c02CoqRecs(s.Side), c02Z(s.Allow), c02CoqAllowC(s.AllowC), c02CoqNs(s.Auth), s.TK, c02Z(amt), c02CoqNs(s.Fin), m)
		if i+1 < len(c.Steps) {
			b.WriteString(";\n")
		}
	}
	b.WriteString("] |}")
	return b.String()
}

type c02Report struct {
	Cases      int            `json:"cases"`
	Steps      int            `json:"steps"`
	Blocks     int            `json:"blocks"`
	Txs        int            `json:"txs"`
	TxOK       int            `json:"tx_ok"`
	TxFail     int            `json:"tx_fail"`
	Modelled   int            `json:"modelled_steps"`
	KindHist   map[string]int `json:"kind_histogram"`
	OutHist    map[string]int `json:"outcome_histogram"`
	ModelHist  map[string]int `json:"modelled_histogram"`
	SourceHist map[string]int `json:"source_histogram"`
	AdvHist    map[string]int `json:"adversarial_histogram"`
	PrefixHist map[string]int `json:"decoded_prefix_histogram"`
	Mempool    map[string]int `json:"mempool_histogram"`
	Records    int            `json:"max_ledger_records"`
	Owners     int            `json:"max_owners"`
	Unknown    []string       `json:"unknown_keys"`
	Bad        []string       `json:"undecodable_values"`
	Crashed    []string       `json:"crashed_cases"`
	Distinct   int            `json:"distinct_cases"`
	Files      []string       `json:"files"`
	Samples    []string       `json:"samples"`
}

func c02Main(args []string) int {
	fs := flag.NewFlagSet("c02", flag.ExitOnError)
	seed := fs.Int64("seed", 1, "PRNG seed")
	nrand := fs.Int("n", 6, "number of random histories")
	nblocks := fs.Int("blocks", 36, "blocks per random history")
	txPer := fs.Int("txs", 5, "max transactions per block in random histories")
	nadv := fs.Int("adv", 1, "number of adversarial-amount histories")
	outDir := fs.String("out", ".", "output directory")
	shard := fs.Int("shard", 2, "cases per Coq file")
	corpus := fs.String("corpus", "", "JSON file with a list of case specs to replay instead of generating")
	extra := fs.String("extra", "", "JSON file with a list of case specs to replay in addition")
	fs.Parse(args)

	rep := c02Report{KindHist: map[string]int{}, OutHist: map[string]int{}, ModelHist: map[string]int{}, SourceHist: map[string]int{}, AdvHist: map[string]int{}, PrefixHist: map[string]int{}, Mempool: map[string]int{}}
	var cases []*c02Case
	mergePrefix := func(p map[string]int) {
		for k, n := range p {
			if n > rep.PrefixHist[k] {
				rep.PrefixHist[k] = n
			}
		}
	}
	load := func(path string) []c02Spec {
		var specs []c02Spec
		bz, err := os.ReadFile(path)
		if err == nil {
			err = json.Unmarshal(bz, &specs)
		}
		if err != nil {
			fmt.Fprintln(os.Stderr, "c02: corpus:", err)
			os.Exit(2)
		}
		return specs
	}
	replaySpec := func(s c02Spec) {
		c, p := c02Replay(s)
		cases = append(cases, c)
		mergePrefix(p)
		rep.SourceHist["replay"]++
	}
	if *corpus != "" {
		for _, s := range load(*corpus) {
			replaySpec(s)
		}
	} else {
		if *extra != "" {
			for _, s := range load(*extra) {
				replaySpec(s)
			}
		}
		world := [3]int{3, 5, 2}
		for _, name := range []string{"proposal_fund_negative", "two_finalized_in_one_block", "withdraw_funds_negative", "withdraw_reward_negative", "olvm_foreign_from", "double_unstake", "self_stake_foreign_slot0", "refused_credit_then_spend", "reward_withdrawal_empty_pool", "reward_withdrawal_empty_pool_checktx", "bid_negative_amount", "olvm_sstore_refund", "eth_redeem_refund", "olvm_create_prefunded", "victim_key_relabelled", "same_account_both_roles"} {
			w := NewWorld(world[0], world[1], world[2])
			c, p := c02RunHistoryG("witness_"+name, world, c02Witness(name, w), c02WitnessExodus[name], c02WitnessGenesis[name])
			cases = append(cases, c)
			mergePrefix(p)
			rep.SourceHist["witness"]++
		}
		for i, p := range [][2]int{{0, 1}, {1, 0}} {
			c, pf := c02MaturityLowered(fmt.Sprintf("witness_maturity_lowered_%d", i), p[0], p[1])
			cases = append(cases, c)
			mergePrefix(pf)
			rep.SourceHist["witness"]++
		}
		for _, name := range scenarioNames {
			w := NewWorld(world[0], world[1], world[2])
			gen := scenarioGenesis(name)
			if gen == "default" {
				gen = ""
			}
			c, p := c02RunHistoryG("scenario_"+name, world, scenarioHistory(name, w), 0, gen)
			cases = append(cases, c)
			mergePrefix(p)
			rep.SourceHist["scenario"]++
		}
		for i := 0; i < *nadv; i++ {
			r := rand.New(rand.NewSource(*seed*7919 + int64(i)))
			c, p := c02Adversarial(fmt.Sprintf("adversarial_%d", i), r, i, rep.AdvHist)
			cases = append(cases, c)
			mergePrefix(p)
			rep.SourceHist["adversarial"]++
		}
		for i := 0; i < *nrand; i++ {
			r := rand.New(rand.NewSource(*seed*1000003 + int64(i)))
			w := NewWorld(world[0], world[1], world[2])
			c, p := c02RunHistory(fmt.Sprintf("random_%d", i), world, genHistory(r, w, *nblocks, *txPer), 1+i%2)
			cases = append(cases, c)
			mergePrefix(p)
			rep.SourceHist["random"]++
		}
	}

	seen := map[string]bool{}
	unk, bad := map[string]bool{}, map[string]bool{}
	for _, c := range cases {
		rep.Cases++
		rep.Steps += len(c.Steps)
		n := len(c.Gen)
		for _, s := range c.Steps {
			n += len(s.Upd)
			switch s.Kind {
			case 0:
				rep.Blocks++
			case 1:
				rep.Txs++
				rep.KindHist[s.Type]++
				forged := strings.Contains(s.Descr, "signed by the attacker") || strings.Contains(s.Descr, "signed by that other account") ||
					strings.HasPrefix(s.Descr, "sigslot") || strings.Contains(s.Descr, "foreign From") || strings.Contains(s.Descr, "slot 0 = victim")
				switch {
				case !s.Checked:
					rep.Mempool["delivered_without_checktx"]++
					if forged {
						rep.Mempool["forged_delivered_without_checktx"]++
					}
				default:
					rep.Mempool["checked_then_delivered"]++
					if s.CheckGap > 0 {
						rep.Mempool["checked_then_delivered_after_an_unrelated_block"]++
					}
					if !s.CheckOK {
						rep.Mempool["refused_by_checktx_then_delivered"]++
						if s.OK {
							rep.Mempool["refused_by_checktx_but_executed_in_the_block"]++
						}
					}
					if forged {
						rep.Mempool["forged_checked_then_delivered"]++
						if s.CheckGap > 0 {
							rep.Mempool["forged_checked_then_delivered_after_an_unrelated_block"]++
						}
					}
				}
				if s.OK {
					rep.TxOK++
					rep.OutHist[s.Type+":ok"]++
				} else {
					rep.TxFail++
					rep.OutHist[s.Type+":fail"]++
				}
			}
			if s.Model != "" {
				rep.Modelled++
				t := s.Type
				if s.Kind == 0 {
					t = "BeginBlock"
				} else if s.Kind == 2 {
					t = "EndBlock"
				}
				rep.ModelHist[t]++
			}
		}
		if n > rep.Records {
			rep.Records = n
		}
		if len(c.Owners) > rep.Owners {
			rep.Owners = len(c.Owners)
		}
		for _, k := range c.Unknown {
			unk[k] = true
		}
		for _, k := range c.Bad {
			bad[k] = true
		}
		if c.Crashed != "" {
			rep.Crashed = append(rep.Crashed, c.Spec.Name+": "+c.Crashed)
		}
		seen[jsonString(c.Spec.Blocks)] = true
	}
	rep.Distinct = len(seen)
	for k := range unk {
		rep.Unknown = append(rep.Unknown, fmt.Sprintf("%q", k))
	}
	sort.Strings(rep.Unknown)
	for k := range bad {
		rep.Bad = append(rep.Bad, fmt.Sprintf("%q", k))
	}
	sort.Strings(rep.Bad)

	for s := 0; s*(*shard) < len(cases); s++ {
		lo, hi := s*(*shard), (s+1)*(*shard)
		if hi > len(cases) {
			hi = len(cases)
		}
		var b bytes.Buffer
		b.WriteString("From stdpp Require Import gmap list.\nFrom Coq Require Import ZArith NArith.\n")
		b.WriteString("From OL Require Import theories.Ledger theories.LedgerTx theories.LedgerCheck.\nLocal Open Scope Z_scope.\n")
		b.WriteString("Definition cases : list case := [\n")
		for i := lo; i < hi; i++ {
			b.WriteString(c02CoqCase(cases[i]))
			if i+1 < hi {
				b.WriteString(";\n")
			}
		}
		b.WriteString("].\n")
		fmt.Fprintf(&b, "Definition MON := Eval vm_compute in monitor_all %d cases.\n", lo)
		fmt.Fprintf(&b, "Definition CORR := Eval vm_compute in corr_all %d cases.\n", lo)
		b.WriteString("Definition TR := Eval vm_compute in flat_map case_triggers cases.\n")
		b.WriteString("Print MON.\nPrint CORR.\nPrint TR.\n")
		name := fmt.Sprintf("%s/c02_cases_%d.v", *outDir, s)
		if err := os.WriteFile(name, b.Bytes(), 0644); err != nil {
			fmt.Fprintln(os.Stderr, err)
			return 2
		}
		rep.Files = append(rep.Files, name)
	}
	for i := 0; i < len(cases) && len(rep.Samples) < 3; i += 1 + len(cases)/3 {
		c := cases[i]
		smp := map[string]interface{}{"name": c.Spec.Name, "blocks": len(c.Spec.Blocks), "steps": len(c.Steps), "owners": len(c.Owners), "genesis_records": len(c.Gen)}
		for _, s := range c.Steps {
			if s.Kind == 1 && s.OK {
				smp["first_successful_tx"] = map[string]interface{}{"type": s.Type, "descr": s.Descr, "changed_records": s.Upd, "authority": s.Auth}
				break
			}
		}
		rep.Samples = append(rep.Samples, jsonString(smp))
	}
	all, _ := json.Marshal(cases)
	_ = os.WriteFile(*outDir+"/c02_cases.json", all, 0644)
	bz, _ := json.MarshalIndent(rep, "", " ")
	_ = os.WriteFile(*outDir+"/c02_report.json", bz, 0644)
	say("c02: %d cases, %d blocks, %d txs (%d ok, %d fail), %d modelled steps, %d unknown keys\n", rep.Cases, rep.Blocks, rep.Txs, rep.TxOK, rep.TxFail, rep.Modelled, len(rep.Unknown))
	return 0
}
