package main

// C13: block rewards.  Three drivers of the REAL code:
//   chains : a real app.App (Replica) run block by block with generated validator sets, votes,
//            delegation pools, block times, transactions and restarts; per block the pre-state
//            and what BeginBlock did to the rwz_/rwcum_/delegRwz_ records are recorded;
//   pcases : rewards.RewardCumulativeStore (PullRewards/ConsumeRewards) over a MemDB state and a
//            real tendermint block store holding generated header times, warm and cold twins;
//   qcases : AddMaturedBalance / WithdrawRewards operation sequences on the same store.
// Everything recorded goes into c13_cases_<i>.v for the Coq model (theories/RewardsCheck.v).

import (
	"encoding/base64"
	"encoding/json"
	"flag"
	"fmt"
	"math/big"
	"math/rand"
	"os"
	"path/filepath"
	"sort"
	"strconv"
	"strings"
	"time"

	"github.com/Oneledger/protocol/consensus"
	"github.com/Oneledger/protocol/data/balance"
	"github.com/Oneledger/protocol/data/keys"
	netdata "github.com/Oneledger/protocol/data/network_delegation"
	"github.com/Oneledger/protocol/data/rewards"
	"github.com/Oneledger/protocol/storage"
	abci "github.com/tendermint/tendermint/abci/types"
	"github.com/tendermint/tendermint/store"
	tmtypes "github.com/tendermint/tendermint/types"
	tmdb "github.com/tendermint/tm-db"
)

func init() { subcmds["c13"] = c13Main }

type c13Opts struct {
	Cycle, Est, Window int64
	Shares             []string
	Burnout            string
	Interval           int64
}

type c13Year struct {
	Close      int64
	Dist, Till string
}

type c13Vote struct {
	Addr   int
	Power  int64
	Signed bool
	Known  bool
}

type c13Blk struct {
	H          int64
	Restart    bool
	T1, Tb, Te int64
	Years      []c13Year
	Pool       string
	Votes      []c13Vote
	Dp         string
	Delegs     [][2]string // address id, amount
	Prop       int
	Chunks     [][][2]string // per reward address: its latest chunks (index, value) before the block
	Ivs        [][2]int64    // interval records (ri_) before the block
	PullOk     bool
	Pull       string
	ColdOk     bool
	Cold       string
	ObYears    [][2]string
	ObConsumed string
	ObVals     []string
	ObDelegs   []string
	ObMatured  []string
	Txs        []string // descriptions (not part of the model input)
	TxCodes    []uint32
	AppHash    string
	WTxs       []c13WTx // WITHDRAW_REWARD transactions of the block, with the records around them
	// sum of the deltas of ALL delegRwz_balance_* records in BeginBlock (also of addresses that are
	// not in the active table): what the delegators were really credited
	ObDelegTotal string
	CheckOnly    []string // transactions only CheckTx'ed at the end of the block (descriptions)
	ObIdx        []int64  // per vote: index of the chunk that changed in BeginBlock (0 none, -1 several)
	ObCred       []string // per reward address, after the block: sum of all its chunks
	ObMat        []string // per reward address, after the block: rwcum balance + withdrawn
	ObTdist      string
	// export (RewardMasterStore.DumpState) taken after this block was committed; the chain is then
	// relaunched from a genesis holding the exported rewards state
	DumpV, DumpIndex, DumpHeight int64
}

// one WITHDRAW_REWARD transaction on the real app: amount field as sent (whole OLT), the validator's
// cumulative records and the rewards pool right before it, CheckTx / DeliverTx verdicts, records after
type c13WTx struct {
	Value     string
	Bal, Wd   string
	Pool      string
	CheckOk   bool
	DeliverOk bool
	Bal2, Wd2 string
}

// corpus values injected as WITHDRAW_REWARD amounts into the first blocks of every chain
var c13CorpusWValues []string

type c13Chain struct {
	Index  int
	Opts   c13Opts
	Descr  string
	Blocks []c13Blk
}

type c13PStep struct {
	H        int64
	Restart  bool
	Pool     string
	Frac     int // ConsumeRewards is called with pulled*Frac/8
	Consumed string
	WarmOk   bool
	Warm     string
	ColdOk   bool
	Cold     string
	Years    [][2]string
}

type c13PCase struct {
	Index  int
	Opts   c13Opts
	Times  []int64
	Closes []int64
	Steps  []c13PStep
	Descr  string
}

type c13QOp struct {
	Kind   string // add | withdraw
	Addr   int
	Amount string
	Pre    string
	Ok     bool
	Bal    string
	Wd     string
	Total  string
}

type c13QCase struct {
	Index int
	Ops   []c13QOp
}

// ---------- helpers ----------

// Coq Z literal; large numbers in hexadecimal (Coq converts hex numerals much faster)
func c13Z(s string) string {
	neg := strings.HasPrefix(s, "-")
	if len(s) >= 10 {
		s = "0x" + new(big.Int).Abs(c13Big(s)).Text(16)
		if neg {
			s = "-" + s
		}
	}
	if neg {
		return "(" + s + ")"
	}
	return s
}
func c13ZI(i int64) string { return c13Z(strconv.FormatInt(i, 10)) }
func c13B(b bool) string {
	if b {
		return "true"
	}
	return "false"
}
func c13List(xs []string) string { return "[" + strings.Join(xs, "; ") + "]" }
func c13ZList(xs []string) string {
	ys := make([]string, len(xs))
	for i, x := range xs {
		ys[i] = c13Z(x)
	}
	return c13List(ys)
}

func c13Big(s string) *big.Int {
	b, ok := new(big.Int).SetString(s, 10)
	if !ok {
		panic("c13: bad integer " + s)
	}
	return b
}
func c13Sub(a, b string) string { return new(big.Int).Sub(c13Big(a), c13Big(b)).String() }

// value of an Amount record ("\"123\"") in a state view; absent = 0
func c13Amt(view map[string]string, key string) string {
	v, ok := view[key]
	if !ok || v == "" {
		return "0"
	}
	var s string
	if err := json.Unmarshal([]byte(v), &s); err != nil {
		panic("c13: cannot decode amount at " + key + ": " + v)
	}
	return s
}

func c13CoinAmt(v string) string {
	var c struct {
		Amount string `json:"amount"`
	}
	must(json.Unmarshal([]byte(v), &c))
	bz, err := base64.StdEncoding.DecodeString(c.Amount)
	if err != nil {
		return c.Amount
	}
	var s string
	if err := json.Unmarshal(bz, &s); err != nil {
		return string(bz)
	}
	return s
}

func c13Years(raw string) (ys []c13Year, ok bool) {
	if raw == "" {
		return nil, false
	}
	var ry rewards.RewardYears
	if err := json.Unmarshal([]byte(raw), &ry); err != nil {
		panic("c13: cannot decode ydist: " + err.Error())
	}
	for _, y := range ry.Years {
		ys = append(ys, c13Year{Close: y.CloseTime.UnixNano(), Dist: y.Distributed.String(), Till: y.TillLastCycle.String()})
	}
	return ys, true
}

func c13RewardOptions(o c13Opts) *rewards.Options {
	ro := &rewards.Options{RewardInterval: o.Interval, RewardPoolAddress: "rewardpool", RewardCurrency: "OLT",
		EstimatedSecondsPerCycle: o.Est, BlockSpeedCalculateCycle: o.Cycle, YearCloseWindow: o.Window, BurnoutRate: *amt(o.Burnout)}
	for _, s := range o.Shares {
		ro.YearBlockRewardShares = append(ro.YearBlockRewardShares, *amt(s))
	}
	return ro
}

// a real RewardCumulativeStore over its own MemDB state, reading header times from bs
type c13Side struct {
	st  *storage.State
	cum *rewards.RewardCumulativeStore
}

func c13NewSide(ro *rewards.Options, bs *store.BlockStore) *c13Side {
	st := storage.NewState(storage.NewChainState("c13side", tmdb.NewMemDB()))
	cum := rewards.NewRewardCumulativeStore("rwcum", st)
	cum.SetOptions(ro)
	cum.Init(bs)
	return &c13Side{st, cum}
}

func (s *c13Side) pull(ydist string, h int64, pool string) (ok bool, a string) {
	if ydist != "" {
		must(s.st.Set(storage.StoreKey("rwcum_ydist"), []byte(ydist)))
	}
	defer func() {
		if r := recover(); r != nil {
			ok, a = false, "0"
		}
	}()
	amount, err := s.cum.PullRewards(h, amt(pool))
	if err != nil {
		return false, "0"
	}
	return true, amount.String()
}

func c13SaveBlock(bs *store.BlockStore, chainID string, h int64, t time.Time) {
	if bs.Height() >= h {
		return
	}
	blk := tmtypes.MakeBlock(h, nil, &tmtypes.Commit{Height: h - 1}, nil)
	blk.Header.Time = t
	blk.Header.ChainID = chainID
	ps := blk.MakePartSet(65536)
	bs.SaveBlock(blk, ps, &tmtypes.Commit{Height: h, BlockID: tmtypes.BlockID{Hash: blk.Hash(), PartsHeader: ps.Header()}})
}

// chunks of one reward address in a view: index -> value
func c13ChunksOf(view map[string]string, addr string) map[int64]string {
	m := map[int64]string{}
	pfx := "rwz_" + addr + "_"
	for k := range view {
		if strings.HasPrefix(k, pfx) {
			if i, err := strconv.ParseInt(k[len(pfx):], 10, 64); err == nil {
				m[i] = c13Amt(view, k)
			}
		}
	}
	return m
}

// the real export: RewardMasterStore.DumpState over the committed chain state (what olfullnode
// save_state does), written and read back as JSON like a genesis file
func c13Export(rep *Replica, ro *rewards.Options) rewards.RewardMasterState {
	cs := rep.A.VerifChainState()
	rw := rewards.NewRewardStore("rwz", "ri", "rwaddr", storage.NewState(cs))
	cm := rewards.NewRewardCumulativeStore("rwcum", storage.NewState(cs))
	m := rewards.NewRewardMasterStore(rw, cm)
	m.SetOptions(ro)
	cm.Init(rep.BS)
	st, ok := m.DumpState()
	if !ok {
		panic("c13-harness: DumpState failed")
	}
	bz, err := json.Marshal(st)
	must(err)
	var back rewards.RewardMasterState
	must(json.Unmarshal(bz, &back))
	return back
}

// ---------- whole-app chains ----------

// Replica.Crash copies the data directory while goleveldb may still be compacting in the
// background (files vanish during the copy); retry until a consistent copy succeeds.
func c13Restart(rep *Replica) {
	var last interface{}
	for i := 0; i < 200; i++ {
		ok := func() (ok bool) {
			defer func() {
				if rr := recover(); rr != nil {
					ok, last = false, rr
				}
			}()
			rep.Crash()
			return true
		}()
		if ok {
			return
		}
		time.Sleep(time.Duration(10+5*i) * time.Millisecond)
	}
	panic(fmt.Sprintf("c13-harness: cannot copy the data directory for a restart: %v", last))
}


type c13Ids struct {
	m    map[string]int
	list []string
}

func (t *c13Ids) id(a string) int {
	if i, ok := t.m[a]; ok {
		return i
	}
	i := len(t.list) + 1
	t.m[a] = i
	t.list = append(t.list, a)
	return i
}

var c13PoolAddr = keys.Address(netdata.DELEGATION_POOL_KEY)
var c13RewardPool = keys.Address("rewardpool")

// honest mode (-honest): devnet reward options (cycle 100, 5 reward years) and ordinary block times
var c13Honest bool

func c13PickDT(r *rand.Rand, mode int) time.Duration {
	switch mode {
	case 7: // one block every five days (73 blocks per reward year)
		return 5 * 24 * time.Hour
	case 8: // one block a day (a whole reward year in 365 blocks)
		return 24 * time.Hour
	case 9: // an ordinary chain: about 15 s per block
		return 14*time.Second + time.Duration(r.Intn(2000))*time.Millisecond
	case 0: // regular
		return 15 * time.Second
	case 1: // irregular seconds, with sub-second parts inside the float guard
		return time.Duration(1+r.Intn(100))*time.Second + time.Duration(r.Intn(999))*time.Millisecond
	case 2: // hours to months
		switch r.Intn(5) {
		case 0:
			return time.Duration(1+r.Intn(48)) * time.Hour
		case 1:
			return time.Duration(1+r.Intn(60)) * 24 * time.Hour
		case 2:
			return time.Duration(100+r.Intn(300)) * 24 * time.Hour
		default:
			return time.Duration(5+r.Intn(3000)) * time.Second
		}
	case 3: // sub-second blocks (zero-length cycles possible)
		if r.Intn(4) == 0 {
			return time.Duration(1+r.Intn(3)) * time.Second
		}
		return time.Duration(1+r.Intn(400)) * time.Millisecond
	default: // mixture
		return c13PickDT(r, r.Intn(4))
	}
}

func c13GenOpts(r *rand.Rand) c13Opts {
	o := c13Opts{}
	o.Cycle = []int64{1, 2, 3, 4, 5, 7, 10}[r.Intn(7)]
	o.Interval = []int64{1, 2, 3, 5}[r.Intn(4)]
	o.Est = []int64{1, 15, 60, 1728, 100000}[r.Intn(5)] * o.Cycle
	o.Window = []int64{3600, 86400, 1000000, 1}[r.Intn(4)]
	ny := 1 + r.Intn(3)
	for i := 0; i < ny; i++ {
		o.Shares = append(o.Shares, []string{"70000000000000000000000000", "1000000000000000000000", "999", "123456789012345678901234567", "0"}[r.Intn(5)])
	}
	o.Burnout = []string{"5000000000000000000", "0", "1", "2000000000000000000000000", "77"}[r.Intn(5)]
	return o
}

// network delegation amounts are given in base units: whole OLT need 18 more digits
const c13E18 = "000000000000000000"

func c13RunChain(seed int64, idx int, nblocks int) c13Chain { return c13RunChainS(seed, idx, nblocks, 0) }

// scenario 0: generated history.  Directed witnesses (corpus/C13.json "directed_chains"):
// scenario 1: delegate 1000 OLT (height 3), undelegate 900 OLT (height 4, the last delegation-store
//             transaction before the following BeginBlocks), then empty blocks;
// scenario 2: delegate 1000 OLT (height 3); at height 4 an undelegate of 900 OLT is only CheckTx'ed.
func c13RunChainS(seed int64, idx int, nblocks int, scenario int) c13Chain {
	r := rand.New(rand.NewSource(seed*1000003 + int64(idx)))
	ch := c13Chain{Index: idx}
	o := c13GenOpts(r)
	if c13Honest || scenario > 0 {
		o = c13Opts{Cycle: 100, Est: 1728, Window: 86400, Interval: []int64{5, 150}[r.Intn(2)], Burnout: "5000000000000000000",
			Shares: []string{"70000000000000000000000000", "70000000000000000000000000", "40000000000000000000000000", "40000000000000000000000000", "30000000000000000000000000"}}
	}
	ch.Opts = o
	ro := c13RewardOptions(o)
	nv := 1 + r.Intn(8)
	if scenario > 0 {
		nv = 2
	}
	w := NewWorld(nv, 4, 2)
	powMode := r.Intn(3)
	if scenario > 0 {
		powMode = 3
	}
	for i := range w.Vals {
		switch powMode {
		case 0:
			w.Vals[i].Power = 1000000
		case 3:
			w.Vals[i].Power = 1000
		case 1:
			w.Vals[i].Power = int64(1000 + r.Intn(5000000))
		default:
			w.Vals[i].Power = []int64{1000, 1001, 999999, 4000000, 123457}[r.Intn(5)]
		}
	}
	g := w.Genesis()
	delegMode := r.Intn(5) // 0 none, 1 tiny, 2 huge, 3 medium, 4 pool balance without delegators
	rewardPoolAmt := []string{"1000000000000000000000000", "3000000000000000000", "5", "0"}[r.Intn(4)]
	dtMode := r.Intn(5)
	if c13Honest {
		dtMode, rewardPoolAmt = 9, "1000000000000000000000000"
	}
	// chains with network-delegation traffic: large delegations, large undelegations as the last
	// delegation-store transaction of a block, undelegations that are only CheckTx'ed
	delegTraffic := r.Intn(2) == 0
	if scenario > 0 {
		delegMode, dtMode, rewardPoolAmt, delegTraffic = 0, 0, "1000000000000000000000000", false
	}
	// export / import: the rewards state is exported after block `relaunchAt` (version V) and a NEW chain
	// is started from a genesis holding it (InitChain -> LoadState); V is a multiple of the reward
	// interval, one off, or arbitrary.  scenario 3 = the directed witness (interval 5, V = 10).
	relaunchAt := int64(-1)
	if scenario == 0 && !c13Honest && r.Intn(3) == 0 {
		o.Interval = []int64{2, 3, 5, 10}[r.Intn(4)]
		switch r.Intn(4) {
		case 0, 1:
			relaunchAt = int64(1+r.Intn(3)) * o.Interval
		case 2:
			relaunchAt = int64(1+r.Intn(3))*o.Interval + int64(r.Intn(3)) - 1
		default:
			relaunchAt = int64(2 + r.Intn(14))
		}
		delegTraffic = false
	}
	if scenario == 3 {
		o.Interval, relaunchAt = 5, 10
	}
	if scenario == 5 || scenario == 6 {
		// all signers absent (zero consumption) exactly at the last block of a cycle: in ordinary cycles
		// (5: 15 s blocks) and in the last cycles of a reward year (6: one block every 5 days, 73 per year)
		o = c13Opts{Cycle: 5, Est: 75, Window: 86400, Interval: 5, Burnout: "5000000000000000000", Shares: []string{"3650000" + c13E18, "1000000" + c13E18}}
		if scenario == 6 {
			o.Est = 5 * 5 * 86400
			dtMode = 7
		}
		ch.Opts = o
		ro = c13RewardOptions(o)
	}
	if scenario == 4 {
		// a whole SHORT reward year with a non-empty delegation pool: one block a day, cycle 10, a single
		// year of 3.65M OLT, pool = the validators' power (2000 OLT, one delegator)
		o = c13Opts{Cycle: 10, Est: 864000, Window: 86400, Interval: 5, Burnout: "5000000000000000000", Shares: []string{"3650000" + c13E18}}
		ch.Opts = o
		ro = c13RewardOptions(o)
		delegMode, dtMode = 5, 8
	}
	if relaunchAt > 0 {
		if relaunchAt < 2 {
			relaunchAt = 2
		}
		ch.Opts = o
		ro = c13RewardOptions(o)
		nblocks = int(relaunchAt + 4*o.Interval + 6)
	}
	activeOLT := map[int]int64{} // user -> OLT delegated by delivered transactions of this run
	ch.Descr = fmt.Sprintf("scenario=%d delegTraffic=%v relaunchAt=%d ", scenario, delegTraffic, relaunchAt) + fmt.Sprintf("vals=%d powMode=%d delegMode=%d dtMode=%d rewardPool=%s", nv, powMode, delegMode, dtMode, rewardPoolAmt)
	g.Customize = func(st *consensus.AppState) {
		st.Governance.RewardOptions = *ro
		st.Governance.StakingOptions.TopValidatorCount = 8
		st.Balances[0].Amount = *amt(rewardPoolAmt)
		total := big.NewInt(0)
		add := func(u Key, a string) {
			ad := u.Addr
			c := OLT.NewCoinFromAmount(*amt(a))
			st.NetDelegators.ActiveList = append(st.NetDelegators.ActiveList, netdata.Delegator{Address: &ad, Amount: &c})
			total.Add(total, c13Big(a))
		}
		switch delegMode {
		case 5:
			add(w.Users[0], "2000"+c13E18)
		case 1:
			for i := 0; i < 1+r.Intn(3); i++ {
				add(w.Users[i], []string{"1", "2", "3", "7"}[r.Intn(4)])
			}
		case 2:
			for i := 0; i < 1+r.Intn(4); i++ {
				add(w.Users[i], []string{"1000000000000000000000000000000", "1", "999999999999999999999999999999999"}[r.Intn(3)])
			}
		case 3:
			for i := 0; i < 1+r.Intn(4); i++ {
				add(w.Users[i], strconv.Itoa(1+r.Intn(2000000))+"000000000000000000")
			}
		case 4:
			total.SetString("500000000000000000000000", 10)
		}
		if delegMode == 3 && r.Intn(2) == 0 {
			total.Add(total, big.NewInt(int64(r.Intn(1000)))) // pool slightly above the sum of the table
		}
		if total.Sign() > 0 {
			st.Balances = append(st.Balances, consensus.BalanceState{Address: c13PoolAddr, Currency: "OLT", Amount: *amt(total.String())})
		}
	}
	rep := NewReplica(g, ReplicaOpts{NodeVal: w.Vals[0].Val})
	defer func() { rep.Close() }()
	rep.InitChain()
	relaunched := false

	ids := &c13Ids{m: map[string]int{}}
	times := map[int64]time.Time{}
	t := rep.T0
	shadow := c13NewSide(ro, rep.BS)
	nonce := 0
	memo := func() string { nonce++; return fmt.Sprintf("c13m%d", nonce) }
	for b := 0; b < nblocks; b++ {
		h := rep.H + 1
		t = t.Add(c13PickDT(r, dtMode))
		times[h] = t
		blk := c13Blk{H: h}
		if relaunched && h == 1 {
			blk.Restart = true // a new process: the calculator cache is cold
		}
		if scenario == 0 && relaunchAt < 0 && b > 0 && r.Intn(9) == 0 {
			c13Restart(rep) // process restart from the on-disk data (block boundary)
			shadow = c13NewSide(ro, rep.BS)
			blk.Restart = true
		}
		in := BlockIn{Absent: map[int]bool{}}
		nprev := 0
		if h > 1 {
			nprev = len(rep.valSet(h - 1).Validators)
		}
		switch r.Intn(5) {
		case 0:
			for i := 0; i < nprev; i++ {
				if r.Intn(2) == 0 {
					in.Absent[i] = true
				}
			}
		case 1:
			if nprev > 0 {
				in.Absent[r.Intn(nprev)] = true
			}
		case 2:
			if r.Intn(4) == 0 {
				for i := 0; i < nprev; i++ {
					in.Absent[i] = true
				}
			}
		}
		// transactions of this block
		wmeta := map[int][2]string{} // tx index -> (validator address, amount) of WITHDRAW_REWARD transactions
		dmeta := map[int][2]int64{}  // tx index -> (user, signed OLT) of the large delegate/undelegate transactions
		var checkOnly [][]byte       // transactions that are only CheckTx'ed at the end of the block
		ntx := r.Intn(3)
		if scenario > 0 {
			ntx = 0
			for i := range in.Absent {
				delete(in.Absent, i)
			}
		}
		if scenario == 0 && h%o.Cycle == 0 && r.Intn(3) == 0 {
			for i := 0; i < nprev; i++ {
				in.Absent[i] = true // zero consumption at the last block of a cycle
			}
		}
		if (scenario == 5 && (h == 10 || h == 20)) || (scenario == 6 && (h == 30 || h == 60 || h == 65 || h == 70)) {
			for i := 0; i < nprev; i++ {
				in.Absent[i] = true
			}
		}
		if relaunched && nprev > 1 && h >= 3 {
			// after the import one validator stops signing, so that everything it earned matures
			for i := range in.Absent {
				delete(in.Absent, i)
			}
			in.Absent[nprev-1] = true
		}
		for i := 0; i < ntx; i++ {
			kind := r.Intn(7)
			if relaunchAt > 0 {
				kind = 5 // only reward withdrawals: the validator set stays as in the genesis
			}
			switch kind {
			case 0, 1:
				v := w.Vals[r.Intn(len(w.Vals))]
				a := []string{"1", "1500", "50000", "2000000"}[r.Intn(4)]
				in.Txs = append(in.Txs, txStake(v, oltAmt(a), memo()))
				blk.Txs = append(blk.Txs, "stake "+a)
			case 2:
				v := w.Extra[r.Intn(len(w.Extra))]
				a := []string{"1500", "3000000"}[r.Intn(2)]
				in.Txs = append(in.Txs, txStake(v, oltAmt(a), memo()))
				blk.Txs = append(blk.Txs, "stake-extra "+a)
			case 3:
				a := []string{"1", "7", "1000", "250000"}[r.Intn(4)]
				in.Txs = append(in.Txs, txDelegate(w.Users[r.Intn(len(w.Users))], oltAmt(a), memo()))
				blk.Txs = append(blk.Txs, "delegate "+a)
			case 4:
				a := []string{"1", "7", "1000"}[r.Intn(3)]
				in.Txs = append(in.Txs, txUndelegate(w.Users[r.Intn(len(w.Users))], oltAmt(a), memo()))
				blk.Txs = append(blk.Txs, "undelegate "+a)
			case 5, 6:
				v := w.Vals[r.Intn(len(w.Vals))]
				// negative amounts (45cfd0d) and amounts outside int64 (ed95e98) must be refused
				a := []string{"1", "3", "100", "100000000", "-2", "0", "-9223372036854775808", "18446744073709551614", "9223372036854775808"}[r.Intn(9)]
				in.Txs = append(in.Txs, txWithdrawReward(v, oltAmt(a), memo()))
				blk.Txs = append(blk.Txs, "withdraw-reward "+a)
				wmeta[len(in.Txs)-1] = [2]string{v.Val.Addr.String(), a}
			}
		}
		switch {
		case scenario > 0 && scenario < 4 && b == 2:
			in.Txs = append(in.Txs, txDelegate(w.Users[0], oltAmt("1000"+c13E18), memo()))
			blk.Txs = append(blk.Txs, "delegate 1000")
			dmeta[len(in.Txs)-1] = [2]int64{0, 1000}
		case scenario == 1 && b == 3:
			in.Txs = append(in.Txs, txUndelegate(w.Users[0], oltAmt("900"+c13E18), memo()))
			blk.Txs = append(blk.Txs, "undelegate 900")
			dmeta[len(in.Txs)-1] = [2]int64{0, -900}
		case scenario == 2 && b == 3:
			checkOnly = append(checkOnly, txUndelegate(w.Users[0], oltAmt("900"+c13E18), memo()))
			blk.CheckOnly = append(blk.CheckOnly, "checkonly-undelegate 900")
		}
		if delegTraffic {
			u := r.Intn(len(w.Users))
			switch r.Intn(6) {
			case 0, 1:
				a := []int64{1000, 250000, 40}[r.Intn(3)]
				in.Txs = append(in.Txs, txDelegate(w.Users[u], oltAmt(strconv.FormatInt(a, 10)+c13E18), memo()))
				blk.Txs = append(blk.Txs, fmt.Sprintf("delegate %d", a))
				dmeta[len(in.Txs)-1] = [2]int64{int64(u), a}
			case 2, 3:
				if activeOLT[u] >= 10 { // most of what the user has, as the LAST delegation-store transaction
					a := activeOLT[u] * int64(5+r.Intn(5)) / 10
					in.Txs = append(in.Txs, txUndelegate(w.Users[u], oltAmt(strconv.FormatInt(a, 10)+c13E18), memo()))
					blk.Txs = append(blk.Txs, fmt.Sprintf("undelegate %d", a))
					dmeta[len(in.Txs)-1] = [2]int64{int64(u), -a}
				}
			case 4:
				if activeOLT[u] >= 10 {
					checkOnly = append(checkOnly, txUndelegate(w.Users[u], oltAmt(strconv.FormatInt(activeOLT[u]*9/10, 10)+c13E18), memo()))
					blk.CheckOnly = append(blk.CheckOnly, fmt.Sprintf("checkonly-undelegate %d", activeOLT[u]*9/10))
				}
			}
		}
		if scenario == 0 && b >= 7 && b-7 < len(c13CorpusWValues) {
			v := w.Vals[0]
			a := c13CorpusWValues[b-7]
			in.Txs = append(in.Txs, txWithdrawReward(v, oltAmt(a), memo()))
			blk.Txs = append(blk.Txs, "withdraw-reward "+a)
			wmeta[len(in.Txs)-1] = [2]string{v.Val.Addr.String(), a}
		}

		// ---- pre-state, side pulls, BeginBlock, post-state ----
		pre := rep.View()
		c13SaveBlock(rep.BS, rep.Chain, h, t)
		ydist := pre["rwcum_ydist"]
		pool := c13Amt(pre, "b_"+c13RewardPool.String()+"_OLT")
		blk.Pool = pool
		blk.PullOk, blk.Pull = shadow.pull(ydist, h, pool)
		coldSide := c13NewSide(ro, rep.BS)
		blk.ColdOk, blk.Cold = coldSide.pull(ydist, h, pool)
		if ys, ok := c13Years(ydist); ok {
			blk.Years = ys
		} else {
			raw, _ := coldSide.st.Get(storage.StoreKey("rwcum_ydist"))
			blk.Years, _ = c13Years(string(raw))
		}
		blk.T1 = times[1].UnixNano()
		if h > o.Cycle {
			e := (h-1)/o.Cycle*o.Cycle + 1
			blk.Te, blk.Tb = times[e].UnixNano(), times[e-o.Cycle].UnixNano()
		}

		// BeginBlock with our own header time / proposer
		rep.Use()
		rep.H++
		votes := []abci.VoteInfo{}
		if h > 1 {
			for i, v := range rep.valSet(h - 1).Validators {
				votes = append(votes, abci.VoteInfo{Validator: abci.Validator{Address: v.Address, Power: v.VotingPower}, SignedLastBlock: !in.Absent[i]})
			}
		}
		cur := rep.valSet(h)
		proposer := cur.Validators[r.Intn(len(cur.Validators))].Address
		if r.Intn(10) == 0 {
			proposer = tmtypes.Address(seedKey(199).Addr) // nobody in the set
		}
		rep.AB.BeginBlock(abci.RequestBeginBlock{Hash: []byte{byte(h), byte(h >> 8), 1, 2}, Header: abci.Header{ChainID: rep.Chain, Height: h, Time: t, ProposerAddress: proposer},
			LastCommitInfo: abci.LastCommitInfo{Votes: votes}})
		rep.blockTxs, rep.blockRes = nil, nil
		rep.cur = &BlockResult{Height: h}
		post := rep.View()

		blk.Prop = ids.id(keys.Address(proposer).String())
		for _, v := range votes {
			a := keys.Address(v.Validator.Address)
			_, known := post["v_"+string(a.Bytes())]
			blk.Votes = append(blk.Votes, c13Vote{Addr: ids.id(a.String()), Power: v.Validator.Power, Signed: v.SignedLastBlock, Known: known})
			// what the address was credited: the deltas of ALL its chunks, and which chunk changed
			cpre, cpost := c13ChunksOf(pre, a.String()), c13ChunksOf(post, a.String())
			delta, changed := big.NewInt(0), int64(0)
			for i, v := range cpost {
				old := cpre[i]
				if old == "" {
					old = "0"
				}
				if d := c13Sub(v, old); d != "0" {
					delta.Add(delta, c13Big(d))
					if changed == 0 {
						changed = i
					} else {
						changed = -1
					}
				}
			}
			blk.ObVals = append(blk.ObVals, delta.String())
			blk.ObIdx = append(blk.ObIdx, changed)
		}
		blk.Dp = c13Amt(pre, "b_"+c13PoolAddr.String()+"_OLT")
		if c13Amt(post, "b_"+c13PoolAddr.String()+"_OLT") != blk.Dp {
			panic("c13: delegation pool balance changed inside BeginBlock")
		}
		for _, k := range sortedKeys(post) {
			if strings.HasPrefix(k, "deleg_a_") {
				a := strings.TrimPrefix(k, "deleg_a_")
				blk.Delegs = append(blk.Delegs, [2]string{strconv.Itoa(ids.id(a)), c13CoinAmt(post[k])})
				bk := "delegRwz_balance_" + a
				blk.ObDelegs = append(blk.ObDelegs, c13Sub(c13Amt(post, bk), c13Amt(pre, bk)))
			}
		}
		blk.ObDelegTotal = "0"
		seenBal := map[string]bool{}
		for _, view := range []map[string]string{pre, post} {
			for k := range view {
				if strings.HasPrefix(k, "delegRwz_balance_") && !seenBal[k] {
					seenBal[k] = true
					blk.ObDelegTotal = new(big.Int).Add(c13Big(blk.ObDelegTotal), c13Big(c13Sub(c13Amt(post, k), c13Amt(pre, k)))).String()
				}
			}
		}
		for _, k := range sortedKeys(post) {
			if strings.HasPrefix(k, "rwaddr_") {
				a := strings.TrimPrefix(k, "rwaddr_")
				cm := c13ChunksOf(pre, a)
				is := []int64{}
				for i := range cm {
					is = append(is, i)
				}
				sort.Slice(is, func(x, y int) bool { return is[x] > is[y] })
				cs := [][2]string{}
				for n, i := range is {
					if n < 6 {
						cs = append(cs, [2]string{strconv.FormatInt(i, 10), cm[i]})
					}
				}
				blk.Chunks = append(blk.Chunks, cs)
				blk.ObMatured = append(blk.ObMatured, c13Sub(c13Amt(post, "rwcum_balance_"+a), c13Amt(pre, "rwcum_balance_"+a)))
				cred := big.NewInt(0)
				for _, v := range c13ChunksOf(post, a) {
					cred.Add(cred, c13Big(v))
				}
				blk.ObCred = append(blk.ObCred, cred.String())
				blk.ObMat = append(blk.ObMat, new(big.Int).Add(c13Big(c13Amt(post, "rwcum_balance_"+a)), c13Big(c13Amt(post, "rwcum_withdrawn_"+a))).String())
			}
		}
		blk.ObConsumed = c13Sub(c13Amt(post, "rwcum_tdist"), c13Amt(pre, "rwcum_tdist"))
		blk.ObTdist = c13Amt(post, "rwcum_tdist")
		for _, k := range sortedKeys(pre) {
			if strings.HasPrefix(k, "ri_") {
				var iv rewards.Interval
				must(json.Unmarshal([]byte(pre[k]), &iv))
				blk.Ivs = append(blk.Ivs, [2]int64{iv.LastIndex, iv.LastHeight})
			}
		}
		if ys, ok := c13Years(post["rwcum_ydist"]); ok {
			for _, y := range ys {
				blk.ObYears = append(blk.ObYears, [2]string{y.Dist, y.Till})
			}
		}

		for i, tx := range in.Txs {
			wm, isW := wmeta[i]
			var wt c13WTx
			if isW {
				pv := rep.View()
				wt = c13WTx{Value: wm[1], Bal: c13Amt(pv, "rwcum_balance_"+wm[0]), Wd: c13Amt(pv, "rwcum_withdrawn_"+wm[0]),
					Pool: c13Amt(pv, "b_"+c13RewardPool.String()+"_OLT")}
				wt.CheckOk = rep.CheckTx(tx).Code == 0
			}
			res := rep.DeliverTx(tx)
			blk.TxCodes = append(blk.TxCodes, res.Code)
			if isW {
				av := rep.View()
				wt.DeliverOk = res.Code == 0
				wt.Bal2, wt.Wd2 = c13Amt(av, "rwcum_balance_"+wm[0]), c13Amt(av, "rwcum_withdrawn_"+wm[0])
				blk.WTxs = append(blk.WTxs, wt)
			}
			if dm, ok := dmeta[i]; ok && res.Code == 0 {
				activeOLT[int(dm[0])] += dm[1]
			}
		}
		for _, tx := range checkOnly {
			rep.CheckTx(tx) // mempool traffic that never makes it into a block
		}
		rep.EndBlock()
		blk.AppHash = rep.Commit()
		if relaunchAt > 0 && !relaunched && rep.H == relaunchAt {
			exp := c13Export(rep, ro)
			blk.DumpV = rep.H
			if len(exp.RewardState.Intervals) == 1 {
				blk.DumpIndex, blk.DumpHeight = exp.RewardState.Intervals[0].LastIndex, exp.RewardState.Intervals[0].LastHeight
			}
			rep.Close()
			g2 := w.Genesis()
			base := g.Customize
			g2.Customize = func(st *consensus.AppState) {
				base(st)
				st.Rewards = exp
			}
			rep = NewReplica(g2, ReplicaOpts{NodeVal: w.Vals[0].Val})
			rep.InitChain()
			shadow = c13NewSide(ro, rep.BS)
			times = map[int64]time.Time{}
			relaunched = true
		}
		ch.Blocks = append(ch.Blocks, blk)
	}
	return ch
}

// probe (question from the C02 slice): what does a WITHDRAW_REWARD transaction with a negative amount do?
func c13ProbeNegWithdraw() {
	w := NewWorld(1, 2, 0)
	g := w.Genesis()
	g.Customize = func(st *consensus.AppState) { st.Governance.RewardOptions.RewardInterval = 1 }
	rep := NewReplica(g, ReplicaOpts{NodeVal: w.Vals[0].Val})
	defer rep.Close()
	rep.InitChain()
	v := w.Vals[0]
	show := func(tag string) {
		d := rep.Dump()
		say("%-28s matured balance=%s withdrawn=%s rewardpool=%s signer=%s\n", tag, c13Amt(d, "rwcum_balance_"+v.Val.Addr.String()),
			c13Amt(d, "rwcum_withdrawn_"+v.Val.Addr.String()), c13Amt(d, "b_"+c13RewardPool.String()+"_OLT"), c13Amt(d, "b_"+v.Stake.Addr.String()+"_OLT"))
	}
	for i := 0; i < 6; i++ {
		rep.RunBlock(&BlockIn{})
	}
	show("after 6 blocks")
	for _, a := range []string{"-2", "1", "18446744073709551614", "9223372036854775808", "0"} {
		res := rep.RunBlock(&BlockIn{Txs: [][]byte{txWithdrawReward(v, oltAmt(a), "probe"+a)}})
		say("WITHDRAW_REWARD %s OLT: code=%d log=%.120s\n", a, res.Txs[0].Code, res.Txs[0].Log)
		show("  state after")
	}
}

// ---------- package-level calculator runs ----------

func c13GenPCase(seed int64, idx int, nblocks int) c13PCase {
	r := rand.New(rand.NewSource(seed*7000003 + int64(idx)))
	pc := c13PCase{Index: idx}
	o := c13GenOpts(r)
	if r.Intn(3) == 0 {
		o.Cycle = []int64{12, 25}[r.Intn(2)]
		o.Est = 15 * o.Cycle
	}
	pc.Opts = o
	dtMode := r.Intn(6)
	if dtMode == 5 {
		dtMode = 1
	}
	pc.Descr = fmt.Sprintf("dtMode=%d", dtMode)
	t := time.Unix(1600000000, 0).UTC().Add(time.Duration(r.Intn(400)) * 24 * time.Hour)
	poolMode := r.Intn(3)
	for h := int64(1); h <= int64(nblocks); h++ {
		t = t.Add(c13PickDT(r, dtMode))
		pc.Times = append(pc.Times, t.UnixNano())
		s := c13PStep{H: h, Restart: h > 1 && r.Intn(8) == 0, Frac: r.Intn(9)}
		s.Pool = []string{"1000000000000000000000000", "3000000000000000000", "0"}[poolMode]
		if r.Intn(6) == 0 {
			s.Pool = strconv.Itoa(r.Intn(100))
		}
		pc.Steps = append(pc.Steps, s)
	}
	return pc
}

// c13ExecPCase runs the real store on the inputs of pc (Opts, Times, per step H/Restart/Pool/Frac)
// and fills in the observations.
func c13ExecPCase(pc c13PCase) c13PCase {
	ro := c13RewardOptions(pc.Opts)
	bs := store.NewBlockStore(tmdb.NewMemDB())
	for i, ns := range pc.Times {
		c13SaveBlock(bs, "c13", int64(i+1), time.Unix(0, ns).UTC())
	}
	st := storage.NewState(storage.NewChainState("c13p", tmdb.NewMemDB()))
	mk := func() *rewards.RewardCumulativeStore {
		cum := rewards.NewRewardCumulativeStore("rwcum", st)
		cum.SetOptions(ro)
		cum.Init(bs)
		return cum
	}
	pull := func(cum *rewards.RewardCumulativeStore, h int64, pool string) (ok bool, a *balance.Amount) {
		defer func() {
			if rr := recover(); rr != nil {
				ok, a = false, nil
			}
		}()
		amount, err := cum.PullRewards(h, amt(pool))
		if err != nil {
			return false, nil
		}
		return true, amount
	}
	warm := mk()
	pc.Closes = nil
	for i := range pc.Steps {
		s := &pc.Steps[i]
		h := s.H
		if s.Restart {
			warm = mk()
		}
		wok, wa := pull(warm, h, s.Pool)
		if i == 0 {
			ry, err := warm.GetYearDistributedRewards()
			must(err)
			for _, y := range ry.Years {
				pc.Closes = append(pc.Closes, y.CloseTime.UnixNano())
			}
		}
		cok, ca := pull(mk(), h, s.Pool)
		s.WarmOk, s.ColdOk, s.Warm, s.Cold = wok, cok, "0", "0"
		if wok {
			s.Warm = wa.String()
		}
		if cok {
			s.Cold = ca.String()
		}
		s.Consumed = "0"
		if wok {
			// what handleBlockRewards passes: some part of the pulled amount
			c := new(big.Int).Mul(wa.BigInt(), big.NewInt(int64(s.Frac)))
			c.Quo(c, big.NewInt(8))
			s.Consumed = c.String()
			func() {
				defer func() { recover() }()
				_ = warm.ConsumeRewards(balance.NewAmountFromBigInt(c))
			}()
		}
		ry, err := warm.GetYearDistributedRewards()
		must(err)
		s.Years = nil
		for _, y := range ry.Years {
			s.Years = append(s.Years, [2]string{y.Distributed.String(), y.TillLastCycle.String()})
		}
	}
	return pc
}

func c13RunPCase(seed int64, idx int, nblocks int) c13PCase {
	return c13ExecPCase(c13GenPCase(seed, idx, nblocks))
}

// ---------- package-level cumulative sequences ----------

func c13RunQCase(seed int64, idx int, nops int) c13QCase {
	r := rand.New(rand.NewSource(seed*9000011 + int64(idx)))
	qc := c13QCase{Index: idx}
	st := storage.NewState(storage.NewChainState("c13q", tmdb.NewMemDB()))
	cum := rewards.NewRewardCumulativeStore("rwcum", st)
	addrs := []keys.Address{seedKey(1).Addr, seedKey(2).Addr, seedKey(3).Addr}
	amounts := []string{"0", "1", "2", "5", "1000000000000000000", "999999999999999999999999", "-1", "-7"}
	for i := 0; i < nops; i++ {
		op := c13QOp{Addr: 1 + r.Intn(len(addrs))}
		a := addrs[op.Addr-1]
		pre, err := cum.GetMaturedBalance(a)
		must(err)
		op.Pre = pre.String()
		if r.Intn(2) == 0 {
			op.Kind = "add"
			op.Amount = amounts[r.Intn(6)] // matured amounts are never negative (C13_split_bounded)
			op.Ok = cum.AddMaturedBalance(a, amt(op.Amount)) == nil
		} else {
			op.Kind = "withdraw"
			switch r.Intn(4) {
			case 0:
				op.Amount = pre.String()
			case 1:
				op.Amount = new(big.Int).Add(pre.BigInt(), big.NewInt(1)).String()
			default:
				op.Amount = amounts[r.Intn(len(amounts))]
			}
			op.Ok = cum.WithdrawRewards(a, amt(op.Amount)) == nil
		}
		b, err := cum.GetMaturedBalance(a)
		must(err)
		wd, err := cum.GetWithdrawnRewards(a)
		must(err)
		tot, err := cum.GetMaturedRewards(a)
		must(err)
		op.Bal, op.Wd, op.Total = b.String(), wd.String(), tot.String()
		qc.Ops = append(qc.Ops, op)
		if r.Intn(10) == 0 {
			// session boundary as in a transaction: commit the store's writes to the cache layer
			st.BeginTxSession()
			st.CommitTxSession()
		}
	}
	return qc
}

// ---------- Coq emission ----------

func c13CoqOpts(o c13Opts) string {
	return fmt.Sprintf("(mkOpts %d %d %s %s %s %d)", o.Cycle, o.Est, c13ZI(o.Window), c13ZList(o.Shares), c13Z(o.Burnout), o.Interval)
}

func c13CoqBlk(b c13Blk) string {
	ys := []string{}
	for _, y := range b.Years {
		ys = append(ys, fmt.Sprintf("mkYear %s %s %s", c13ZI(y.Close), c13Z(y.Dist), c13Z(y.Till)))
	}
	vs := []string{}
	for _, v := range b.Votes {
		vs = append(vs, fmt.Sprintf("mkVote %d %s %s %s", v.Addr, c13ZI(v.Power), c13B(v.Signed), c13B(v.Known)))
	}
	ds := []string{}
	for _, d := range b.Delegs {
		ds = append(ds, fmt.Sprintf("(%s, %s)", d[0], c13Z(d[1])))
	}
	oy := []string{}
	for _, y := range b.ObYears {
		oy = append(oy, fmt.Sprintf("(%s, %s)", c13Z(y[0]), c13Z(y[1])))
	}
	chs := []string{}
	for _, cs := range b.Chunks {
		ps := []string{}
		for _, c := range cs {
			ps = append(ps, fmt.Sprintf("(%s, %s)", c[0], c13Z(c[1])))
		}
		chs = append(chs, c13List(ps))
	}
	ivs := []string{}
	for _, iv := range b.Ivs {
		ivs = append(ivs, fmt.Sprintf("mkIvl %d %d", iv[0], iv[1]))
	}
	idxs := []string{}
	for _, i := range b.ObIdx {
		idxs = append(idxs, c13ZI(i))
	}
	ws := []string{}
	for _, w := range b.WTxs {
		ws = append(ws, fmt.Sprintf("mkWtx %s %s %s %s %s %s %s %s", c13Z(w.Value), c13Z(w.Bal), c13Z(w.Wd), c13Z(w.Pool),
			c13B(w.CheckOk), c13B(w.DeliverOk), c13Z(w.Bal2), c13Z(w.Wd2)))
	}
	return fmt.Sprintf("mkBlk %d %s %s %s %s\n   %s %s\n   %s %s %s %d\n   %s %s\n   %s %s %s %s\n   %s %s\n   %s %s %s\n   %s %s\n   %s %s %s %s %d %d %d",
		b.H, c13B(b.Restart), c13ZI(b.T1), c13ZI(b.Tb), c13ZI(b.Te),
		c13List(ys), c13Z(b.Pool),
		c13List(vs), c13Z(b.Dp), c13List(ds), b.Prop,
		c13List(chs), c13List(ivs),
		c13B(b.PullOk), c13Z(b.Pull), c13B(b.ColdOk), c13Z(b.Cold),
		c13List(oy), c13Z(b.ObConsumed),
		c13ZList(b.ObVals), c13ZList(b.ObDelegs), c13ZList(b.ObMatured), c13List(ws), c13Z(b.ObDelegTotal),
		c13List(idxs), c13ZList(b.ObCred), c13ZList(b.ObMat), c13Z(b.ObTdist), b.DumpV, b.DumpIndex, b.DumpHeight)
}

func c13CoqChain(c c13Chain) string {
	bs := make([]string, len(c.Blocks))
	for i, b := range c.Blocks {
		bs[i] = c13CoqBlk(b)
	}
	return fmt.Sprintf("mkChain %s\n [%s]", c13CoqOpts(c.Opts), strings.Join(bs, ";\n  "))
}

func c13CoqPCase(p c13PCase) string {
	ss := []string{}
	for _, s := range p.Steps {
		oy := []string{}
		for _, y := range s.Years {
			oy = append(oy, fmt.Sprintf("(%s, %s)", c13Z(y[0]), c13Z(y[1])))
		}
		ss = append(ss, fmt.Sprintf("mkPstep %d %s %s %s %s %s %s %s %s", s.H, c13B(s.Restart), c13Z(s.Pool), c13Z(s.Consumed),
			c13B(s.WarmOk), c13Z(s.Warm), c13B(s.ColdOk), c13Z(s.Cold), c13List(oy)))
	}
	ts := make([]string, len(p.Times))
	for i, t := range p.Times {
		ts[i] = c13ZI(t)
	}
	cs := make([]string, len(p.Closes))
	for i, t := range p.Closes {
		cs[i] = c13ZI(t)
	}
	return fmt.Sprintf("mkPcase %s\n %s\n %s\n [%s]", c13CoqOpts(p.Opts), c13List(ts), c13List(cs), strings.Join(ss, ";\n  "))
}

func c13CoqQCase(q c13QCase) string {
	ops, obs := []string{}, []string{}
	for _, o := range q.Ops {
		k := "AddMatured"
		if o.Kind == "withdraw" {
			k = "Withdraw"
		}
		ops = append(ops, fmt.Sprintf("%s %d %s", k, o.Addr, c13Z(o.Amount)))
		obs = append(obs, fmt.Sprintf("mkQobs %s %s %s %s %s", c13Z(o.Pre), c13B(o.Ok), c13Z(o.Bal), c13Z(o.Wd), c13Z(o.Total)))
	}
	return fmt.Sprintf("mkQcase [%s]\n [%s]", strings.Join(ops, "; "), strings.Join(obs, "; "))
}

type c13Report struct {
	Chains      int            `json:"chains"`
	Blocks      int            `json:"blocks"`
	PCases      int            `json:"pcases"`
	PSteps      int            `json:"psteps"`
	QCases      int            `json:"qcases"`
	QOps        int            `json:"qops"`
	Hist        map[string]int `json:"histogram"`
	Samples     []string       `json:"samples"`
	Files       []string       `json:"files"`
	DistinctBlk int            `json:"distinct_blocks"`
	Panics      []string       `json:"panics"`
	Aborts      []string       `json:"harness_aborts"`
}

func c13Main(args []string) int {
	fs := flag.NewFlagSet("c13", flag.ExitOnError)
	seed := fs.Int64("seed", 1, "PRNG seed")
	nchains := fs.Int("chains", 6, "whole-app chains")
	first := fs.Int("first", 0, "index of the first chain/pcase/qcase (for parallel parts and replays)")
	nblocks := fs.Int("blocks", 30, "blocks per chain")
	npc := fs.Int("pcases", 100, "package-level calculator runs")
	pblocks := fs.Int("pblocks", 40, "blocks per calculator run")
	nqc := fs.Int("qcases", 50, "cumulative store sequences")
	qops := fs.Int("qops", 60, "operations per cumulative sequence")
	outDir := fs.String("out", ".", "output directory")
	tag := fs.String("tag", "0", "suffix of the output files")
	fs.BoolVar(&c13Honest, "honest", false, "whole-app chains with the devnet reward options and ordinary block times")
	replayP := fs.String("replay-pcases", "", "JSON file with a list of calculator runs (inputs) to execute first")
	corpusW := fs.String("corpus-wvalues", "", "comma separated WITHDRAW_REWARD amounts injected into blocks 8.. of every chain")
	directed := fs.Bool("directed", false, "run the directed whole-app witnesses (delegate 1000 / undelegate 900) first")
	probe := fs.Bool("probe-negwd", false, "probe: WITHDRAW_REWARD with a negative amount on the real app")
	fs.Parse(args)
	if *corpusW != "" {
		c13CorpusWValues = strings.Split(*corpusW, ",")
	}
	if *probe {
		c13ProbeNegWithdraw()
		return 0
	}

	rep := c13Report{Hist: map[string]int{}}
	chains := []c13Chain{}
	if *directed {
		for sc := 1; sc <= 6; sc++ {
			n := 11
			switch sc {
			case 4:
				n = 372
			case 5:
				n = 27
			case 6:
				n = 80
			}
			chains = append(chains, c13RunChainS(*seed, -sc, n, sc))
		}
	}
	for i := 0; i < *nchains; i++ {
		func() {
			// a panic of the real application inside a whole-app run (BeginBlock recovers it and
			// closes the app; the next call then fails) is reported, the other drivers still run
			defer func() {
				if rr := recover(); rr != nil {
					msg := fmt.Sprintf("chain %d: %v", *first+i, rr)
					if strings.Contains(msg, "c13-harness:") {
						rep.Aborts = append(rep.Aborts, msg) // harness-side failure, not the application
					} else {
						rep.Panics = append(rep.Panics, msg)
					}
				}
			}()
			chains = append(chains, c13RunChain(*seed, *first+i, *nblocks))
		}()
	}
	pcs := []c13PCase{}
	if *replayP != "" {
		bz, err := os.ReadFile(*replayP)
		must(err)
		var in []c13PCase
		must(json.Unmarshal(bz, &in))
		for _, pc := range in {
			pcs = append(pcs, c13ExecPCase(pc))
		}
	}
	for i := 0; i < *npc; i++ {
		pcs = append(pcs, c13RunPCase(*seed, *first+i, *pblocks))
	}
	qcs := []c13QCase{}
	for i := 0; i < *nqc; i++ {
		qcs = append(qcs, c13RunQCase(*seed, *first+i, *qops))
	}

	seen := map[string]bool{}
	inc := func(k string) { rep.Hist[k]++ }
	for _, c := range chains {
		rep.Chains++
		for _, b := range c.Blocks {
			rep.Blocks++
			inc(fmt.Sprintf("chain.votes=%d", len(b.Votes)))
			absent, unknown := 0, 0
			for _, v := range b.Votes {
				if !v.Signed {
					absent++
				}
				if !v.Known {
					unknown++
				}
			}
			switch {
			case len(b.Votes) == 0:
			case absent == 0:
				inc("chain.absent=none")
			case absent == len(b.Votes):
				inc("chain.absent=all")
			default:
				inc("chain.absent=some")
			}
			if unknown > 0 {
				inc("chain.unknown_voter")
			}
			switch {
			case b.Dp == "0":
				inc("chain.pool=0")
			case len(b.Dp) <= 3:
				inc("chain.pool=tiny")
			case len(b.Dp) >= 28:
				inc("chain.pool=huge")
			default:
				inc("chain.pool=medium")
			}
			inc(fmt.Sprintf("chain.delegators=%d", len(b.Delegs)))
			if b.Restart {
				inc("chain.restart")
			}
			if !b.PullOk {
				inc("chain.pull_error")
			} else if b.Pull != b.Cold {
				inc("chain.warm!=cold")
			}
			if b.ObConsumed != "0" {
				inc("chain.consumed>0")
			}
			nz := false
			for _, m := range b.ObMatured {
				if m != "0" {
					nz = true
				}
			}
			if nz {
				inc("chain.matured>0")
			}
			for _, d := range b.CheckOnly {
				inc("chain.tx." + strings.Fields(d)[0])
			}
			if b.DumpV > 0 {
				k := "other"
				switch {
				case b.DumpV%c.Opts.Interval == 0:
					k = "multiple_of_interval"
				case (b.DumpV+1)%c.Opts.Interval == 0 || (b.DumpV-1)%c.Opts.Interval == 0:
					k = "multiple+-1"
				}
				inc("chain.export_at." + k)
			}
			if b.ObDelegTotal != "0" {
				inc("chain.delegators_credited")
			}
			for _, w := range b.WTxs {
				k := "in_range"
				if strings.HasPrefix(w.Value, "-") {
					k = "negative"
				} else if !c13Big(w.Value).IsInt64() {
					k = "above_int64"
				}
				inc(fmt.Sprintf("chain.withdraw_reward.%s.check=%v.deliver=%v", k, w.CheckOk, w.DeliverOk))
			}
			for i, c := range b.TxCodes {
				inc(fmt.Sprintf("chain.tx.%s.code%d", strings.Fields(b.Txs[i])[0], c))
			}
			seen[c13CoqBlk(b)] = true
		}
	}
	rep.DistinctBlk = len(seen)
	for _, p := range pcs {
		rep.PCases++
		for _, s := range p.Steps {
			rep.PSteps++
			if s.Restart {
				inc("calc.restart")
			}
			switch {
			case !s.WarmOk:
				inc("calc.error")
			case s.Warm == p.Opts.Burnout:
				inc("calc.burnout")
			case s.Warm == s.Pool:
				inc("calc.capped_by_pool")
			case strings.HasPrefix(s.Warm, "-"):
				inc("calc.negative")
			default:
				inc("calc.scheduled")
			}
			if s.WarmOk != s.ColdOk || s.Warm != s.Cold {
				inc("calc.warm!=cold")
			}
		}
		inc(fmt.Sprintf("calc.years=%d", len(p.Closes)))
		inc(fmt.Sprintf("calc.cycle=%d", p.Opts.Cycle))
	}
	for _, q := range qcs {
		rep.QCases++
		for _, o := range q.Ops {
			rep.QOps++
			inc(fmt.Sprintf("cum.%s.ok=%v", o.Kind, o.Ok))
		}
	}
	for i := 0; i < len(chains) && i < 2; i++ {
		if len(chains[i].Blocks) > 3 {
			rep.Samples = append(rep.Samples, "chain "+chains[i].Descr+" block: "+strings.ReplaceAll(c13CoqBlk(chains[i].Blocks[3]), "\n", " "))
		}
	}
	if len(pcs) > 0 {
		s := c13CoqPCase(pcs[0])
		if len(s) > 1500 {
			s = s[:1500] + "..."
		}
		rep.Samples = append(rep.Samples, "pcase "+strings.ReplaceAll(s, "\n", " "))
	}

	var sb strings.Builder
	sb.WriteString("From Coq Require Import ZArith List Bool.\nFrom OL Require Import theories.Rewards theories.RewardsCheck.\nImport ListNotations.\nLocal Open Scope Z_scope.\n")
	cs := make([]string, len(chains))
	for i, c := range chains {
		cs[i] = c13CoqChain(c)
	}
	sb.WriteString("Definition chains : list chain := [\n" + strings.Join(cs, ";\n") + "].\n")
	ps := make([]string, len(pcs))
	for i, p := range pcs {
		ps[i] = c13CoqPCase(p)
	}
	sb.WriteString("Definition pcases : list pcase := [\n" + strings.Join(ps, ";\n") + "].\n")
	qs := make([]string, len(qcs))
	for i, q := range qcs {
		qs[i] = c13CoqQCase(q)
	}
	sb.WriteString("Definition qcases : list qcase := [\n" + strings.Join(qs, ";\n") + "].\n")
	sb.WriteString("Definition MMC := Eval vm_compute in check_chains 0 chains.\nPrint MMC.\n")
	sb.WriteString("Definition MMP := Eval vm_compute in check_pcases 0 pcases.\nPrint MMP.\n")
	sb.WriteString("Definition MMQ := Eval vm_compute in check_qcases 0 qcases.\nPrint MMQ.\n")
	must(os.MkdirAll(*outDir, 0755))
	vf := filepath.Join(*outDir, fmt.Sprintf("c13_cases_%s.v", *tag))
	must(os.WriteFile(vf, []byte(sb.String()), 0644))
	rep.Files = []string{vf}
	bz, _ := json.MarshalIndent(map[string]interface{}{"chains": chains, "pcases": pcs, "qcases": qcs}, "", " ")
	must(os.WriteFile(filepath.Join(*outDir, fmt.Sprintf("c13_cases_%s.json", *tag)), bz, 0644))
	bz, _ = json.MarshalIndent(rep, "", " ")
	must(os.WriteFile(filepath.Join(*outDir, fmt.Sprintf("c13_report_%s.json", *tag)), bz, 0644))
	keysSorted := []string{}
	for k := range rep.Hist {
		keysSorted = append(keysSorted, k)
	}
	sort.Strings(keysSorted)
	say("c13: chains=%d blocks=%d pcases=%d psteps=%d qcases=%d qops=%d\n", rep.Chains, rep.Blocks, rep.PCases, rep.PSteps, rep.QCases, rep.QOps)
	return 0
}
