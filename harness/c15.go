package main

// C15: cross-chain lock / redeem / report-finality / block-end tracker transitions on the REAL
// application (app.App driven through ABCI by Replica).  Every step records the inputs the Coq
// model (coq/theories/Tracker.v) needs and the projected observables: result code as ok/fail,
// the three tracker stores and the wrapped-ETH balances of every account that appears in the run.

import (
	"bytes"
	"encoding/hex"
	"encoding/json"
	"flag"
	"fmt"
	"math/big"
	"math/rand"
	"os"
	"sort"
	"strings"

	"github.com/Oneledger/protocol/action"
	acteth "github.com/Oneledger/protocol/action/eth"
	"github.com/Oneledger/protocol/action/transfer"
	ethchain "github.com/Oneledger/protocol/chains/ethereum"
	"github.com/Oneledger/protocol/chains/ethereum/contract"
	"github.com/Oneledger/protocol/consensus"
	"github.com/Oneledger/protocol/data/balance"
	"github.com/Oneledger/protocol/data/chain"
	ethdata "github.com/Oneledger/protocol/data/ethereum"
	"github.com/Oneledger/protocol/data/keys"
	"github.com/Oneledger/protocol/identity"
	"github.com/Oneledger/protocol/serialize"
	"github.com/Oneledger/protocol/storage"
	ethcommon "github.com/ethereum/go-ethereum/common"
	ethtypes "github.com/ethereum/go-ethereum/core/types"
	"github.com/ethereum/go-ethereum/rlp"
)

func init() { subcmds["c15"] = c15Main }

const c15SupplyAddr = "oneledgerSupplyAddress" // 22 bytes, as in cmd/olfullnode and DOCKER/kainos-test/genesis.json
const c15SupplyAddr20 = "oneledgerSupplyAddr_" // 20 bytes
const c15SupplyID = 99

var c15Contract = ethcommon.HexToAddress("0x00000000000000000000000000000000000c0de1")
var c15Token = ethcommon.HexToAddress("0x0000000000000000000000000000000000070c31")

type c15Tx struct {
	ID           int
	Bytes        []byte
	Name         int     // id of the tracker name (last 32 bytes of Bytes)
	Lock         *string // amount the real decoder + VerifyLock + contract address check accept, nil = refused
	Redeem       *string // amount the real ParseRedeem returns, nil = error
	Ext          int     // id of the external (Ethereum) transaction these bytes were built from: re-encodings / padded copies of one transaction share it
	RedeemPanics bool    // the real ParseRedeem panics on these bytes (no selector inside): never submitted as a redeem (C18's subject)
}

type c15Op struct {
	Kind string // lock redeem report transfer endblock
	// lock / redeem
	Sender int
	Tx     int
	// report
	Name      int
	Locker    int
	Validator int
	Index     int64
	Success   bool
	// transfer
	From, To int
	Amt      string
	// endblock: the node-local inputs and the ongoing names in iteration order
	Witness bool
	Node    int
	Bjob    []int
	Names   []int
}

type c15Tracker struct {
	Name, Type, State, Tx int
	Wit                   []int
	Owner                 int
	Votes                 []int
}

type c15Bal struct {
	ID  int
	Amt string
}

type c15Obs struct {
	Ok      bool
	Ongoing []c15Tracker
	Passed  []c15Tracker
	Failed  []c15Tracker
	Bal     []c15Bal
}

type c15Case struct {
	Cfg   c15Cfg
	Wits  []int
	Cap   string
	Txs   []c15Tx
	Keys  []int // accounts that are the address of a signing key
	Len20 []int // accounts whose address is 20 bytes long
	Bal0  []c15Bal
	Ops   []c15Op
	Obs   []c15Obs
	Descr []string
	// twin run (only for runs whose node-local witness flag is ever on): the same configuration on a
	// node whose flag stays off; first step at which descriptions or observations differ, -1 = none
	TwinDiv  int
	TwinNote string
}

type c15Cfg struct {
	NWit        int   // number of registered witnesses
	NodeWitness bool  // the node's validator key is one of them
	FlagFrom    int   // block from which the node-local witness flag is on (-1 never)
	Cap         int64 // total supply cap
	Seed        int64
	Blocks      int
	Init        int64 // initial wrapped balance of user 1 and 2 (and matching supply counter)
	ERC         bool  // register one ERC-20 token (currency TTC) in the chain driver options
	Supply20    bool  // TotalSupplyAddr is a 20-character string (a well-formed address for SEND's Validate)
	TTCInit     int64 // initial token balance of user 2 (used by the C18 chain, see c18eth.go)
}

// ---------- the world of one run ----------

type c15World struct {
	cfg          c15Cfg
	rep          *Replica
	val          ValSpec
	users        []Key // ids 1..len
	wkeys        []Key // witness keys, sorted by address = store iteration order; ids 20+i
	outs         []Key // non-witness reporters, ids 40+i
	addrID       map[string]int
	idAddr       map[int]keys.Address
	idKey        map[int]Key
	nameID       map[string]int
	nameHex      []string
	txs          []c15Tx
	txByHex      map[string]int
	bjob         map[int]bool
	flag         bool
	supply       string
	skippedPanic int
	c            c15Case
}

func (w *c15World) regAddr(id int, a keys.Address) {
	w.addrID[string(a)] = id
	w.idAddr[id] = a
}

func (w *c15World) nameOf(bz []byte) int {
	h := ethcommon.BytesToHash(bz)
	k := hex.EncodeToString(h.Bytes())
	if id, ok := w.nameID[k]; ok {
		return id
	}
	id := len(w.nameHex) + 1
	w.nameID[k] = id
	w.nameHex = append(w.nameHex, k)
	return id
}

func c15NewWorld(cfg c15Cfg) *c15World {
	w := &c15World{cfg: cfg, addrID: map[string]int{}, idAddr: map[int]keys.Address{}, idKey: map[int]Key{}, nameID: map[string]int{},
		txByHex: map[string]int{}, bjob: map[int]bool{}}
	w.val = ValSpec{Val: seedKey(10), Stake: seedKey(30), Power: 3000000}
	for i := 0; i < 4; i++ {
		w.users = append(w.users, seedKey(byte(60+i)))
	}
	for i := 0; i < 3; i++ {
		w.outs = append(w.outs, seedKey(byte(150+i)))
	}
	if cfg.NodeWitness {
		w.wkeys = append(w.wkeys, w.val.Val)
	}
	for i := 0; len(w.wkeys) < cfg.NWit; i++ {
		w.wkeys = append(w.wkeys, seedKey(byte(100+i)))
	}
	sort.Slice(w.wkeys, func(i, j int) bool { return bytes.Compare(w.wkeys[i].Addr, w.wkeys[j].Addr) < 0 })
	w.regAddr(0, keys.Address{})
	for i, u := range w.users {
		w.regAddr(1+i, u.Addr)
		w.idKey[1+i] = u
	}
	for i, k := range w.wkeys {
		w.regAddr(20+i, k.Addr)
		w.idKey[20+i] = k
	}
	for i, k := range w.outs {
		w.regAddr(40+i, k.Addr)
		w.idKey[40+i] = k
	}
	if !cfg.NodeWitness {
		w.regAddr(50, w.val.Val.Addr)
		w.idKey[50] = w.val.Val
	}
	w.supply = c15SupplyAddr
	if cfg.Supply20 {
		w.supply = c15SupplyAddr20
		if len(w.supply) != 20 {
			panic("c15: supply address constant is not 20 bytes")
		}
	}
	w.regAddr(c15SupplyID, keys.Address(w.supply))

	spec := &GenesisSpec{Vals: []ValSpec{w.val}}
	spec.Funded = append(spec.Funded, w.val.Stake.Addr)
	for _, u := range w.users {
		spec.Funded = append(spec.Funded, u.Addr)
	}
	for _, k := range w.wkeys {
		spec.Funded = append(spec.Funded, k.Addr)
	}
	for _, k := range w.outs {
		spec.Funded = append(spec.Funded, k.Addr)
	}
	spec.Customize = func(st *consensus.AppState) {
		st.Governance.ETHCDOption = ethchain.ChainDriverOption{
			ContractABI: contract.LockRedeemABI, ContractAddress: c15Contract,
			ERCContractABI: contract.LockRedeemERCABI, ERCContractAddress: c15Contract,
			TotalSupply: fmt.Sprint(cfg.Cap), TotalSupplyAddr: w.supply, BlockConfirmation: 1,
		}
		if cfg.ERC {
			st.Currencies = append(st.Currencies, balance.Currency{Id: 4, Name: "TTC", Chain: chain.ETHEREUM, Decimal: 18, Unit: "ttc"})
			opt := st.Governance.ETHCDOption
			opt.TokenList = []ethchain.ERC20Token{{TokName: "TTC", TokAddr: c15Token, TokAbi: contract.ERC20BasicABI, TokTotalSupply: "1000000"}}
			st.Governance.ETHCDOption = opt
		}
		for i, k := range w.wkeys {
			st.Witness = append(st.Witness, consensus.Stake{ValidatorAddress: k.Addr, StakeAddress: k.Addr, Pubkey: k.Pub, ECDSAPubKey: k.Pub,
				Name: fmt.Sprintf("w%d", i), Amount: *balance.NewAmount(1)})
		}
		if cfg.ERC && cfg.TTCInit > 0 {
			st.Balances = append(st.Balances, consensus.BalanceState{Address: w.users[1].Addr, Currency: "TTC", Amount: *balance.NewAmount(cfg.TTCInit)},
				consensus.BalanceState{Address: keys.Address(w.supply), Currency: "TTC", Amount: *balance.NewAmount(cfg.TTCInit)})
		}
		if cfg.Init > 0 {
			a := *balance.NewAmount(cfg.Init)
			st.Balances = append(st.Balances, consensus.BalanceState{Address: w.users[0].Addr, Currency: "ETH", Amount: a},
				consensus.BalanceState{Address: w.users[1].Addr, Currency: "ETH", Amount: a},
				consensus.BalanceState{Address: keys.Address(w.supply), Currency: "ETH", Amount: *balance.NewAmount(2 * cfg.Init)})
		}
	}
	w.rep = NewReplica(spec, ReplicaOpts{NodeVal: w.val.Val})
	w.rep.InitChain()
	w.setFlag(false)
	w.c.Cfg = cfg
	w.c.TwinDiv = -1
	w.c.Cap = fmt.Sprint(cfg.Cap)
	for i := range w.wkeys {
		w.c.Wits = append(w.c.Wits, 20+i)
	}
	for id, a := range w.idAddr {
		if _, ok := w.idKey[id]; ok {
			w.c.Keys = append(w.c.Keys, id)
		}
		if a.Err() == nil {
			w.c.Len20 = append(w.c.Len20, id)
		}
	}
	sort.Ints(w.c.Keys)
	sort.Ints(w.c.Len20)
	if cfg.Init > 0 {
		w.c.Bal0 = []c15Bal{{1, fmt.Sprint(cfg.Init)}, {2, fmt.Sprint(cfg.Init)}, {c15SupplyID, fmt.Sprint(2 * cfg.Init)}}
	}
	return w
}

// the node-local witness flag is a package-level variable of package identity, set by
// WitnessStore.Init from "is this address in the store"; drive it through that exported API
func (w *c15World) setFlag(on bool) {
	ws := identity.NewWitnessStore("w", storage.NewState(w.rep.A.VerifChainState()))
	if on {
		if len(w.wkeys) == 0 {
			return
		}
		ws.Init(chain.ETHEREUM, w.wkeys[0].Addr)
		if !ws.IsETHWitness() {
			panic("c15: could not switch the witness flag on")
		}
	} else {
		ws.Init(chain.ETHEREUM, keys.Address("nobody"))
	}
	w.flag = on
}

// ---------- external transactions ----------

func c15Str(s string) *string { return &s }

func (w *c15World) addTx(bz []byte) int { return w.addTxExt(bz, 0) }

// addTxExt registers a byte string; ext = 0: a new external transaction, otherwise the external
// transaction (id) these bytes are another encoding / a padded copy of
func (w *c15World) addTxExt(bz []byte, ext int) int {
	k := hex.EncodeToString(bz)
	if id, ok := w.txByHex[k]; ok {
		return id
	}
	t := c15Tx{ID: len(w.txs) + 1, Bytes: bz, Name: w.nameOf(bz), Ext: ext}
	if ext == 0 {
		t.Ext = t.ID
	}
	// oracle: the real decoding functions of chains/ethereum
	func() {
		defer func() { recover() }()
		tx, err := ethchain.DecodeTransaction(bz)
		if err != nil {
			return
		}
		ok, err := ethchain.VerifyLock(tx, contract.LockRedeemABI)
		if err != nil || !ok || tx.To() == nil || !bytes.Equal(tx.To().Bytes(), c15Contract.Bytes()) {
			return
		}
		lr, err := ethchain.ParseLock(bz)
		if err != nil {
			return
		}
		t.Lock = c15Str(lr.Amount.String())
	}()
	func() {
		defer func() {
			if r := recover(); r != nil {
				t.Redeem = nil
				t.RedeemPanics = true
			}
		}()
		rr, err := ethchain.ParseRedeem(bz, contract.LockRedeemABI)
		if err != nil {
			return
		}
		// runRedeem (since /repo dec611a) first requires the strict decoder to accept the bytes
		if _, err := ethchain.DecodeTransaction(bz); err != nil {
			return
		}
		t.Redeem = c15Str(rr.Amount.String())
	}()
	w.txs = append(w.txs, t)
	w.txByHex[k] = t.ID
	return t.ID
}

var c15LockData = ethcommon.FromHex("f83d08ba") // selector of lock(); checked against the ABI at start

func c15LockBytes(value *big.Int, to ethcommon.Address, data []byte, nonce uint64, s *big.Int) []byte {
	tx := ethtypes.NewTx(&ethtypes.LegacyTx{Nonce: nonce, GasPrice: big.NewInt(1), Gas: 100000, To: &to, Value: value, Data: data,
		V: big.NewInt(27), R: big.NewInt(12345), S: s})
	bz, err := rlp.EncodeToBytes(tx)
	must(err)
	return bz
}

// S value whose 32-byte big-endian form is the tracker name "tail"
func c15S(tail int64) *big.Int {
	b := make([]byte, 32)
	b[0] = 0x7f
	big.NewInt(tail).FillBytes(b[1:])
	return new(big.Int).SetBytes(b)
}

func c15RedeemSelector() string {
	for k, v := range contract.LockRedeemFuncSigs {
		if v == "redeem(uint256)" {
			return k
		}
	}
	panic("no redeem selector")
}

// a signed Ethereum transaction calling redeem(amount) on the lock-redeem contract; the S value
// (= the last 32 bytes = the tracker name) is chosen by tail
func c15RedeemBytes(amount *big.Int, tail int64) []byte {
	return c15RedeemBytesS(amount, c15S(tail), uint64(tail))
}

func c15RedeemBytesS(amount *big.Int, s *big.Int, nonce uint64) []byte {
	sel, _ := hex.DecodeString(c15RedeemSelector())
	a := make([]byte, 32)
	amount.FillBytes(a)
	return c15LockBytes(big.NewInt(0), c15Contract, append(sel, a...), nonce, s)
}

// a redeem transaction whose RAW bytes contain the redeem selector BEFORE the call data: the gas price
// is selector||28 bytes of `chosen`, the call data asks for `inData`.  ParseRedeem on the raw bytes
// reads `chosen`; a parse of the decoded call data would read `inData` (seeded slip C15_7 / C02_5)
func c15CraftedRedeemBytes(chosen, inData int64, tail int64) []byte {
	sel, _ := hex.DecodeString(c15RedeemSelector())
	w := make([]byte, 32)
	big.NewInt(chosen).FillBytes(w)
	gp := new(big.Int).SetBytes(append(append([]byte{}, sel...), w[4:]...))
	a := make([]byte, 32)
	big.NewInt(inData).FillBytes(a)
	tx := ethtypes.NewTx(&ethtypes.LegacyTx{Nonce: uint64(tail), GasPrice: gp, Gas: 100000, To: &c15Contract, Value: big.NewInt(0), Data: append(sel, a...),
		V: big.NewInt(27), R: big.NewInt(12345), S: c15S(tail)})
	bz, err := rlp.EncodeToBytes(tx)
	must(err)
	return bz
}

// byte strings that are NOT identical to raw but carry the same external transaction: trailing
// bytes, a leading zero byte, a non-minimal RLP length prefix, one more RLP string wrapper
func c15Variants(raw []byte) [][]byte {
	cat := func(a, b []byte) []byte { return append(append([]byte{}, a...), b...) }
	pad32 := bytes.Repeat([]byte{0x5c}, 32)
	out := [][]byte{cat(raw, []byte{0}), cat(raw, pad32), cat(raw, append(pad32, bytes.Repeat([]byte{0x11}, 32)...)), cat([]byte{0}, raw)}
	if len(raw) > 2 && raw[0] == 0xf8 {
		out = append(out, cat([]byte{0xf9, 0x00, raw[1]}, raw[2:]))
	} else if len(raw) > 1 && raw[0] >= 0xc0 && raw[0] < 0xf8 {
		out = append(out, cat([]byte{0xf8, raw[0] - 0xc0}, raw[1:]))
	}
	if wr, err := rlp.EncodeToBytes(raw); err == nil {
		out = append(out, wr)
	}
	return out
}

// ---------- observation ----------

func (w *c15World) acct(a keys.Address) int {
	if id, ok := w.addrID[string(a)]; ok {
		return id
	}
	return 98 // unknown address
}

func (w *c15World) observe(ok bool) c15Obs {
	o := c15Obs{Ok: ok}
	view := w.rep.View()
	ks := sortedKeys(view)
	ser := serialize.GetSerializer(serialize.PERSISTENT)
	dec := func(prefix string, dst *[]c15Tracker) {
		for _, k := range ks {
			if !strings.HasPrefix(k, prefix) {
				continue
			}
			t := &ethdata.Tracker{}
			if err := ser.Deserialize([]byte(view[k]), t); err != nil {
				panic("c15: tracker does not deserialize: " + err.Error())
			}
			ct := c15Tracker{Name: w.nameOf([]byte(k[len(prefix):])), Type: int(t.Type), State: int(t.State), Owner: w.acct(t.ProcessOwner)}
			if w.nameOf(t.TrackerName.Bytes()) != ct.Name {
				ct.Name = -1 // stored under a key that is not its own name
			}
			if len(t.SignedETHTx) > 0 {
				id, okk := w.txByHex[hex.EncodeToString(t.SignedETHTx)]
				if !okk {
					id = 9999
				}
				ct.Tx = id
			}
			for _, a := range t.Witnesses {
				ct.Wit = append(ct.Wit, w.acct(a))
			}
			for _, v := range t.FinalityVotes {
				ct.Votes = append(ct.Votes, int(v))
			}
			*dst = append(*dst, ct)
		}
	}
	dec("etht_", &o.Ongoing)
	dec("ethsuccess_", &o.Passed)
	dec("ethfailed_", &o.Failed)
	ids := []int{}
	for id := range w.idAddr {
		if id != 0 {
			ids = append(ids, id)
		}
	}
	sort.Ints(ids)
	for _, id := range ids {
		v, has := view["b_"+w.idAddr[id].String()+"_ETH"]
		amt := balance.NewAmount(0)
		if has && len(v) > 0 {
			if err := ser.Deserialize([]byte(v), amt); err != nil {
				panic("c15: balance does not deserialize")
			}
		}
		o.Bal = append(o.Bal, c15Bal{id, amt.BigInt().String()})
	}
	// wrapped ETH held by an address outside the cast would be invisible to the comparison
	for _, k := range ks {
		if strings.HasPrefix(k, "b_") && strings.HasSuffix(k, "_ETH") {
			found := false
			for _, id := range ids {
				if k == "b_"+w.idAddr[id].String()+"_ETH" {
					found = true
				}
			}
			if !found {
				o.Bal = append(o.Bal, c15Bal{98, "1"})
			}
		}
	}
	return o
}

// ---------- running ops on the real application ----------

func (w *c15World) deliver(op c15Op, descr string, tx []byte) {
	res := w.rep.DeliverTx(tx)
	w.c.Ops = append(w.c.Ops, op)
	w.c.Descr = append(w.c.Descr, descr)
	w.c.Obs = append(w.c.Obs, w.observe(res.Code == 0))
}

// the key that signs a transaction naming account id as its signer; an account without a key (the
// supply address) can only be named by a transaction signed with somebody else's key
func (w *c15World) signer(id int) (Key, keys.Address) {
	if k, ok := w.idKey[id]; ok {
		return k, k.Addr
	}
	return w.users[0], w.idAddr[id]
}

func (w *c15World) doLock(sender, txid int) {
	k, addr := w.signer(sender)
	tx := mkTx(action.ETH_LOCK, acteth.Lock{Locker: addr, ETHTxn: w.txs[txid-1].Bytes}, GAS, fmt.Sprint(len(w.c.Ops)), k)
	w.deliver(c15Op{Kind: "lock", Sender: sender, Tx: txid}, fmt.Sprintf("lock by %d tx %d", sender, txid), tx)
}

func (w *c15World) doRedeem(sender, txid int) {
	if w.txs[txid-1].RedeemPanics {
		w.skippedPanic++
		return
	}
	k, addr := w.signer(sender)
	tx := mkTx(action.ETH_REDEEM, acteth.Redeem{Owner: addr, To: ethcommon.BytesToAddress(k.Addr), ETHTxn: w.txs[txid-1].Bytes}, GAS, fmt.Sprint(len(w.c.Ops)), k)
	w.deliver(c15Op{Kind: "redeem", Sender: sender, Tx: txid}, fmt.Sprintf("redeem by %d tx %d", sender, txid), tx)
}

func (w *c15World) doReport(name, locker, validator int, index int64, success bool) {
	k := w.idKey[validator]
	var tn ethchain.TrackerName
	bz, _ := hex.DecodeString(w.nameHex[name-1])
	tn.SetBytes(bz)
	m := &acteth.ReportFinality{TrackerName: tn, Locker: w.idAddr[locker], ValidatorAddress: k.Addr, VoteIndex: index, Success: success}
	tx := mkTx(action.ETH_REPORT_FINALITY_MINT, m, GAS, fmt.Sprint(len(w.c.Ops)), k)
	w.deliver(c15Op{Kind: "report", Name: name, Locker: locker, Validator: validator, Index: index, Success: success},
		fmt.Sprintf("report name %d locker %d by %d idx %d %v", name, locker, validator, index, success), tx)
}

func (w *c15World) doTransfer(from, to int, amt int64) {
	k, addr := w.signer(from)
	a := action.Amount{Currency: "ETH", Value: *balance.NewAmount(amt)}
	tx := mkTx(action.SEND, transfer.Send{From: addr, To: w.idAddr[to], Amount: a}, GAS, fmt.Sprint(len(w.c.Ops)), k)
	w.deliver(c15Op{Kind: "transfer", From: from, To: to, Amt: fmt.Sprint(amt)}, fmt.Sprintf("send %d from %d to %d", amt, from, to), tx)
}

func (w *c15World) endBlock() {
	// doEthTransitions collects the names with TrackerStore.Iterate, and State.IterateRange takes its
	// keys from the COMMITTED tree: the iteration set is the ongoing store as of the last commit, in
	// ascending key order (trackers created in this block are not visited)
	committed := w.rep.Dump()
	cur := map[int]c15Tracker{}
	for _, t := range w.observe(true).Ongoing {
		cur[t.Name] = t
	}
	op := c15Op{Kind: "endblock", Witness: w.flag, Node: w.acct(w.val.Val.Addr)}
	for n := range w.bjob {
		op.Bjob = append(op.Bjob, n)
	}
	sort.Ints(op.Bjob)
	for _, k := range sortedKeys(committed) {
		if !strings.HasPrefix(k, "etht_") {
			continue
		}
		name := w.nameOf([]byte(k[len("etht_"):]))
		op.Names = append(op.Names, name)
		// mirror of the node's job store: a broadcast/sign job is saved when a witness node moves a New
		// tracker on, and removed by the clean-up steps
		if t, ok := cur[name]; ok && w.flag {
			if t.State == int(ethdata.New) {
				w.bjob[name] = true
			}
			if t.State == int(ethdata.Released) || t.State == int(ethdata.Failed) {
				delete(w.bjob, name)
			}
		}
	}
	w.rep.EndBlock()
	w.c.Ops = append(w.c.Ops, op)
	w.c.Descr = append(w.c.Descr, "endblock")
	w.c.Obs = append(w.c.Obs, w.observe(true))
	w.rep.Commit()
}

// ---------- generator ----------

type c15Live struct {
	name, tx, owner int
	redeem          bool
}

func (w *c15World) run(r *rand.Rand) {
	cfg := w.cfg
	nw := len(w.wkeys)
	tail := int64(1000 * (cfg.Seed%1000 + 1))
	amounts := []int64{1, 2, 5, 10, 40, 100, 1000}
	var live []c15Live
	huge, _ := new(big.Int).SetString("1000000000000000000000000000000000000000000000000000", 10)
	newLockTx := func() int {
		tail++
		v := big.NewInt(amounts[r.Intn(len(amounts))])
		switch r.Intn(12) {
		case 0:
			return w.addTx(c15LockBytes(v, ethcommon.HexToAddress("0x01"), c15LockData, uint64(tail), c15S(tail))) // wrong contract
		case 1:
			return w.addTx(c15LockBytes(v, c15Contract, []byte{1, 2, 3, 4}, uint64(tail), c15S(tail))) // wrong call data
		case 2:
			return w.addTx([]byte{0xc0, byte(tail), 0x01}) // not a transaction
		case 3:
			return w.addTx(c15LockBytes(huge, c15Contract, c15LockData, uint64(tail), c15S(tail))) // above the cap
		case 4:
			return w.addTx(c15LockBytes(big.NewInt(0), c15Contract, c15LockData, uint64(tail), c15S(tail)))
		}
		return w.addTx(c15LockBytes(v, c15Contract, c15LockData, uint64(tail), c15S(tail)))
	}
	newRedeemTx := func() int {
		tail++
		v := big.NewInt(amounts[r.Intn(len(amounts))])
		if r.Intn(5) == 0 { // selector ahead of the call data: the raw parse and the call-data parse differ
			return w.addTx(c15CraftedRedeemBytes(amounts[r.Intn(len(amounts))], 1, tail))
		}
		if r.Intn(10) == 0 {
			v = huge
		}
		return w.addTx(c15RedeemBytes(v, tail))
	}
	collide := func(name int, redeem bool) int { // a different external transaction with the same name
		bz, _ := hex.DecodeString(w.nameHex[name-1])
		s := new(big.Int).SetBytes(bz)
		v := big.NewInt(amounts[r.Intn(len(amounts))] + 3)
		if bz[0] == 0 {
			return 0
		}
		if redeem {
			return w.addTx(c15RedeemBytesS(v, s, uint64(r.Intn(1000))))
		}
		return w.addTx(c15LockBytes(v, c15Contract, c15LockData, uint64(r.Intn(1000)), s))
	}
	anyAcct := func() int {
		switch r.Intn(10) {
		case 0:
			return c15SupplyID
		case 1:
			return 40 + r.Intn(len(w.outs))
		}
		return 1 + r.Intn(len(w.users))
	}
	reporter := func() (int, int64) { // validator id and the index it claims
		switch x := r.Intn(20); {
		case x == 0:
			return 40 + r.Intn(len(w.outs)), int64(r.Intn(nw + 1)) // not a witness
		case x == 1 && nw > 0:
			return 20 + r.Intn(nw), int64(nw + r.Intn(2)) // index out of range
		case x == 2 && nw > 1:
			i := r.Intn(nw)
			return 20 + i, int64((i + 1) % nw) // a witness claiming another slot
		case x == 3:
			return 1 + r.Intn(len(w.users)), int64(r.Intn(nw + 1))
		}
		if nw == 0 {
			return 40, 0
		}
		i := r.Intn(nw)
		return 20 + i, int64(i)
	}
	for b := 0; b < cfg.Blocks; b++ {
		if cfg.FlagFrom >= 0 && b == cfg.FlagFrom {
			w.setFlag(true)
		}
		w.rep.BeginBlock(&BlockIn{})
		ntx := 2 + r.Intn(7)
		for i := 0; i < ntx; i++ {
			switch x := r.Intn(100); {
			case x < 14: // new lock
				s := 1 + r.Intn(len(w.users))
				if r.Intn(25) == 0 {
					s = c15SupplyID // names the supply address as Locker: cannot be signed by it
				}
				t := newLockTx()
				w.doLock(s, t)
				live = append(live, c15Live{w.txs[t-1].Name, t, s, false})
			case x < 24: // new redeem
				s := 1 + r.Intn(len(w.users))
				if r.Intn(25) == 0 {
					s = c15SupplyID
				}
				t := newRedeemTx()
				w.doRedeem(s, t)
				live = append(live, c15Live{w.txs[t-1].Name, t, s, true})
			case x < 30 && len(live) > 0: // duplicate submission of the same bytes (any sender, lock or redeem)
				l := live[r.Intn(len(live))]
				s := 1 + r.Intn(len(w.users))
				if l.redeem != (r.Intn(6) == 0) {
					w.doRedeem(s, l.tx)
				} else {
					w.doLock(s, l.tx)
				}
			case x < 33 && len(live) > 0: // the SAME external transaction in a byte string that is not identical
				l := live[r.Intn(len(live))]
				base := w.txs[l.tx-1]
				vs := c15Variants(base.Bytes)
				t := w.addTxExt(vs[r.Intn(len(vs))], base.Ext)
				s := l.owner
				if r.Intn(3) == 0 {
					s = 1 + r.Intn(len(w.users))
				}
				if l.redeem {
					w.doRedeem(s, t)
				} else {
					w.doLock(s, t)
				}
				if w.c.Obs[len(w.c.Obs)-1].Ok {
					live = append(live, c15Live{w.txs[t-1].Name, t, s, l.redeem})
				}
			case x < 36 && len(live) > 0: // another external transaction with the same name
				l := live[r.Intn(len(live))]
				red := r.Intn(2) == 0
				t := collide(l.name, red)
				if t == 0 {
					continue
				}
				s := 1 + r.Intn(len(w.users))
				if red {
					w.doRedeem(s, t)
				} else {
					w.doLock(s, t)
				}
			case x < 41: // wrapped-token transfer
				f := 1 + r.Intn(len(w.users))
				if r.Intn(20) == 0 {
					f = c15SupplyID
				}
				to := anyAcct()
				if r.Intn(4) != 0 && to == c15SupplyID {
					to = 1 + r.Intn(len(w.users))
				}
				w.doTransfer(f, to, amounts[r.Intn(len(amounts))])
			default: // finality report
				if len(live) == 0 {
					w.doReport(w.nameOf([]byte{byte(b), byte(i), 7}), 1, 40, 0, true)
					continue
				}
				// prefer recent trackers so that thresholds are crossed
				k := len(live) - 1 - r.Intn(minInt(len(live), 4))
				if r.Intn(8) == 0 {
					k = r.Intn(len(live))
				}
				l := live[k]
				if !w.isOngoing(l.name) && r.Intn(6) != 0 {
					// mostly report on trackers that are still ongoing
					for tries := 0; tries < 6 && !w.isOngoing(l.name); tries++ {
						l = live[r.Intn(len(live))]
					}
				}
				v, idx := reporter()
				if r.Intn(25) == 0 {
					idx = -1 - int64(r.Intn(3)) // refused by Validate since DeliverTx validates (panicked in AddVote before)
				}
				locker := l.owner
				if r.Intn(5) == 0 {
					locker = anyAcct()
				}
				// lock trackers mostly succeed, redeem trackers mostly... both, with a per-tracker bias
				bias := (l.name*7 + int(cfg.Seed)) % 4
				succ := r.Intn(4) != bias%4 || bias == 3 && r.Intn(2) == 0
				if bias == 0 {
					succ = r.Intn(5) == 0
				}
				w.doReport(l.name, locker, v, idx, succ)
			}
		}
		w.endBlock()
	}
}

func (w *c15World) isOngoing(name int) bool {
	if len(w.c.Obs) == 0 {
		return false
	}
	for _, t := range w.c.Obs[len(w.c.Obs)-1].Ongoing {
		if t.Name == name {
			return true
		}
	}
	return false
}

func minInt(a, b int) int {
	if a < b {
		return a
	}
	return b
}

// ---------- Coq emission ----------

func c15N(i int) string { return fmt.Sprintf("%d%%N", i) }

func c15Ns(l []int) string {
	p := make([]string, len(l))
	for i, x := range l {
		p[i] = fmt.Sprint(x)
	}
	return "[" + strings.Join(p, ";") + "]%N"
}

func c15Zs(l []int) string {
	p := make([]string, len(l))
	for i, x := range l {
		p[i] = fmt.Sprint(x)
	}
	return "[" + strings.Join(p, ";") + "]%Z"
}

func c15Z(s string) string { return "(" + s + ")%Z" }

func c15OptZ(s *string) string {
	if s == nil {
		return "None"
	}
	return "(Some " + c15Z(*s) + ")"
}

func c15Bool(b bool) string {
	if b {
		return "true"
	}
	return "false"
}

func c15CoqOp(o c15Op) string {
	switch o.Kind {
	case "lock":
		return fmt.Sprintf("Lock %s %s", c15N(o.Sender), c15N(o.Tx))
	case "redeem":
		return fmt.Sprintf("Redeem %s %s", c15N(o.Sender), c15N(o.Tx))
	case "report":
		return fmt.Sprintf("Report %s %s %s (%d)%%Z %s", c15N(o.Name), c15N(o.Locker), c15N(o.Validator), o.Index, c15Bool(o.Success))
	case "transfer":
		return fmt.Sprintf("Transfer %s %s %s", c15N(o.From), c15N(o.To), c15Z(o.Amt))
	case "endblock":
		return fmt.Sprintf("EndBlock {| nl_witness := %s; nl_addr := %s; nl_bjob := %s |} %s", c15Bool(o.Witness), c15N(o.Node), c15Ns(o.Bjob), c15Ns(o.Names))
	}
	panic("bad op")
}

func c15CoqTrackers(l []c15Tracker) string {
	p := make([]string, len(l))
	for i, t := range l {
		p[i] = fmt.Sprintf("{| t_type := %d; t_state := %d; t_name := %s; t_tx := %s; t_wit := %s; t_owner := %s; t_votes := %s |}",
			t.Type, t.State, c15N(maxInt(t.Name, 0)), c15N(t.Tx), c15Ns(t.Wit), c15N(t.Owner), c15Zs(t.Votes))
	}
	return "[" + strings.Join(p, ";\n      ") + "]"
}

func maxInt(a, b int) int {
	if a > b {
		return a
	}
	return b
}

func c15CoqBals(l []c15Bal) string {
	p := make([]string, len(l))
	for i, b := range l {
		p[i] = fmt.Sprintf("(%s, %s)", c15N(b.ID), c15Z(b.Amt))
	}
	return "[" + strings.Join(p, "; ") + "]"
}

// changes of one store between two consecutive observations
func c15StoreDelta(prev, cur []c15Tracker) (set []c15Tracker, del []int) {
	pm := map[int]string{}
	for _, t := range prev {
		pm[t.Name] = fmt.Sprint(t)
	}
	cm := map[int]bool{}
	for _, t := range cur {
		cm[t.Name] = true
		if pm[t.Name] != fmt.Sprint(t) {
			set = append(set, t)
		}
	}
	for _, t := range prev {
		if !cm[t.Name] {
			del = append(del, t.Name)
		}
	}
	return
}

func c15CoqObs(prev, o c15Obs) string {
	so, do := c15StoreDelta(prev.Ongoing, o.Ongoing)
	sp, dp := c15StoreDelta(prev.Passed, o.Passed)
	sf, df := c15StoreDelta(prev.Failed, o.Failed)
	pb := map[int]string{}
	for _, b := range prev.Bal {
		pb[b.ID] = b.Amt
	}
	var cb []c15Bal
	for _, b := range o.Bal {
		if v, ok := pb[b.ID]; (ok && v != b.Amt) || (!ok && b.Amt != "0") {
			cb = append(cb, b)
		}
	}
	return fmt.Sprintf("{| o_ok := %s; o_ongoing := %s; o_ongoing_del := %s; o_passed := %s; o_passed_del := %s; o_failed := %s; o_failed_del := %s; o_bal := %s |}",
		c15Bool(o.Ok), c15CoqTrackers(so), c15Ns(do), c15CoqTrackers(sp), c15Ns(dp), c15CoqTrackers(sf), c15Ns(df), c15CoqBals(cb))
}

func c15CoqCase(c c15Case) string {
	txs := make([]string, len(c.Txs))
	for i, t := range c.Txs {
		txs[i] = fmt.Sprintf("(%s, {| x_name := %s; x_ext := %s; x_lock := %s; x_redeem := %s |})", c15N(t.ID), c15N(t.Name), c15N(t.Ext), c15OptZ(t.Lock), c15OptZ(t.Redeem))
	}
	ops := make([]string, len(c.Ops))
	obs := make([]string, len(c.Obs))
	prev := c15Obs{Bal: c.Bal0}
	for i := range c.Ops {
		ops[i] = c15CoqOp(c.Ops[i])
		obs[i] = c15CoqObs(prev, c.Obs[i])
		prev = c.Obs[i]
	}
	return fmt.Sprintf("{| c_wits := %s; c_cap := %s; c_supply := %s;\n   c_txs := [%s];\n   c_keys := %s; c_len20 := %s;\n   c_bal0 := %s;\n   c_ops := [%s];\n   c_obs := [%s] |}",
		c15Ns(c.Wits), c15Z(c.Cap), c15N(c15SupplyID), strings.Join(txs, ";\n     "), c15Ns(c.Keys), c15Ns(c.Len20), c15CoqBals(c.Bal0),
		strings.Join(ops, ";\n     "), strings.Join(obs, ";\n    "))
}

type c15Report struct {
	Cases    int            `json:"cases"`
	Steps    int            `json:"steps"`
	OpHist   map[string]int `json:"op_histogram"`
	OutHist  map[string]int `json:"outcome_histogram"`
	WitHist  map[string]int `json:"witness_count_histogram"`
	Mints    int            `json:"mints_observed"`
	Refunds  int            `json:"refunds_observed"`
	Moved    map[string]int `json:"trackers_final_store"`
	Distinct int            `json:"distinct_cases"`
	Twins    int            `json:"twin_runs"`
	TwinDiv  int            `json:"twin_divergences"`
	Samples  []string       `json:"samples"`
	Files    []string       `json:"files"`
}

func c15RunOne(cfg c15Cfg) c15Case {
	w := c15NewWorld(cfg)
	defer w.rep.Close()
	w.run(rand.New(rand.NewSource(cfg.Seed)))
	w.c.Txs = w.txs
	return w.c
}

// c15RunCfg runs the configuration; when the node's witness flag is ever switched on it also runs
// the twin node whose flag stays off and compares every step (consensus state must not depend on
// the node-local flag or job store)
func c15RunCfg(cfg c15Cfg) c15Case {
	c := c15RunOne(cfg)
	c.TwinDiv = -1
	if cfg.FlagFrom >= 0 {
		tc := cfg
		tc.FlagFrom = -1
		t := c15RunOne(tc)
		n := minInt(len(c.Obs), len(t.Obs))
		for i := 0; i < n && c.TwinDiv < 0; i++ {
			a, _ := json.Marshal(c.Obs[i])
			b, _ := json.Marshal(t.Obs[i])
			if c.Descr[i] != t.Descr[i] || string(a) != string(b) {
				c.TwinDiv = i
				c.TwinNote = fmt.Sprintf("step %d (%s): node with witness flag from block %d observes %s, node with the flag off observes %s", i, c.Descr[i], cfg.FlagFrom, a, b)
			}
		}
		if c.TwinDiv < 0 && len(c.Obs) != len(t.Obs) {
			c.TwinDiv = n
			c.TwinNote = "runs have different lengths"
		}
	}
	return c
}

// a scripted case (replay files, known-finding witnesses): ops are given, inputs recomputed
type c15Script struct {
	Cfg   c15Cfg
	Steps []c15ScriptStep
}
type c15ScriptStep struct {
	Kind                    string // locktx redeemtx varianttx lock redeem report transfer endblock flag
	Sender, Tx              int
	Amount                  string
	Tail                    int64
	Name, Locker, Validator int
	Index                   int64
	Success                 bool
	From, To                int
	On                      bool
}

func c15RunScript(sc c15Script) c15Case {
	w := c15NewWorld(sc.Cfg)
	defer w.rep.Close()
	open := false
	begin := func() {
		if !open {
			w.rep.BeginBlock(&BlockIn{})
			open = true
		}
	}
	for _, s := range sc.Steps {
		switch s.Kind {
		case "locktx":
			v, _ := new(big.Int).SetString(s.Amount, 10)
			w.addTx(c15LockBytes(v, c15Contract, c15LockData, uint64(s.Tail), c15S(s.Tail)))
		case "redeemtx":
			v, _ := new(big.Int).SetString(s.Amount, 10)
			w.addTx(c15RedeemBytes(v, s.Tail))
		case "craftredeemtx":
			v, _ := new(big.Int).SetString(s.Amount, 10)
			w.addTx(c15CraftedRedeemBytes(v.Int64(), 1, s.Tail))
		case "varianttx": // a non-identical byte string carrying the external transaction of tx s.Tx (index s.Index into c15Variants)
			base := w.txs[s.Tx-1]
			vs := c15Variants(base.Bytes)
			w.addTxExt(vs[int(s.Index)%len(vs)], base.Ext)
		case "lock":
			begin()
			w.doLock(s.Sender, s.Tx)
		case "redeem":
			begin()
			w.doRedeem(s.Sender, s.Tx)
		case "report":
			begin()
			w.doReport(s.Name, s.Locker, s.Validator, s.Index, s.Success)
		case "transfer":
			begin()
			v, _ := new(big.Int).SetString(s.Amount, 10)
			w.doTransfer(s.From, s.To, v.Int64())
		case "endblock":
			begin()
			w.endBlock()
			open = false
		case "flag":
			w.setFlag(s.On)
		}
	}
	if open {
		w.endBlock()
	}
	w.c.Txs = w.txs
	return w.c
}

func c15Main(args []string) int {
	fs := flag.NewFlagSet("c15", flag.ExitOnError)
	seed := fs.Int64("seed", 1, "PRNG seed")
	n := fs.Int("n", 4, "number of generated runs")
	blocks := fs.Int("blocks", 40, "blocks per run")
	outDir := fs.String("out", ".", "output directory")
	shardID := fs.Int("shard", 0, "shard id (file names, seed offset)")
	script := fs.String("script", "", "JSON file with a list of scripted cases to run first")
	cfgFile := fs.String("cfg", "", "JSON file with a list of run configurations to re-run (replay)")
	erc := fs.String("erc20", "", "run the ERC-20 lock resubmission scenarios on the real application and write what happened to this file")
	c18 := fs.String("c18", "", "write the two crash inputs observed while building C15 (for C18) to this file, after trying them")
	fs.Parse(args)
	if *c18 != "" {
		return c15CrashInputs(*c18)
	}
	if *erc != "" {
		return c15ERCProbe(*erc)
	}

	// the call data constant used for lock transactions must be what the ABI packs
	if tx, err := ethchain.DecodeTransaction(c15LockBytes(big.NewInt(1), c15Contract, c15LockData, 1, c15S(1))); err != nil {
		fmt.Fprintln(os.Stderr, "c15: cannot decode own lock tx", err)
		return 2
	} else if ok, err := ethchain.VerifyLock(tx, contract.LockRedeemABI); err != nil || !ok {
		fmt.Fprintln(os.Stderr, "c15: lock selector mismatch", err)
		return 2
	}

	cases := []c15Case{}
	if *script != "" {
		bz, err := os.ReadFile(*script)
		if err != nil {
			fmt.Fprintln(os.Stderr, err)
			return 2
		}
		var scs []c15Script
		if err := json.Unmarshal(bz, &scs); err != nil {
			fmt.Fprintln(os.Stderr, "bad script:", err)
			return 2
		}
		for _, sc := range scs {
			cases = append(cases, c15RunScript(sc))
		}
	}
	if *cfgFile != "" {
		bz, err := os.ReadFile(*cfgFile)
		if err != nil {
			fmt.Fprintln(os.Stderr, err)
			return 2
		}
		var cfgs []c15Cfg
		if err := json.Unmarshal(bz, &cfgs); err != nil {
			fmt.Fprintln(os.Stderr, "bad cfg:", err)
			return 2
		}
		for _, cfg := range cfgs {
			cases = append(cases, c15RunCfg(cfg))
		}
	}
	r := rand.New(rand.NewSource(*seed*7919 + int64(*shardID)))
	for i := 0; i < *n; i++ {
		nw := []int{1, 2, 3, 4, 4, 5, 6, 7, 3, 0}[(i+*shardID*3)%10]
		cfg := c15Cfg{NWit: nw, NodeWitness: nw > 0 && r.Intn(2) == 0, FlagFrom: []int{-1, 0, 3 + r.Intn(6)}[r.Intn(3)],
			Cap: []int64{300, 5000, 1000000}[r.Intn(3)], Seed: r.Int63n(1 << 40), Blocks: *blocks, Init: []int64{0, 50, 500}[r.Intn(3)], Supply20: r.Intn(4) == 0}
		cases = append(cases, c15RunCfg(cfg))
	}

	rep := c15Report{OpHist: map[string]int{}, OutHist: map[string]int{}, WitHist: map[string]int{}, Moved: map[string]int{}}
	seen := map[string]bool{}
	for _, c := range cases {
		rep.Cases++
		rep.Steps += len(c.Ops)
		if c.Cfg.FlagFrom >= 0 && c.Cfg.Blocks > 0 {
			rep.Twins++
			if c.TwinDiv >= 0 {
				rep.TwinDiv++
			}
		}
		rep.WitHist[fmt.Sprint(len(c.Wits))]++
		var sb strings.Builder
		prev := map[int]string{}
		for _, b := range c.Bal0 {
			prev[b.ID] = b.Amt
		}
		for i, o := range c.Ops {
			rep.OpHist[o.Kind]++
			k := o.Kind + ":fail"
			if c.Obs[i].Ok {
				k = o.Kind + ":ok"
			}
			rep.OutHist[k]++
			sb.WriteString(c15CoqOp(o))
			if o.Kind == "report" && c.Obs[i].Ok {
				for _, b := range c.Obs[i].Bal {
					if b.ID != c15SupplyID && b.Amt != prev[b.ID] && !(prev[b.ID] == "" && b.Amt == "0") {
						if o.Success {
							rep.Mints++
						} else {
							rep.Refunds++
						}
					}
				}
			}
			for _, b := range c.Obs[i].Bal {
				prev[b.ID] = b.Amt
			}
		}
		if len(c.Obs) > 0 {
			last := c.Obs[len(c.Obs)-1]
			rep.Moved["ongoing"] += len(last.Ongoing)
			rep.Moved["passed"] += len(last.Passed)
			rep.Moved["failed"] += len(last.Failed)
		}
		seen[sb.String()] = true
	}
	rep.Distinct = len(seen)

	var b bytes.Buffer
	b.WriteString("From stdpp Require Import gmap list.\nFrom Coq Require Import ZArith.\n")
	b.WriteString("From OL Require Import theories.Tracker theories.TrackerCheck.\nLocal Open Scope Z_scope.\n")
	b.WriteString("Definition cases : list case := [\n")
	for i, c := range cases {
		b.WriteString(c15CoqCase(c))
		if i+1 < len(cases) {
			b.WriteString(";\n")
		}
	}
	b.WriteString("].\n")
	b.WriteString("Definition MM := Eval vm_compute in flat2 (model_mismatches 0 cases).\n")
	b.WriteString("Definition SV := Eval vm_compute in flat4 (spec_violations 0 cases).\n")
	b.WriteString("Definition ST := Eval vm_compute in case_stats cases.\n")
	b.WriteString("Print MM.\nPrint SV.\nPrint ST.\n")
	name := fmt.Sprintf("%s/c15_cases_%d.v", *outDir, *shardID)
	if err := os.WriteFile(name, b.Bytes(), 0644); err != nil {
		fmt.Fprintln(os.Stderr, err)
		return 2
	}
	rep.Files = append(rep.Files, name)
	for i := 0; i < len(cases) && len(rep.Samples) < 2; i++ {
		c := cases[i]
		lim := minInt(len(c.Descr), 25)
		rep.Samples = append(rep.Samples, fmt.Sprintf("witnesses=%d cap=%s: %s ...", len(c.Wits), c.Cap, strings.Join(c.Descr[:lim], " | ")))
	}
	all, _ := json.Marshal(cases)
	_ = os.WriteFile(fmt.Sprintf("%s/c15_cases_%d.json", *outDir, *shardID), all, 0644)
	bz, _ := json.MarshalIndent(rep, "", " ")
	_ = os.WriteFile(fmt.Sprintf("%s/c15_report_%d.json", *outDir, *shardID), bz, 0644)
	say("c15: %d cases, %d steps, %d mints, %d refunds\n", rep.Cases, rep.Steps, rep.Mints, rep.Refunds)
	return 0
}

// ---------- crash inputs for C18 ----------

type c15Crash struct {
	ID       string   `json:"id"`
	Note     string   `json:"note"`
	Site     string   `json:"site"`
	Genesis  string   `json:"genesis"`
	SetupHex []string `json:"setup_txs_hex"`
	TxHex    string   `json:"tx_hex"`
	TxType   string   `json:"tx_type"`
	Payload  string   `json:"payload_json"`
	Observed string   `json:"observed"`
}

// deliver tx on a fresh world after the setup txs; report what the application did
func c15TryCrash(setup func(w *c15World) [][]byte, mk func(w *c15World) ([]byte, string)) (setupHex []string, txHex, payload, observed string) {
	w := c15NewWorld(c15Cfg{NWit: 4, Cap: 1000000, Seed: 1, FlagFrom: -1, ERC: true})
	defer func() {
		defer func() { recover() }()
		w.rep.Close()
	}()
	w.rep.BeginBlock(&BlockIn{})
	for _, tx := range setup(w) {
		res := w.rep.DeliverTx(tx)
		setupHex = append(setupHex, hex.EncodeToString(tx))
		if res.Code != 0 {
			observed = "setup tx failed: " + res.Log
			return
		}
	}
	tx, pl := mk(w)
	txHex, payload = hex.EncodeToString(tx), pl
	res := w.rep.DeliverTx(tx)
	closed := false
	func() {
		defer func() {
			if r := recover(); r != nil {
				closed = true
			}
		}()
		w.rep.EndBlock()
		w.rep.Commit()
	}()
	observed = fmt.Sprintf("DeliverTx returned code %d log %q; application closed afterwards (EndBlock/Commit panics): %v", res.Code, res.Log, closed)
	return
}

func c15CrashInputs(path string) int {
	gen := "genesis as built by harness/c15.go c15NewWorld: ETHCDOption{ContractABI: contract.LockRedeemABI, ContractAddress: 0x..0c0de1, TotalSupply: 1000000, " +
		"TotalSupplyAddr: oneledgerSupplyAddress}, 4 witnesses (seedKey(100..103)), signer = user 1 (seedKey(60)), funded with OLT"
	out := []c15Crash{}
	{
		c := c15Crash{ID: "C15.redeem_bytes_without_selector", TxType: "ETH_REDEEM (0x93)", Genesis: gen,
			Site: "chains/ethereum/offline_chain_driver.go ParseRedeem: ss := strings.Split(hex(data), selector); ss[1] with len(ss)==1 (called from action/eth/ext_redeem.go runRedeem, CheckTx and DeliverTx)",
			Note: "an ETH_REDEEM whose ETHTxn bytes do not contain the redeem(uint256) selector (here: a well-formed lock transaction): index out of range [1] with length 1 -> panic in the handler -> handlePanic closes the application"}
		c.SetupHex, c.TxHex, c.Payload, c.Observed = c15TryCrash(func(w *c15World) [][]byte { return nil }, func(w *c15World) ([]byte, string) {
			k := w.idKey[1]
			m := acteth.Redeem{Owner: k.Addr, To: ethcommon.BytesToAddress(k.Addr), ETHTxn: c15LockBytes(big.NewInt(5), c15Contract, c15LockData, 1, c15S(1))}
			pl, _ := m.Marshal()
			return mkTx(action.ETH_REDEEM, m, GAS, "c18", k), string(pl)
		})
		out = append(out, c)
	}
	{
		c := c15Crash{ID: "C15.report_negative_vote_index", TxType: "ETH_REPORT_FINALITY_MINT (0x92)", Genesis: gen,
			Site: "data/ethereum/tracker.go AddVote: t.Witnesses[index] with index < 0 (Validate rejects VoteIndex < 0 but DeliverTx does not call Validate; ProcessCheck = runCheckFinality has the same path)",
			Note: "a finality report with VoteIndex -1 for an existing ongoing tracker, sent by an address that has not voted: `len(t.Witnesses) <= int(index)` is false for a negative index, CheckIfVoted is false, then t.Witnesses[-1] panics"}
		c.SetupHex, c.TxHex, c.Payload, c.Observed = c15TryCrash(func(w *c15World) [][]byte {
			k := w.idKey[1]
			id := w.addTx(c15LockBytes(big.NewInt(5), c15Contract, c15LockData, 1, c15S(1)))
			return [][]byte{mkTx(action.ETH_LOCK, acteth.Lock{Locker: k.Addr, ETHTxn: w.txs[id-1].Bytes}, GAS, "c18-setup", k)}
		}, func(w *c15World) ([]byte, string) {
			k := w.idKey[20]
			var tn ethchain.TrackerName
			bz, _ := hex.DecodeString(w.nameHex[0])
			tn.SetBytes(bz)
			m := &acteth.ReportFinality{TrackerName: tn, Locker: w.idAddr[1], ValidatorAddress: k.Addr, VoteIndex: -1, Success: true}
			pl, _ := m.Marshal()
			return mkTx(action.ETH_REPORT_FINALITY_MINT, m, GAS, "c18", k), string(pl)
		})
		out = append(out, c)
	}
	{
		c := c15Crash{ID: "C15.erc20_lock_bytes_without_selector", TxType: "ERC20_LOCK (0x94)", Genesis: gen + "; TokenList = [TTC at 0x..070c31 with ERC20BasicABI]",
			Site: "chains/ethereum/helpers.go parseERC20Lock: ss := strings.Split(hex(data), selector); ss[1][64:128] without any length check (called from VerfiyERC20Lock in runERC20Lock)",
			Note: "an ERC20_LOCK whose ETHTxn is a transaction to a registered token address whose bytes do not contain the transfer(address,uint256) selector"}
		c.SetupHex, c.TxHex, c.Payload, c.Observed = c15TryCrash(func(w *c15World) [][]byte { return nil }, func(w *c15World) ([]byte, string) {
			k := w.idKey[1]
			m := acteth.ERC20Lock{Locker: k.Addr, ETHTxn: c15LockBytes(big.NewInt(0), c15Token, []byte{1, 2, 3, 4}, 1, c15S(1))}
			pl, _ := m.Marshal()
			return mkTx(action.ERC20_LOCK, m, GAS, "c18", k), string(pl)
		})
		out = append(out, c)
	}
	{
		c := c15Crash{ID: "C15.erc20_redeem_bytes_without_selector", TxType: "ERC20_REDEEM (0x95)", Genesis: gen + "; ERCContractABI = LockRedeemERCABI",
			Site: "chains/ethereum/helpers.go parseERC20Redeem: ss[1][88:128] without any length check (called from ParseERC20RedeemParams in runERC20Reddem)",
			Note: "an ERC20_REDEEM whose ETHTxn bytes do not contain the redeem(uint256,address) selector"}
		c.SetupHex, c.TxHex, c.Payload, c.Observed = c15TryCrash(func(w *c15World) [][]byte { return nil }, func(w *c15World) ([]byte, string) {
			k := w.idKey[1]
			m := acteth.ERC20Redeem{Owner: k.Addr, To: ethcommon.BytesToAddress(k.Addr), ETHTxn: []byte{0xc0, 1, 2, 3}}
			pl, _ := m.Marshal()
			return mkTx(action.ERC20_REDEEM, m, GAS, "c18", k), string(pl)
		})
		out = append(out, c)
	}
	{
		c := c15Crash{ID: "C15.erc20_lock_wrong_receiver_nil_error", TxType: "ERC20_LOCK (0x94)", Genesis: gen + "; TokenList = [TTC at 0x..070c31 with ERC20BasicABI]",
			Site: "action/eth/ext_ERC20Lock.go runERC20Lock: `if !ok { ... Log: \"...\" + err.Error() }` with err == nil when VerfiyERC20Lock returns (false, nil)",
			Note: "an ERC20_LOCK whose token transfer goes to an address other than ERCContractAddress: the refusal path calls Error() on a nil error"}
		c.SetupHex, c.TxHex, c.Payload, c.Observed = c15TryCrash(func(w *c15World) [][]byte { return nil }, func(w *c15World) ([]byte, string) {
			k := w.idKey[1]
			data := ethcommon.FromHex("a9059cbb")
			recv := make([]byte, 32)
			recv[31] = 0x77
			amt := make([]byte, 32)
			amt[31] = 5
			data = append(append(data, recv...), amt...)
			m := acteth.ERC20Lock{Locker: k.Addr, ETHTxn: c15LockBytes(big.NewInt(0), c15Token, data, 1, c15S(1))}
			pl, _ := m.Marshal()
			return mkTx(action.ERC20_LOCK, m, GAS, "c18", k), string(pl)
		})
		out = append(out, c)
	}
	bz, _ := json.MarshalIndent(map[string]interface{}{
		"comment": "Crash inputs observed while building the C15 check (they are C18's subject; the C15 generator never submits them). " +
			"tx_hex = the serialized signed transaction as passed to DeliverTx/CheckTx; setup_txs_hex must be delivered first in the same chain. " +
			"Regenerate / re-try with: build/vh c15 -c18 <file>",
		"inputs": out}, "", " ")
	if err := os.WriteFile(path, bz, 0644); err != nil {
		fmt.Fprintln(os.Stderr, err)
		return 2
	}
	for _, c := range out {
		say("%s: %s\n", c.ID, c.Observed)
	}
	return 0
}

// ---------- ERC-20 lock resubmission probe (package-external, whole application) ----------

func c15ERCLockBytes(amount int64, nonce uint64, tail int64) []byte {
	data := ethcommon.FromHex("a9059cbb")
	recv := make([]byte, 32)
	copy(recv[12:], c15Contract.Bytes())
	amt := make([]byte, 32)
	big.NewInt(amount).FillBytes(amt)
	data = append(append(data, recv...), amt...)
	return c15LockBytes(big.NewInt(0), c15Token, data, nonce, c15S(tail))
}

// a signed Ethereum transaction calling redeem(amount, token) on the ERC lock-redeem contract
func c15ERCRedeemBytes(amount int64, tail int64) []byte {
	data := ethcommon.FromHex("7bde82f2")
	a := make([]byte, 32)
	big.NewInt(amount).FillBytes(a)
	tok := make([]byte, 32)
	copy(tok[12:], c15Token.Bytes())
	data = append(append(data, a...), tok...)
	return c15LockBytes(big.NewInt(0), c15Contract, data, uint64(tail), c15S(tail))
}

type c15ERCStep struct {
	Do      string            `json:"do"`
	Ok      bool              `json:"ok"`
	Log     string            `json:"log,omitempty"`
	TTC     map[string]string `json:"ttc_balances"`
	Stores  string            `json:"tracker_stores"`
	Ongoing []c15Tracker      `json:"ongoing"`
	Passed  []c15Tracker      `json:"passed"`
	Failed  []c15Tracker      `json:"failed"`
	TxHex   string            `json:"tx_hex,omitempty"`
}

func (w *c15World) ttc() map[string]string {
	view := w.rep.View()
	ser := serialize.GetSerializer(serialize.PERSISTENT)
	m := map[string]string{}
	for _, id := range []int{1, 2, c15SupplyID} {
		amt := balance.NewAmount(0)
		if v, ok := view["b_"+w.idAddr[id].String()+"_TTC"]; ok && len(v) > 0 {
			_ = ser.Deserialize([]byte(v), amt)
		}
		m[fmt.Sprintf("acct%d", id)] = amt.BigInt().String()
	}
	return m
}

func (w *c15World) stores() string {
	o := w.observe(true)
	f := func(l []c15Tracker) string {
		p := []string{}
		for _, t := range l {
			p = append(p, fmt.Sprintf("{type %d state %d owner %d votes %v}", t.Type, t.State, t.Owner, t.Votes))
		}
		return "[" + strings.Join(p, " ") + "]"
	}
	return "ongoing " + f(o.Ongoing) + " passed " + f(o.Passed) + " failed " + f(o.Failed)
}

func c15ERCScenario(title string, script func(w *c15World, step func(do string, tx []byte))) map[string]interface{} {
	w := c15NewWorld(c15Cfg{NWit: 4, Cap: 1000000, Seed: 1, FlagFrom: -1, ERC: true, TTCInit: 1000})
	defer w.rep.Close()
	steps := []c15ERCStep{}
	w.rep.BeginBlock(&BlockIn{})
	step := func(do string, tx []byte) {
		if tx == nil { // block boundary
			w.rep.EndBlock()
			w.rep.Commit()
			w.rep.BeginBlock(&BlockIn{})
			o := w.observe(true)
			steps = append(steps, c15ERCStep{Do: do, Ok: true, TTC: w.ttc(), Stores: w.stores(), Ongoing: o.Ongoing, Passed: o.Passed, Failed: o.Failed})
			return
		}
		res := w.rep.DeliverTx(tx)
		o := w.observe(res.Code == 0)
		steps = append(steps, c15ERCStep{Do: do, Ok: res.Code == 0, Log: res.Log, TTC: w.ttc(), Stores: w.stores(), Ongoing: o.Ongoing, Passed: o.Passed, Failed: o.Failed, TxHex: hex.EncodeToString(tx)})
	}
	script(w, step)
	return map[string]interface{}{"scenario": title, "steps": steps, "final_ttc": w.ttc(), "final_stores": w.stores()}
}

func c15ERCProbe(path string) int {
	ext := c15ERCLockBytes(100, 7, 4242)
	lock := func(w *c15World, by int) []byte {
		k := w.idKey[by]
		w.addTx(ext)
		return mkTx(action.ERC20_LOCK, acteth.ERC20Lock{Locker: k.Addr, ETHTxn: ext}, GAS, fmt.Sprintf("erc-%d-%d", by, len(w.txs)+rand.Intn(1<<30)), k)
	}
	report := func(w *c15World, wi int, locker int) []byte {
		k := w.idKey[20+wi]
		var tn ethchain.TrackerName
		tn.SetBytes(ethcommon.BytesToHash(ext).Bytes())
		m := &acteth.ReportFinality{TrackerName: tn, Locker: w.idAddr[locker], ValidatorAddress: k.Addr, VoteIndex: int64(wi), Success: true}
		return mkTx(action.ETH_REPORT_FINALITY_MINT, m, GAS, fmt.Sprintf("r-%d-%d", wi, rand.Intn(1<<30)), k)
	}
	out := []map[string]interface{}{}
	out = append(out, c15ERCScenario("A: the same ERC-20 lock transaction is submitted again after its tracker passed: second tracker, second mint", func(w *c15World, step func(string, []byte)) {
		step("ERC20_LOCK of external tx X (transfer of 100 TTC to the contract) by account 1", lock(w, 1))
		step("end of block", nil)
		for i := 0; i < 3; i++ {
			step(fmt.Sprintf("witness %d reports success", i), report(w, i, 1))
		}
		step("end of block (Released)", nil)
		step("end of block (clean-up: tracker moves to the passed store)", nil)
		step("ERC20_LOCK of the SAME external tx X by account 1 again", lock(w, 1))
		step("end of block", nil)
		for i := 0; i < 3; i++ {
			step(fmt.Sprintf("witness %d reports success again (X is still final on Ethereum)", i), report(w, i, 1))
		}
		step("end of block", nil)
		step("end of block", nil)
	}))
	out = append(out, c15ERCScenario("B: a pending ERC-20 lock is overwritten by a resubmission from another account: votes reset, owner replaced, the mint goes to the second submitter", func(w *c15World, step func(string, []byte)) {
		step("ERC20_LOCK of external tx X by account 1", lock(w, 1))
		step("end of block", nil)
		step("witness 0 reports success", report(w, 0, 1))
		step("witness 1 reports success", report(w, 1, 1))
		step("ERC20_LOCK of the SAME external tx X by account 2", lock(w, 2))
		step("end of block", nil)
		for i := 0; i < 3; i++ {
			step(fmt.Sprintf("witness %d reports success", i), report(w, i, 2))
		}
		step("end of block", nil)
		step("end of block", nil)
	}))
	lockRaw := func(w *c15World, by int, raw []byte) []byte {
		k := w.idKey[by]
		w.addTx(raw)
		return mkTx(action.ERC20_LOCK, acteth.ERC20Lock{Locker: k.Addr, ETHTxn: raw}, GAS, fmt.Sprintf("erc-%d-%d", by, rand.Intn(1<<30)), k)
	}
	redeemRaw := func(w *c15World, by int, raw []byte) []byte {
		k := w.idKey[by]
		w.addTx(raw)
		return mkTx(action.ERC20_REDEEM, acteth.ERC20Redeem{Owner: k.Addr, To: ethcommon.BytesToAddress(k.Addr), ETHTxn: raw}, GAS, fmt.Sprintf("ercr-%d-%d", by, rand.Intn(1<<30)), k)
	}
	reportOn := func(w *c15World, raw []byte, wi int, locker int, success bool) []byte {
		k := w.idKey[20+wi]
		var tn ethchain.TrackerName
		tn.SetBytes(ethcommon.BytesToHash(raw).Bytes())
		m := &acteth.ReportFinality{TrackerName: tn, Locker: w.idAddr[locker], ValidatorAddress: k.Addr, VoteIndex: int64(wi), Success: success}
		return mkTx(action.ETH_REPORT_FINALITY_MINT, m, GAS, fmt.Sprintf("r-%d-%d", wi, rand.Intn(1<<30)), k)
	}
	out = append(out, c15ERCScenario("C: the same ERC-20 lock transaction in byte strings that are not identical (trailing bytes, leading zero, non-minimal length, wrapped)", func(w *c15World, step func(string, []byte)) {
		step("ERC20_LOCK of external tx X by account 1", lockRaw(w, 1, ext))
		for i, v := range c15Variants(ext) {
			step(fmt.Sprintf("ERC20_LOCK of the SAME external tx X, variant %d", i), lockRaw(w, 1, v))
		}
		step("end of block", nil)
	}))
	rext := c15ERCRedeemBytes(100, 4343)
	out = append(out, c15ERCScenario("D: the same ERC-20 redeem transaction in byte strings that are not identical: each accepted copy debits the owner again", func(w *c15World, step func(string, []byte)) {
		step("ERC20_REDEEM of external tx R (redeem 100 TTC) by account 2", redeemRaw(w, 2, rext))
		for i, v := range c15Variants(rext) {
			step(fmt.Sprintf("ERC20_REDEEM of the SAME external tx R, variant %d", i), redeemRaw(w, 2, v))
		}
		step("end of block", nil)
	}))
	out = append(out, c15ERCScenario("E: an ERC-20 redeem that more than two thirds of the witnesses report as failed is failed, archived and refunded", func(w *c15World, step func(string, []byte)) {
		step("ERC20_REDEEM of external tx R (redeem 100 TTC) by account 2", redeemRaw(w, 2, rext))
		step("end of block", nil)
		for i := 0; i < 4; i++ {
			step(fmt.Sprintf("witness %d reports failure", i), reportOn(w, rext, i, 2, false))
		}
		step("end of block", nil)
		step("end of block", nil)
	}))
	out = append(out, c15ERCScenario("F: an ERC-20 lock that more than two thirds of the witnesses report as failed is failed and archived (nothing minted)", func(w *c15World, step func(string, []byte)) {
		step("ERC20_LOCK of external tx X by account 1", lockRaw(w, 1, ext))
		step("end of block", nil)
		for i := 0; i < 4; i++ {
			step(fmt.Sprintf("witness %d reports failure", i), reportOn(w, ext, i, 1, false))
		}
		step("end of block", nil)
		step("end of block", nil)
	}))
	bz, _ := json.MarshalIndent(out, "", " ")
	if err := os.WriteFile(path, bz, 0644); err != nil {
		fmt.Fprintln(os.Stderr, err)
		return 2
	}
	for _, sc := range out {
		say("%s\n  final TTC %v\n  %s\n", sc["scenario"], sc["final_ttc"], sc["final_stores"])
	}
	return 0
}
