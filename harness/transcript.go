package main

import (
	"crypto/sha256"
	"flag"
	"fmt"
	"math/rand"
)

func init() { subcmds["transcript"] = transcriptMain }

// transcript: digest of the consensus transcript of generated histories.  With -honest every
// transaction is first offered to CheckTx (as an honest proposer's mempool would) and left out
// of the block when the check rejects it.  Used to compare two builds of /repo.
func transcriptMain(args []string) int {
	fs := flag.NewFlagSet("transcript", flag.ExitOnError)
	seed := fs.Int64("seed", 1, "seed")
	nh := fs.Int("n", 4, "histories")
	nb := fs.Int("blocks", 30, "blocks")
	honest := fs.Bool("honest", true, "only deliver what CheckTx accepts")
	fs.Parse(args)
	r := rand.New(rand.NewSource(*seed))
	w := NewWorld(3, 5, 2)
	hs := []*History{}
	for _, sn := range scenarioNames {
		hs = append(hs, scenarioHistory(sn, w))
	}
	for i := 0; i < *nh; i++ {
		hs = append(hs, genHistory(r, w, *nb, 6))
	}
	gens := []string{"default", "mature", "pending"}
	for i, h := range hs {
		rep := NewReplica(genesisVariant(w, gens[i%len(gens)]), ReplicaOpts{NodeVal: w.Vals[0].Val})
		rep.InitChain()
		d := sha256.New()
		ntx, nskip, nfail := 0, 0, 0
		for bi := range h.Blocks {
			in := h.Blocks[bi]
			rep.BeginBlock(&in)
			for _, tx := range in.Txs {
				if *honest {
					if c := rep.CheckTx(tx); c.Code != 0 {
						nskip++
						continue
					}
				}
				res := rep.DeliverTx(tx)
				ntx++
				if res.Code != 0 {
					nfail++
				}
				fmt.Fprintf(d, "%d/%x/%d/%d;", res.Code, res.Data, res.GasWanted, res.GasUsed)
			}
			eb := rep.EndBlock()
			for _, u := range eb.ValidatorUpdates {
				fmt.Fprintf(d, "%x:%d,", u.PubKey.Data, u.Power)
			}
			fmt.Fprintf(d, "|%s\n", rep.Commit())
		}
		say("history %d: delivered=%d failed=%d skipped=%d digest=%x tmerror=%q\n", i, ntx, nfail, nskip, d.Sum(nil)[:8], rep.TMError)
		rep.Close()
	}
	return 0
}
