package main

// c10: correspondence and monitors for the validator election (identity.ValidatorStore.GetEndBlockUpdate)
// through the whole application (Replica), with the real tendermint ValidatorSet as acceptance oracle.
// Per block the inputs the Go function read (v_ records of the previous version, options, malicious
// set, last-active set, purged_ records) and what it returned are written to Coq case files.

import (
	"bytes"
	"encoding/binary"
	"encoding/json"
	"flag"
	"fmt"
	"io/ioutil"
	"math/big"
	"math/rand"
	"os"
	"os/exec"
	"sort"
	"strings"
	"time"

	"github.com/Oneledger/protocol/action"
	"github.com/Oneledger/protocol/action/staking"
	"github.com/Oneledger/protocol/consensus"
	"github.com/Oneledger/protocol/data/balance"
	"github.com/Oneledger/protocol/data/delegation"
	"github.com/Oneledger/protocol/data/evidence"
	"github.com/Oneledger/protocol/data/keys"
	"github.com/Oneledger/protocol/identity"
	"github.com/Oneledger/protocol/serialize"
	abci "github.com/tendermint/tendermint/abci/types"
	tmtypes "github.com/tendermint/tendermint/types"
)

func init() { subcmds["c10"] = c10Main }

type c10Cand struct {
	Addr  int    `json:"addr"`
	Pk    int    `json:"pk"`
	Power int64  `json:"power"`
	Stake string `json:"stake"`
}

type c10KV struct {
	K int   `json:"k"`
	V int64 `json:"v"`
}

type c10Case struct {
	Hist      int       `json:"hist"`
	Kind      string    `json:"kind"`
	Height    int64     `json:"height"`
	Cands     []c10Cand `json:"cands"`
	OMin      string    `json:"omin"`
	OTop      int64     `json:"otop"`
	Mal       []int     `json:"mal"`
	LA        []int     `json:"la"`
	Pg        []c10KV   `json:"pg"`
	Frozen    []int     `json:"frozen"`
	Bvd       int64     `json:"bvd"`
	Next      []c10KV   `json:"next"`
	Ups       []c10KV   `json:"ups"`
	PgAfter   []c10KV   `json:"pg_after"`
	TmOk      bool      `json:"tm_ok"`
	TmErr     string    `json:"tm_err,omitempty"`
	NextAfter []c10KV   `json:"next_after"`
	Txs       []string  `json:"txs,omitempty"` // descriptions with result codes
	OwnStakeDiff []string `json:"own_stake_diff,omitempty"`
	Quiet     int64     `json:"quiet"`
	Staked    []c10KV   `json:"staked,omitempty"` // st__t_ totals (own stake) in the state committed by the previous block
	Absent    []int     `json:"absent,omitempty"` // members of LastCommitInfo with SignedLastBlock=false
	LastRefused string  `json:"last_refused,omitempty"` // the last transaction of the block was refused by Validate (cause)
	Released  []int     `json:"released,omitempty"`  // validators whose RELEASE succeeded in this block
	TwinDiff  string    `json:"twin_diff,omitempty"` // a replica restarted after the release returned other validator updates
	Crashed   bool      `json:"crashed,omitempty"` // the node exited (logger.Fatal) inside EndBlock of this block
	HSeed     int64     `json:"hseed"`
}

type c10TCase struct {
	Set   []c10KV `json:"set"`
	Ups   []c10KV `json:"ups"`
	Ok    bool    `json:"ok"`
	After []c10KV `json:"after"`
}

// ---- identifiers: rank of the consensus public key bytes; an address gets the id of its key ----
type c10IDs struct {
	byAddr map[string]int
	n      int
}

func c10NewIDs(ks []Key) *c10IDs {
	sorted := append([]Key{}, ks...)
	sort.Slice(sorted, func(i, j int) bool { return bytes.Compare(sorted[i].Pub.Data, sorted[j].Pub.Data) < 0 })
	ids := &c10IDs{byAddr: map[string]int{}}
	for i, k := range sorted {
		ids.byAddr[string(k.Addr)] = i + 1
	}
	ids.n = len(sorted)
	return ids
}

func (ids *c10IDs) addr(a []byte) int {
	if id, ok := ids.byAddr[string(a)]; ok {
		return id
	}
	ids.n++
	ids.byAddr[string(a)] = 1000 + ids.n
	return 1000 + ids.n
}

func (ids *c10IDs) pub(data []byte) int {
	return ids.addr(tmPubRaw(data))
}

func tmPubRaw(data []byte) []byte {
	return tmPub(keys.PublicKey{Data: data}).Address()
}

// ---- scenario ----
type c10Scenario struct {
	Kind   string
	Vals   []ValSpec // genesis validators
	Extra  []ValSpec // other candidates
	Rogue  []ValSpec // stake accounts + validator addresses used to register someone else's key
	Top    int64
	Min    int64
	Fork   int64
	Bvd    int64
	Blocks int
	Ties   bool
	Variant   int  // kind "refused_last": 0 unstake below the minimum, 1 guilty verdict, 2 out-staked
	ByVerdict bool // kind "release": freeze by a guilty verdict (else by missed votes)
}

func (sc *c10Scenario) all() []ValSpec {
	return append(append(append([]ValSpec{}, sc.Vals...), sc.Extra...), sc.Rogue...)
}

func (sc *c10Scenario) genesis() *GenesisSpec {
	g := &GenesisSpec{Vals: sc.Vals, Fork: sc.Fork}
	for _, v := range sc.all() {
		g.Funded = append(g.Funded, v.Stake.Addr)
	}
	top, min, bvd := sc.Top, sc.Min, sc.Bvd
	minVotes := int64(2)
	_ = minVotes
	g.Customize = func(st *consensus.AppState) {
		st.Governance.StakingOptions = delegation.Options{MinSelfDelegationAmount: *balance.NewAmount(min), MinDelegationAmount: *balance.NewAmount(1), TopValidatorCount: top, MaturityTime: 3}
		st.Governance.EvidenceOptions.BlockVotesDiff = bvd
		// with the default of 1 the missed-votes freeze is unreachable (an address with 0 votes in the
		// window is dropped from the cumulative map and never scanned)
		st.Governance.EvidenceOptions.MinVotesRequired = minVotes
	}
	return g
}

func c10Scen(r *rand.Rand, kind string) *c10Scenario {
	fixedVariant := -1
	if strings.HasPrefix(kind, "absent_leaves:") { // the route is part of the kind name
		fmt.Sscanf(kind, "absent_leaves:%d", &fixedVariant)
		kind = "absent_leaves"
	}
	if strings.HasPrefix(kind, "restake_full:") {
		fmt.Sscanf(kind, "restake_full:%d", &fixedVariant)
		kind = "restake_full"
	}
	sc := &c10Scenario{Kind: kind, Min: 1000, Bvd: 4}
	nv, ne := 1+r.Intn(4), r.Intn(9)
	sc.Top = int64(1 + r.Intn(5))
	sc.Blocks = 12 + r.Intn(10)
	sc.Ties = r.Intn(2) == 0
	switch kind {
	case "e10":
		nv, ne, sc.Top, sc.Blocks, sc.Ties = 2+r.Intn(3), r.Intn(3), int64(3+r.Intn(3)), 9, false
	case "unstake_all":
		nv, ne, sc.Blocks = 1+r.Intn(3), 0, 10
	case "ghost":
		nv, ne, sc.Top, sc.Blocks, sc.Ties = 2, 1, 4, 14, false
	case "frozen":
		nv, ne, sc.Top, sc.Blocks, sc.Ties, sc.Bvd = 4, 0, 4, 10, false, 6
	case "restake_full":
		// full unstake at H-1, stake again at H (variants: 0 at H, 1 at H+1, 2 partial re-stake at H,
		// 3 another validator stakes in between), then quiet blocks
		nv, ne, sc.Top, sc.Blocks, sc.Ties = 3, 1, 5, 16, false
		if fixedVariant >= 0 {
			sc.Variant = fixedVariant
		}
	case "restake":
		nv, ne, sc.Top, sc.Blocks, sc.Ties = 3, 0, 4, 9, false
	case "absent_leaves":
		// a validator whose node is down (absent in LastCommitInfo) leaves the election by one of three
		// routes (0 frozen for missed votes, 1 unstaked below the minimum, 2 out-staked); then quiet blocks
		sc.Variant = r.Intn(3)
		if fixedVariant >= 0 {
			sc.Variant = fixedVariant
		}
		nv, ne, sc.Top, sc.Blocks, sc.Ties, sc.Bvd = 4, 1, 4, 18, false, 4
	case "refused_last":
		// a validator leaves the election (below the minimum / frozen / out-staked) and every block ends
		// with a transaction that Validate refuses
		sc.Variant = r.Intn(3)
		nv, ne, sc.Top, sc.Blocks, sc.Ties, sc.Bvd = 4, 1, 4, 10, false, 4
	case "release":
		// freeze (missed votes or guilty verdict) -> wait -> RELEASE -> at least 8 more blocks
		nv, ne, sc.Top, sc.Blocks, sc.Ties, sc.Bvd = 4, r.Intn(2), int64(4+r.Intn(2)), 26, false, 4
		sc.ByVerdict = r.Intn(2) == 0
	case "fork":
		sc.Fork = int64(3 + r.Intn(6))
	}
	for i := 0; i < nv; i++ {
		p := int64(1000 + 37*i + r.Intn(30))
		if sc.Ties {
			p = []int64{1000, 1500, 1500, 2000}[r.Intn(4)]
		}
		if kind == "fork" {
			p = []int64{499999, 500000, 500001, 600000}[r.Intn(4)] + int64(i)
			if sc.Ties {
				p = []int64{499999, 500000, 500000, 600000}[r.Intn(4)]
			}
		}
		sc.Vals = append(sc.Vals, ValSpec{Val: seedKey(byte(10 + i)), Stake: seedKey(byte(30 + i)), Power: p})
	}
	for i := 0; i < ne; i++ {
		sc.Extra = append(sc.Extra, ValSpec{Val: seedKey(byte(90 + i)), Stake: seedKey(byte(110 + i))})
	}
	for i := 0; i < 2; i++ {
		sc.Rogue = append(sc.Rogue, ValSpec{Val: seedKey(byte(150 + i)), Stake: seedKey(byte(160 + i))})
	}
	return sc
}

// ---- decoding of the committed tree / deliver view ----
func c10Validators(d map[string]string) []identity.Validator {
	out := []identity.Validator{}
	for _, k := range sortedKeys(d) {
		if strings.HasPrefix(k, "v_") {
			v := identity.Validator{}
			if err := serialize.GetSerializer(serialize.PERSISTENT).Deserialize([]byte(d[k]), &v); err == nil {
				out = append(out, v)
			}
		}
	}
	return out
}

func c10Luh(d map[string]string, opt string) int64 {
	b := []byte(d["g_"+opt+"_defaultOptions"])
	if len(b) != 8 {
		return 0
	}
	return int64(binary.LittleEndian.Uint64(b))
}

func c10StakingOpts(d map[string]string) delegation.Options {
	o := delegation.Options{}
	serialize.GetSerializer(serialize.PERSISTENT).Deserialize([]byte(d["g_"+string(rune(c10Luh(d, "stakingOptions")))+"_stakingopt"]), &o)
	return o
}

func c10EvidenceOpts(d map[string]string) evidence.Options {
	o := evidence.Options{}
	serialize.GetSerializer(serialize.PERSISTENT).Deserialize([]byte(d["g_"+string(rune(c10Luh(d, "evidenceOptions")))+"_evidenceopt"]), &o)
	return o
}

func c10Frozen(d map[string]string, ids *c10IDs) []int {
	out := []int{}
	for _, k := range sortedKeys(d) {
		if strings.HasPrefix(k, "es__ssvk_") {
			lvh, err := (&evidence.LastValidatorHistory{}).FromBytes([]byte(d[k]))
			if err == nil && lvh.IsFrozen() {
				out = append(out, ids.addr(lvh.Address))
			}
		}
	}
	sort.Ints(out)
	return out
}

func c10Purged(d map[string]string, ids *c10IDs) []c10KV {
	out := []c10KV{}
	for _, k := range sortedKeys(d) {
		if strings.HasPrefix(k, "purged_") {
			var h int64
			if err := serialize.GetSerializer(serialize.PERSISTENT).Deserialize([]byte(d[k]), &h); err == nil {
				out = append(out, c10KV{ids.addr([]byte(k[len("purged_"):])), h})
			}
		}
	}
	sort.Slice(out, func(i, j int) bool { return out[i].K < out[j].K })
	return out
}

func c10Set(vs *tmtypes.ValidatorSet, ids *c10IDs) []c10KV {
	out := []c10KV{}
	for _, v := range vs.Validators {
		out = append(out, c10KV{ids.addr(v.Address), v.VotingPower})
	}
	sort.Slice(out, func(i, j int) bool { return out[i].K < out[j].K })
	return out
}

// ---- adaptive transaction generation ----
type c10Gen struct {
	r     *rand.Rand
	sc    *c10Scenario
	nonce int
	reqs  []string
	lazy  int // index into sc.Vals of a validator that stops signing, -1 none
	lazyUntil int64
	frozenAt  int64 // kind "release": first height at which the target was seen frozen
	released  bool
	topped    bool
	restakeNext []int
}

func (g *c10Gen) memo() string { g.nonce++; return fmt.Sprintf("c10m%d", g.nonce) }

func (g *c10Gen) stakeOf(d map[string]string, v ValSpec) int64 {
	for _, rec := range c10Validators(d) {
		if bytes.Equal(rec.Address, v.Val.Addr) {
			return rec.Power
		}
	}
	return 0
}

func (g *c10Gen) amount() string {
	if g.sc.Ties {
		return []string{"500", "999", "1000", "1001", "1500", "1"}[g.r.Intn(6)]
	}
	return fmt.Sprintf("%d", 400+13*g.nonce+g.r.Intn(11))
}

// stake with a consensus key of one's choice: the handler does not tie the address to the key
func c10StakeRaw(v ValSpec, pub keys.PublicKey, a string, memo string) []byte {
	return mkTx(action.STAKE, staking.Stake{ValidatorAddress: v.Val.Addr, StakeAddress: v.Stake.Addr, ValidatorPubKey: pub, ValidatorECDSAPubKey: pub, NodeName: "n", Stake: oltAmt(a)}, GAS, memo, v.Stake, v.Val)
}

func (g *c10Gen) block(h int64, rep *Replica) (BlockIn, []string) {
	in := BlockIn{Absent: map[int]bool{}}
	descr := []string{}
	sc, r := g.sc, g.r
	d := rep.Dump()
	cands := append(append([]ValSpec{}, sc.Vals...), sc.Extra...)
	add := func(tx []byte, s string) { in.Txs = append(in.Txs, tx); descr = append(descr, s) }
	switch sc.Kind {
	case "e10":
		if h == 3 {
			// a new validator address registers with the consensus key of genesis validator 0
			add(c10StakeRaw(sc.Rogue[0], sc.Vals[0].Val.Pub, "5000", g.memo()), "stake rogue0 with key of val0 5000")
		}
		return in, descr
	case "unstake_all":
		if h == 4 {
			for i, v := range sc.Vals {
				a := g.stakeOf(d, v)
				add(txUnstake(v, oltAmt(fmt.Sprintf("%d", a)), g.memo()), fmt.Sprintf("unstake all val%d %d", i, a))
			}
		}
		return in, descr
	case "ghost":
		if h == 3 {
			add(txStake(sc.Extra[0], oltAmt("7000"), g.memo()), "stake extra0 7000")
		}
		if h == 4 {
			add(txUnstake(sc.Extra[0], oltAmt("7000"), g.memo()), "unstake extra0 7000")
		}
		return in, descr
	case "absent_leaves":
		target := sc.Vals[0] // the weakest genesis validator (so that a newcomer out-stakes exactly it)
		down := h >= 3
		if sc.Variant == 0 && g.frozenAt == 0 {
			// signs one block in four until the missed-votes scan freezes it, then never again
			down = h >= 3 && h%4 != 0
			for _, k := range sortedKeys(d) {
				if strings.HasPrefix(k, "es__ssvk_") {
					if lvh, err := (&evidence.LastValidatorHistory{}).FromBytes([]byte(d[k])); err == nil && lvh.IsFrozen() && bytes.Equal(lvh.Address, target.Val.Addr) {
						g.frozenAt, down = h, true
					}
				}
			}
		}
		if down && h > 1 {
			for i, tv := range rep.valSet(h - 1).Validators {
				if bytes.Equal(tv.Address, target.Val.Addr) {
					in.Absent[i] = true
				}
			}
		}
		if h == 4 && sc.Variant == 1 {
			a := fmt.Sprintf("%d", g.stakeOf(d, target)-500)
			add(txUnstake(target, oltAmt(a), g.memo()), "unstake val0 down to 500 (node down)")
		}
		if h == 4 && sc.Variant == 2 {
			add(txStake(sc.Extra[0], oltAmt("9000"), g.memo()), "stake extra0 9000 (out-stakes the weakest)")
		}
		return in, descr
	case "refused_last":
		if h == 3 {
			switch sc.Variant {
			case 0:
				a := fmt.Sprintf("%d", g.stakeOf(d, sc.Vals[2])-500)
				add(txUnstake(sc.Vals[2], oltAmt(a), g.memo()), "unstake val2 down to 500")
			case 1:
				add(txAllegation(sc.Vals[0], "c10ref", sc.Vals[3].Val.Addr, h, g.memo()), "allegation val0 against val3")
				for i := 0; i < 3; i++ {
					add(txAllegationVote(sc.Vals[i], "c10ref", 1, g.memo()), fmt.Sprintf("vote yes val%d", i))
				}
			default:
				add(txStake(sc.Extra[0], oltAmt("9000"), g.memo()), "stake extra0 9000 (out-stakes the weakest)")
			}
		}
		return in, descr
	case "restake_full":
		v := sc.Vals[1]
		if h == 3 {
			a := fmt.Sprintf("%d", g.stakeOf(d, v))
			add(txUnstake(v, oltAmt(a), g.memo()), "unstake all val1 "+a)
		}
		if h == 4 && sc.Variant == 3 {
			add(txStake(sc.Extra[0], oltAmt("1700"), g.memo()), "stake extra0 1700")
		}
		if (h == 4 && sc.Variant != 1) || (h == 5 && sc.Variant == 1) {
			a := "1500"
			if sc.Variant == 2 {
				a = "1001"
			}
			add(txStake(v, oltAmt(a), g.memo()), "stake val1 again "+a)
		}
		return in, descr
	case "restake":
		// corpus case of the fixed finding C10.negative_power_record: unstake everything, stake again in
		// the block whose EndBlock used to delete the record, later stake and unstake more than the new record
		v := sc.Vals[2]
		switch h {
		case 1:
			a := fmt.Sprintf("%d", v.Power)
			add(txUnstake(v, oltAmt(a), g.memo()), "unstake all val2 "+a)
		case 2:
			add(txStake(v, oltAmt("435"), g.memo()), "stake val2 435")
		case 4:
			add(txStake(v, oltAmt("488"), g.memo()), "stake val2 488")
			add(txUnstake(v, oltAmt("495"), g.memo()), "unstake val2 495")
		}
		for i := 0; i < 2; i++ { // fee traffic so that the pool is above the minimum
			add(txStake(sc.Vals[0], oltAmt("1"), g.memo()), "stake val0 1")
		}
		return in, descr
	case "release":
		target := sc.Vals[3]
		isFrozen := false
		for _, k := range sortedKeys(d) {
			if strings.HasPrefix(k, "es__ssvk_") {
				if lvh, err := (&evidence.LastValidatorHistory{}).FromBytes([]byte(d[k])); err == nil && lvh.IsFrozen() && bytes.Equal(lvh.Address, target.Val.Addr) {
					isFrozen = true
				}
			}
		}
		if isFrozen && g.frozenAt == 0 {
			g.frozenAt = h
			if sc.ByVerdict {
				// a byzantine-fault freeze can be released only ValidatorReleaseTime (1 day) later:
				// from here on the block times are two days later
				rep.T0 = rep.T0.Add(48 * time.Hour)
			}
		}
		if sc.ByVerdict {
			if h == 3 {
				add(txAllegation(sc.Vals[0], "c10rel", target.Val.Addr, h, g.memo()), "allegation val0 against val3")
				for i := 0; i < 3; i++ {
					add(txAllegationVote(sc.Vals[i], "c10rel", 1, g.memo()), fmt.Sprintf("vote yes val%d", i))
				}
			}
		} else if g.frozenAt == 0 && h >= 3 && h%4 != 0 {
			// the target signs one block in four only (1 vote in the window < MinVotesRequired 2) until it is frozen
			for i, tv := range rep.valSet(h - 1).Validators {
				if bytes.Equal(tv.Address, target.Val.Addr) {
					in.Absent[i] = true
				}
			}
		}
		if g.frozenAt > 0 && !g.released && h >= g.frozenAt+2 {
			add(txRelease(target, g.memo()), "release val3")
		}
		if g.released && !g.topped {
			g.topped = true // the penalty of a guilty verdict may have taken the target below the minimum
			add(txStake(target, oltAmt("1000"), g.memo()), "stake val3 1000 after release")
		}
		if g.frozenAt == 0 && g.r.Intn(3) == 0 { // unrelated staking traffic before the freeze
			v := cands[g.r.Intn(len(cands))]
			a := g.amount()
			add(txStake(v, oltAmt(a), g.memo()), "stake "+a)
		}
		return in, descr
	case "frozen":
		if h == 3 {
			add(txAllegation(sc.Vals[0], "c10req", sc.Vals[3].Val.Addr, h, g.memo()), "allegation val0 against val3")
			for i := 0; i < 3; i++ {
				add(txAllegationVote(sc.Vals[i], "c10req", 1, g.memo()), fmt.Sprintf("vote yes val%d", i))
			}
		}
		return in, descr
	}
	// mixed / fork
	for _, ci := range g.restakeNext { // stake again right after a full unstake
		add(txStake(cands[ci], oltAmt("1500"), g.memo()), fmt.Sprintf("stake c%d 1500 (again after full unstake)", ci))
	}
	g.restakeNext = nil
	n := r.Intn(4)
	for i := 0; i < n; i++ {
		ci := r.Intn(len(cands))
		v := cands[ci]
		cur := g.stakeOf(d, v)
		switch k := r.Intn(14); {
		case k < 5:
			a := g.amount()
			add(txStake(v, oltAmt(a), g.memo()), fmt.Sprintf("stake c%d %s", ci, a))
		case k < 8:
			a := g.amount()
			if cur > 0 && r.Intn(2) == 0 {
				a = fmt.Sprintf("%d", cur) // everything
				if r.Intn(2) == 0 {
					g.restakeNext = append(g.restakeNext, ci)
				}
			} else if cur > 1000 && r.Intn(2) == 0 {
				a = fmt.Sprintf("%d", cur-1000+int64(r.Intn(3))-1) // down to the minimum +-1
			}
			add(txUnstake(v, oltAmt(a), g.memo()), fmt.Sprintf("unstake c%d %s (has %d)", ci, a, cur))
		case k < 9:
			a := g.amount()
			add(txWithdraw(v, oltAmt(a), g.memo()), fmt.Sprintf("withdraw c%d %s", ci, a))
		case k < 10:
			if len(sc.Vals) >= 2 {
				id := fmt.Sprintf("c10r%d", len(g.reqs))
				g.reqs = append(g.reqs, id)
				acc, mal := r.Intn(len(sc.Vals)), r.Intn(len(cands))
				add(txAllegation(sc.Vals[acc], id, cands[mal].Val.Addr, h, g.memo()), fmt.Sprintf("allegation val%d against c%d", acc, mal))
				if r.Intn(2) == 0 {
					for j := range sc.Vals {
						if j != mal {
							add(txAllegationVote(sc.Vals[j], id, int8(1+r.Intn(5)/4), g.memo()), fmt.Sprintf("vote val%d %s", j, id))
						}
					}
				}
			}
		case k < 12:
			if len(g.reqs) > 0 {
				id := g.reqs[r.Intn(len(g.reqs))]
				j := r.Intn(len(cands))
				add(txAllegationVote(cands[j], id, int8(1+r.Intn(2)), g.memo()), fmt.Sprintf("vote c%d %s", j, id))
			}
		case k < 13:
			for j, cv := range cands { // prefer a validator that is frozen right now
				if strings.Contains(d["es__ssvk_"+cv.Val.Addr.String()], "\"frozenAt\"") || d["es__ssvk_"+cv.Val.Addr.String()] != "" {
					if lvh, err := (&evidence.LastValidatorHistory{}).FromBytes([]byte(d["es__ssvk_"+cv.Val.Addr.String()])); err == nil && lvh.IsFrozen() {
						ci, v = j, cv
					}
				}
			}
			add(txRelease(v, g.memo()), fmt.Sprintf("release c%d", ci))
		default:
			if r.Intn(3) == 0 {
				// a validator address that is not the address of the consensus key it names: must be refused (9246c8d)
				o := cands[r.Intn(len(cands))]
				add(c10StakeRaw(sc.Rogue[r.Intn(len(sc.Rogue))], o.Val.Pub, g.amount(), g.memo()), fmt.Sprintf("stake rogue with key of c%d", ci))
				continue
			}
			// equalise with another candidate's stake (ties at the boundary)
			o := cands[r.Intn(len(cands))]
			os := g.stakeOf(d, o)
			if os > cur {
				add(txStake(v, oltAmt(fmt.Sprintf("%d", os-cur)), g.memo()), fmt.Sprintf("stake c%d up to %d", ci, os))
			}
		}
	}
	if r.Intn(12) == 0 {
		rep.T0 = rep.T0.Add(48 * time.Hour) // two days pass: byzantine-fault freezes become releasable
	}
	// missed votes: one validator stops signing for a while
	if g.lazy < 0 && r.Intn(8) == 0 {
		g.lazy, g.lazyUntil = r.Intn(len(cands)), h+int64(3+r.Intn(5))
		if r.Intn(3) == 0 {
			g.lazyUntil = 1 << 40 // the node stays down
		}
	}
	if g.lazy >= 0 {
		if h > g.lazyUntil {
			g.lazy = -1
		} else if h > 1 {
			for i, tv := range rep.valSet(h - 1).Validators {
				if bytes.Equal(tv.Address, cands[g.lazy].Val.Addr) {
					in.Absent[i] = true
				}
			}
		}
	}
	if r.Intn(10) == 0 {
		v := cands[r.Intn(len(cands))]
		in.Byzantine = append(in.Byzantine, abci.Evidence{Type: "duplicate/vote", Validator: abci.Validator{Address: v.Val.Addr, Power: 10}, Height: h - 1, Time: rep.blockTime(h - 1), TotalVotingPower: 100})
		descr = append(descr, "byzantine evidence")
	}
	return in, descr
}

// when set (child mode) the cases so far plus the block about to run EndBlock are written here,
// so that the parent still has the inputs of a block in which the node exits
var c10Pending string

// ---- running one history ----
func c10Run(r *rand.Rand, kind string, hist int) []c10Case {
	sc := c10Scen(r, kind)
	allKeys := []Key{}
	for _, v := range sc.all() {
		allKeys = append(allKeys, v.Val)
	}
	ids := c10NewIDs(allKeys)
	rep := NewReplica(sc.genesis(), ReplicaOpts{NodeVal: sc.Vals[0].Val})
	defer rep.Close()
	rep.InitChain()
	rr := rand.New(rand.NewSource(r.Int63())) // generator of the Validate-refused last transactions
	gen := &c10Gen{r: r, sc: sc, lazy: -1}
	// kind "release": a second replica runs the same blocks and is restarted (fresh process memory)
	// after the block of the release; its validator updates must equal the long-running node's
	var twin *Replica
	if kind == "release" {
		twin = NewReplica(sc.genesis(), ReplicaOpts{NodeVal: sc.Vals[0].Val})
		defer twin.Close()
		twin.InitChain()
	}
	out := []c10Case{}
	lastSig, quiet := "", int64(0)
	for b := 0; b < sc.Blocks; b++ {
		h := int64(b + 1)
		prev := rep.Dump()
		in, descr := gen.block(h, rep)
		refusedCause := ""
		if h >= 2 && (kind == "refused_last" || rr.Intn(3) == 0) {
			// the block ends with a transaction that handler.Validate refuses in DeliverTx
			v := sc.Vals[rr.Intn(len(sc.Vals))]
			memo := fmt.Sprintf("c10refused%d", h)
			data, _ := staking.Stake{ValidatorAddress: v.Val.Addr, StakeAddress: v.Stake.Addr, ValidatorPubKey: v.Val.Pub, ValidatorECDSAPubKey: v.Val.Pub, NodeName: "n", Stake: oltAmt("7")}.Marshal()
			var tx []byte
			switch rr.Intn(3) {
			case 0:
				refusedCause = "bad signature"
				tx = signTx(action.STAKE, data, GAS, memo, sc.Rogue[0].Stake, sc.Rogue[0].Val)
			case 1:
				refusedCause = "fee below minimum"
				tx = signRaw(action.RawTx{Type: action.STAKE, Data: data, Fee: action.Fee{Price: action.Amount{Currency: "OLT", Value: *amt("1")}, Gas: GAS}, Memo: memo}, v.Stake, v.Val)
			default:
				refusedCause = "stake of more than the staker owns"
				tx = txStake(v, oltAmt("900000000"), memo)
			}
			ntx := len(in.Txs)
			in.Txs = append(in.Txs, tx)
			descr = append(descr[:ntx:ntx], append([]string{"refused-by-validate (" + refusedCause + ")"}, descr[ntx:]...)...)
		}
		c := c10Case{Hist: hist, Kind: kind, Height: h, Cands: []c10Cand{}, Mal: []int{}, LA: []int{}}
		if h > 1 {
			for _, v := range c10Validators(prev) {
				c.Cands = append(c.Cands, c10Cand{ids.addr(v.Address), ids.pub(v.PubKey.Data), v.Power, v.Staking.BigInt().String()})
				// cross-check: own stake in the delegation store = staking field of the record
				own := strings.Trim(prev["st__e_"+v.Address.String()+"_"+v.StakeAddress.String()], "\"")
				if own == "" {
					own = "0"
				}
				if own != v.Staking.BigInt().String() {
					c.OwnStakeDiff = append(c.OwnStakeDiff, fmt.Sprintf("%s: record %s own-stake %s", v.Address.String(), v.Staking.BigInt().String(), own))
				}
			}
			for _, tv := range rep.valSet(h - 1).Validators {
				c.LA = append(c.LA, ids.addr(tv.Address))
			}
			sort.Ints(c.LA)
			for _, k := range sortedKeys(prev) {
				if strings.HasPrefix(k, "st__t_") {
					a := keys.Address{}
					if a.UnmarshalText([]byte(k[len("st__t_"):])) == nil {
						if v, ok := new(big.Int).SetString(strings.Trim(prev[k], "\""), 10); ok && v.IsInt64() && v.Sign() > 0 {
							c.Staked = append(c.Staked, c10KV{ids.addr(a), v.Int64()})
						}
					}
				}
			}
			for i, tv := range rep.valSet(h - 1).Validators {
				if in.Absent[i] {
					c.Absent = append(c.Absent, ids.addr(tv.Address))
				}
			}
		}
		c.Frozen = c10Frozen(prev, ids)
		rep.BeginBlock(&in)
		bb := rep.View()
		eo := c10EvidenceOpts(bb)
		c.Bvd = eo.BlockVotesDiff
		// 304e1e1: the frozen validators are collected at every height (before the early return)
		c.Mal = c10Frozen(bb, ids)
		for i, tx := range in.Txs {
			res := rep.DeliverTx(tx)
			if res.Code == 0 && strings.HasPrefix(descr[i], "release ") {
				var who ValSpec
				cs := append(append([]ValSpec{}, sc.Vals...), sc.Extra...)
				if strings.HasPrefix(descr[i], "release val3") {
					who = sc.Vals[3]
					gen.released = true
				} else {
					var ci int
					fmt.Sscanf(descr[i], "release c%d", &ci)
					who = cs[ci%len(cs)]
				}
				c.Released = append(c.Released, ids.addr(who.Val.Addr))
			}
			lg := res.Log
			if len(lg) > 90 {
				lg = lg[:90]
			}
			c.Txs = append(c.Txs, fmt.Sprintf("%s -> %d %s", descr[i], res.Code, lg))
		}
		if refusedCause != "" && len(c.Txs) > 0 {
			if strings.Contains(c.Txs[len(c.Txs)-1], "-> 0") {
				c.LastRefused = "NOT REFUSED: " + refusedCause
			} else {
				c.LastRefused = refusedCause
			}
		}
		for i := len(in.Txs); i < len(descr); i++ {
			c.Txs = append(c.Txs, descr[i])
		}
		pre := rep.View()
		so := c10StakingOpts(pre)
		c.OMin, c.OTop = so.MinSelfDelegationAmount.BigInt().String(), so.TopValidatorCount
		c.Pg = c10Purged(pre, ids)
		if c10Pending != "" {
			pc := c
			pc.Crashed = true
			bz, _ := json.Marshal(append(append([]c10Case{}, out...), pc))
			ioutil.WriteFile(c10Pending, bz, 0644)
		}
		eb := rep.EndBlock()
		c.PgAfter = c10Purged(rep.View(), ids)
		c.Ups = []c10KV{}
		for _, u := range eb.ValidatorUpdates {
			c.Ups = append(c.Ups, c10KV{ids.pub(u.PubKey.Data), u.Power})
		}
		next := rep.valSet(h + 1)
		c.Next = c10Set(next, ids)
		cp := next.Copy()
		var err error
		if len(eb.ValidatorUpdates) > 0 {
			tmups, e := tmtypes.PB2TM.ValidatorUpdates(eb.ValidatorUpdates)
			err = e
			if err == nil {
				err = cp.UpdateWithChangeSet(tmups)
			}
		}
		c.TmOk = err == nil
		if err != nil {
			c.TmErr = err.Error()
			if len(c.TmErr) > 200 {
				c.TmErr = c.TmErr[:200]
			}
		}
		c.NextAfter = c10Set(cp, ids)
		rep.Commit()
		if twin != nil {
			twin.T0 = rep.T0
			twin.BeginBlock(&in)
			for _, tx := range in.Txs {
				twin.DeliverTx(tx)
			}
			teb := twin.EndBlock()
			twin.Commit()
			a, b := []string{}, []string{}
			for _, u := range eb.ValidatorUpdates {
				a = append(a, fmt.Sprintf("%d:%d", ids.pub(u.PubKey.Data), u.Power))
			}
			for _, u := range teb.ValidatorUpdates {
				b = append(b, fmt.Sprintf("%d:%d", ids.pub(u.PubKey.Data), u.Power))
			}
			if strings.Join(a, ",") != strings.Join(b, ",") {
				c.TwinDiff = "long-running [" + strings.Join(a, ",") + "] restarted [" + strings.Join(b, ",") + "]"
			}
			if len(c.Released) > 0 {
				twin.Crash() // fresh process memory over the data committed so far
			}
			rep.Use()
		}
		sig := jsonString([]interface{}{c.Cands, c.OMin, c.OTop, c.Mal})
		if sig == lastSig {
			quiet++
		} else {
			quiet = 1
		}
		lastSig = sig
		c.Quiet = quiet
		out = append(out, c)
		if !c.TmOk {
			break // Tendermint halts here
		}
	}
	return out
}

// ---- the acceptance rule against the real ValidatorSet, package level ----
func c10TM(r *rand.Rand, n int) []c10TCase {
	ks := []Key{}
	for i := 0; i < 8; i++ {
		ks = append(ks, seedKey(byte(10+i)))
	}
	ids := c10NewIDs(ks)
	max := tmtypes.MaxTotalVotingPower
	setP := []int64{1, 10, 1000, max / 4, max / 2, max - 5}
	upP := []int64{0, 0, 1, 5, 1000, max, max + 1, -1, max / 2, max / 4, 3}
	out := []c10TCase{}
	for len(out) < n {
		perm := r.Perm(len(ks))
		ns := 1 + r.Intn(5)
		vals := []*tmtypes.Validator{}
		tot := int64(0)
		for _, i := range perm[:ns] {
			p := setP[r.Intn(len(setP))]
			if tot+p > max {
				p = 1
			}
			tot += p
			vals = append(vals, tmtypes.NewValidator(tmPub(ks[i].Pub), p))
		}
		if tot > max {
			continue
		}
		vs := tmtypes.NewValidatorSet(vals)
		tc := c10TCase{Set: c10Set(vs, ids), Ups: []c10KV{}}
		nu := r.Intn(6)
		ups := []abci.ValidatorUpdate{}
		for j := 0; j < nu; j++ {
			k := ks[r.Intn(len(ks))]
			if r.Intn(3) > 0 {
				k = ks[perm[r.Intn(ns)]] // a member
			}
			p := upP[r.Intn(len(upP))]
			ups = append(ups, abci.ValidatorUpdate{PubKey: abci.PubKey{Type: "ed25519", Data: k.Pub.Data}, Power: p})
			tc.Ups = append(tc.Ups, c10KV{ids.addr(k.Addr), p})
		}
		var err error
		if len(ups) > 0 {
			tmups, e := tmtypes.PB2TM.ValidatorUpdates(ups)
			err = e
			if err == nil {
				err = vs.UpdateWithChangeSet(tmups)
			}
		}
		tc.Ok = err == nil
		tc.After = c10Set(vs, ids)
		out = append(out, tc)
	}
	return out
}

// ---- Coq output ----
func c10N(i int) string { return fmt.Sprintf("%d%%N", i) }

func c10KVs(l []c10KV) string {
	s := []string{}
	for _, x := range l {
		s = append(s, fmt.Sprintf("(%s, %s)", c10N(x.K), c10Z(x.V)))
	}
	return "[" + strings.Join(s, "; ") + "]"
}

func c10Z(v int64) string {
	if v < 0 {
		return fmt.Sprintf("(%d)", v)
	}
	return fmt.Sprintf("%d", v)
}

func c10Zs(s string) string {
	if strings.HasPrefix(s, "-") {
		return "(" + s + ")"
	}
	return s
}

func c10Ns(l []int) string {
	s := []string{}
	for _, x := range l {
		s = append(s, c10N(x))
	}
	return "[" + strings.Join(s, "; ") + "]"
}

func c10Bool(b bool) string {
	if b {
		return "true"
	}
	return "false"
}

func c10BlockinCoq(c *c10Case) string {
	cs := []string{}
	for _, x := range c.Cands {
		cs = append(cs, fmt.Sprintf("mkc %s %s %s %s", c10N(x.Addr), c10N(x.Pk), c10Z(x.Power), c10Zs(x.Stake)))
	}
	return fmt.Sprintf("(mkb %d [%s] (mko %s %s) %s false %s)", c.Height, strings.Join(cs, "; "), c10Zs(c.OMin), c10Z(c.OTop), c10Ns(c.Mal), c10Ns(c.LA))
}

func c10CaseCoq(c *c10Case) string {
	return fmt.Sprintf("mkcase %s %s %s %d %s %s %s %s %s %d %s",
		c10BlockinCoq(c),
		c10KVs(c.Pg), c10Ns(c.Frozen), c.Bvd, c10KVs(c.Next), c10KVs(c.Ups), c10KVs(c.PgAfter), c10Bool(c.TmOk), c10KVs(c.NextAfter), c.Quiet, c10KVs(c.Staked))
}

const c10Header = "From stdpp Require Import gmap list.\nFrom Coq Require Import ZArith.\nFrom OL Require Import theories.Election theories.Tendermint theories.ElectionCheck.\nLocal Open Scope Z_scope.\n"

func c10Main(args []string) int {
	fs := flag.NewFlagSet("c10", flag.ExitOnError)
	seed := fs.Int64("seed", 1, "seed")
	n := fs.Int("n", 20, "number of generated histories")
	ntm := fs.Int("tm", 500, "number of package-level ValidatorSet cases")
	outDir := fs.String("out", ".", "output directory")
	tag := fs.String("tag", "0", "shard tag (file names)")
	only := fs.String("kind", "", "run only histories of this kind")
	hseed := fs.Int64("hseed", 0, "replay: run the single history with this generator seed (needs -kind)")
	child := fs.String("child", "", "internal: run one history (-kind, -hseed) and write its cases to this file")
	fs.Parse(args)
	if *child != "" {
		c10Pending = *child
		hc := c10Run(rand.New(rand.NewSource(*hseed)), *only, 0)
		bz, _ := json.Marshal(hc)
		must(ioutil.WriteFile(*child, bz, 0644))
		return 0
	}
	kinds := []string{"e10", "unstake_all", "ghost", "frozen", "release", "absent_leaves:0", "restake", "refused_last", "absent_leaves:1", "absent_leaves:2", "restake_full:0", "restake_full:1", "restake_full:2", "restake_full:3", "mixed", "mixed", "mixed", "mixed"}
	cases := []c10Case{}
	for i := 0; i < *n; i++ {
		kind := kinds[i%len(kinds)]
		if *only != "" {
			kind = *only
		}
		// every history has its own generator: (seed, index, kind) identifies it
		hs := *seed*1000003 + int64(i)
		if *hseed != 0 {
			hs = *hseed
		}
		// each history runs in a child process: the application may call os.Exit (logger.Fatal)
		cf := fmt.Sprintf("%s/c10_child_%s.json", *outDir, *tag)
		os.Remove(cf)
		cmd := exec.Command(os.Args[0], "c10", "-child", cf, "-kind", kind, "-hseed", fmt.Sprintf("%d", hs))
		cerr := cmd.Run()
		hc := []c10Case{}
		if bz, err := ioutil.ReadFile(cf); err == nil {
			json.Unmarshal(bz, &hc)
		}
		if cerr == nil {
			for j := range hc {
				hc[j].Crashed = false
			}
		} else if len(hc) == 0 || !hc[len(hc)-1].Crashed {
			say("c10: history kind=%s hseed=%d failed outside EndBlock: %v\n", kind, hs, cerr)
			return 1
		}
		for j := range hc {
			hc[j].HSeed, hc[j].Hist = hs, i
		}
		cases = append(cases, hc...)
	}
	crashed := []c10Case{}
	live := []c10Case{}
	for _, c := range cases {
		if c.Crashed {
			crashed = append(crashed, c)
		} else {
			live = append(live, c)
		}
	}
	cases = live
	tcases := c10TM(rand.New(rand.NewSource(*seed*7919+1)), *ntm)
	files := []string{}
	const per = 150
	for lo, s := 0, 0; lo < len(cases); lo, s = lo+per, s+1 {
		hi := lo + per
		if hi > len(cases) {
			hi = len(cases)
		}
		var b strings.Builder
		b.WriteString(c10Header)
		b.WriteString("Definition cases : list bcase := [\n")
		for i := lo; i < hi; i++ {
			b.WriteString("  " + c10CaseCoq(&cases[i]))
			if i+1 < hi {
				b.WriteString(";")
			}
			b.WriteString("\n")
		}
		b.WriteString("].\nDefinition RES := Eval vm_compute in check_cases cases.\nPrint RES.\n")
		name := fmt.Sprintf("%s/c10_cases_%s_%d.v", *outDir, *tag, s)
		must(ioutil.WriteFile(name, []byte(b.String()), 0644))
		files = append(files, name)
	}
	tfiles := []string{}
	if len(tcases) > 0 {
		var b strings.Builder
		b.WriteString(c10Header)
		b.WriteString("Definition tcases : list tcase := [\n")
		for i, t := range tcases {
			b.WriteString(fmt.Sprintf("  mkt %s %s %s %s", c10KVs(t.Set), c10KVs(t.Ups), c10Bool(t.Ok), c10KVs(t.After)))
			if i+1 < len(tcases) {
				b.WriteString(";")
			}
			b.WriteString("\n")
		}
		b.WriteString("].\nDefinition TRES := Eval vm_compute in check_tcases tcases.\nPrint TRES.\n")
		name := fmt.Sprintf("%s/c10_tcases_%s.v", *outDir, *tag)
		must(ioutil.WriteFile(name, []byte(b.String()), 0644))
		tfiles = append(tfiles, name)
	}
	cfiles := []string{}
	if len(crashed) > 0 {
		var b strings.Builder
		b.WriteString(c10Header)
		b.WriteString("Definition crashed : list blockin := [\n")
		for i := range crashed {
			b.WriteString("  " + c10BlockinCoq(&crashed[i]))
			if i+1 < len(crashed) {
				b.WriteString(";")
			}
			b.WriteString("\n")
		}
		b.WriteString("].\nDefinition CRES := Eval vm_compute in map crash_code crashed.\nPrint CRES.\n")
		name := fmt.Sprintf("%s/c10_crashed_%s.v", *outDir, *tag)
		must(ioutil.WriteFile(name, []byte(b.String()), 0644))
		cfiles = append(cfiles, name)
	}
	bz, _ := json.Marshal(map[string]interface{}{"crashed": crashed, "cfiles": cfiles, "cases": cases, "tcases": tcases, "files": files, "tfiles": tfiles, "per_file": per})
	must(ioutil.WriteFile(fmt.Sprintf("%s/c10_%s.json", *outDir, *tag), bz, 0644))
	say("c10: %d block cases from %d histories, %d validator-set cases\n", len(cases), *n, len(tcases))
	_ = os.Stdout
	return 0
}
