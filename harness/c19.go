package main

// C19: allegation / vote / release histories on the REAL application (Replica), projected per step
// into the observables of coq/theories/Allegation.v.

import (
	"bytes"
	"encoding/json"
	"flag"
	"fmt"
	"io/ioutil"
	"math/big"
	"math/rand"
	"os"
	"path/filepath"
	"sort"
	"strings"
	"time"

	"github.com/Oneledger/protocol/action"
	evact "github.com/Oneledger/protocol/action/evidence"
	"github.com/Oneledger/protocol/consensus"
	"github.com/Oneledger/protocol/data/balance"
	"github.com/Oneledger/protocol/data/evidence"
	"github.com/Oneledger/protocol/data/keys"
	abci "github.com/tendermint/tendermint/abci/types"
	tmtypes "github.com/tendermint/tendermint/types"
)

func init() { subcmds["c19"] = c19Main }

// ---- script (input of a case; replayable from JSON) ----

type c19Cfg struct {
	VotePct, VoteDec, AllegPct, AllegDec, PenBase, PenDec, BountyPct, BountyDec int64
	ReleaseDays, BlockVotesDiff, MinVotes, MinPower, TopN                     int64
}

type c19Act struct {
	Kind   string // allege vote release stake unstake withdraw forgevote forgerelease (signed by Who, naming Mal)
	Who    int    // cast index of the sender (validators first, then the candidate, then outsiders)
	Mal    int    // allege: cast index of the accused
	Req    int    // allege/vote: request number
	Choice int8   // vote
	BH     int64  // allege: block height offset relative to the current height
	Amount int64  // staking ops (whole OLT)
}

type c19Block struct {
	DT     int64 // seconds since the previous block
	Absent []int // cast indices of validators that did not sign the previous block
	Acts   []c19Act
}

type c19Script struct {
	Name   string
	NVals  int
	Powers []int64 // genesis stake per validator (default 3000000 - 1000 i)
	Cfg    c19Cfg
	Blocks []c19Block
}

// ---- observables ----

type c19Req struct {
	ID, Rep, Mal, H, Status int64
	Votes                   [][2]int64
}
type c19Lvh struct {
	A, Status, FH, FAt, RH int64
	HasR                   bool
	RAt                    int64
}
type c19VS struct {
	A      int64
	Active bool
	H      int64
}
type c19Obs struct {
	Reqs    []c19Req
	Tracker []int64
	Susp    []c19Lvh
	VStat   []c19VS
	Stake   [][2]string // addr id, amount
	Bounty  string
	VRec    [][2]string // BeginBlock steps: addr id, staking amount of the validator record
}
type c19Op struct {
	Kind         string // begin allege vote release stake end
	H, T         int64
	Low          []int64
	ID, A, B, BH int64 // allege: A=rep B=mal ; vote: A=voter B=choice ; release: A ; stake: A=validator B=kind
	EnvOk        bool
	Delta        int64
	Queue        [][2]int64
}
type c19Step struct {
	Op       c19Op
	Ok       bool
	Obs      c19Obs
	Verdicts [][2]int64 // EndBlock: (accused, status) of the allegation_tracker events
	Elected  []int64    // EndBlock: validators sent to Tendermint with positive power (the election)
	Descr    string
}
type c19Case struct {
	Script c19Script
	Cast   []string
	Init   c19Obs
	Steps  []c19Step
	Err    string
}

// ---- running a script on the real application ----

type c19Run struct {
	rep     *Replica
	cast    []ValSpec
	addrID  map[string]int64 // "0lt…" -> id
	pubID   map[string]int64 // consensus pubkey bytes -> id
	ids     []keys.Address   // id-1 -> address
	bountyK string
	bounty0 *big.Int
	t       time.Time
	memo    int
	cfg     c19Cfg
}

func c19ReqName(n int) string { return fmt.Sprintf("q%03d", n) }

func c19NewRun(sc *c19Script) *c19Run {
	w := NewWorld(sc.NVals, 2, 1)
	for i := range w.Vals {
		if i < len(sc.Powers) && sc.Powers[i] > 0 {
			w.Vals[i].Power = sc.Powers[i]
		}
	}
	g := w.Genesis()
	cfg := sc.Cfg
	g.Customize = func(st *consensus.AppState) {
		st.Governance.EvidenceOptions = evidence.Options{MinVotesRequired: cfg.MinVotes, BlockVotesDiff: cfg.BlockVotesDiff,
			PenaltyBasePercentage: cfg.PenBase, PenaltyBaseDecimals: cfg.PenDec, PenaltyBountyPercentage: cfg.BountyPct, PenaltyBountyDecimals: cfg.BountyDec,
			PenaltyBurnPercentage: 50, PenaltyBurnDecimals: 100, ValidatorVotePercentage: cfg.VotePct, ValidatorVoteDecimals: cfg.VoteDec,
			ValidatorReleaseTime: cfg.ReleaseDays, AllegationPercentage: cfg.AllegPct, AllegationDecimals: cfg.AllegDec}
		st.Governance.StakingOptions.TopValidatorCount = cfg.TopN
		st.Governance.StakingOptions.MinSelfDelegationAmount = *balance.NewAmount(cfg.MinPower)
	}
	g.Fork = 0
	r := &c19Run{cfg: cfg, addrID: map[string]int64{}}
	r.cast = append(r.cast, w.Vals...)
	r.cast = append(r.cast, w.Extra...)
	for _, u := range w.Users {
		r.cast = append(r.cast, ValSpec{Val: u, Stake: u})
	}
	addrs := []keys.Address{}
	for _, c := range r.cast {
		addrs = append(addrs, c.Val.Addr)
	}
	sort.Slice(addrs, func(i, j int) bool { return bytes.Compare(addrs[i], addrs[j]) < 0 })
	for i, a := range addrs {
		r.addrID[a.String()] = int64(i + 1)
	}
	r.ids = addrs
	r.pubID = map[string]int64{}
	for _, c := range r.cast {
		r.pubID[string(c.Val.Pub.Data)] = r.addrID[c.Val.Addr.String()]
	}
	r.rep = NewReplica(g, ReplicaOpts{NodeVal: w.Vals[0].Val})
	r.rep.InitChain()
	r.t = r.rep.T0
	r.bountyK = "b_" + keys.Address("oneledgerBountyProgram").String() + "_OLT"
	r.bounty0 = c19BigOf(r.rep.View()[r.bountyK])
	return r
}

func c19BigOf(js string) *big.Int {
	z := new(big.Int)
	if js == "" {
		return z
	}
	var s string
	if err := json.Unmarshal([]byte(js), &s); err != nil {
		return z
	}
	z.SetString(s, 10)
	return z
}

func (r *c19Run) id(a keys.Address) int64 { return r.addrID[a.String()] }

func c19Time(t *time.Time) int64 {
	if t == nil {
		return 0
	}
	return t.Unix()
}

func c19ReqNum(id string) int64 {
	var n int64
	if _, err := fmt.Sscanf(id, "q%d", &n); err != nil {
		return -1
	}
	return n
}

// observe projects the deliver view into the model's observables
func (r *c19Run) observe() c19Obs {
	v := r.rep.View()
	o := c19Obs{}
	for _, k := range sortedKeys(v) {
		val := v[k]
		switch {
		case strings.HasPrefix(k, "es__ark_"):
			ar := &evidence.AllegationRequest{}
			if err := json.Unmarshal([]byte(val), ar); err != nil {
				continue
			}
			q := c19Req{ID: c19ReqNum(ar.ID), Rep: r.id(ar.ReporterAddress), Mal: r.id(ar.MaliciousAddress), H: ar.BlockHeight, Status: int64(ar.Status)}
			for _, vt := range ar.Votes {
				q.Votes = append(q.Votes, [2]int64{r.id(vt.Address), int64(vt.Choice)})
			}
			o.Reqs = append(o.Reqs, q)
		case k == "es__atark":
			at := &evidence.AllegationTracker{}
			if err := json.Unmarshal([]byte(val), at); err == nil {
				for id := range at.Requests {
					o.Tracker = append(o.Tracker, c19ReqNum(id))
				}
				sort.Slice(o.Tracker, func(i, j int) bool { return o.Tracker[i] < o.Tracker[j] })
			}
		case strings.HasPrefix(k, "es__ssvk_"):
			l := &evidence.LastValidatorHistory{}
			if err := json.Unmarshal([]byte(val), l); err != nil {
				continue
			}
			o.Susp = append(o.Susp, c19Lvh{A: r.id(l.Address), Status: int64(l.Status), FH: l.FrozenHeight, FAt: c19Time(l.FrozenAt), RH: l.ReleaseHeight, HasR: l.ReleaseAt != nil, RAt: c19Time(l.ReleaseAt)})
		case strings.HasPrefix(k, "es__vss_"):
			s := &evidence.ValidatorStatus{}
			if err := json.Unmarshal([]byte(val), s); err != nil {
				continue
			}
			o.VStat = append(o.VStat, c19VS{A: r.id(s.Address), Active: s.IsActive, H: s.Height})
		}
	}
	for i, a := range r.ids {
		o.Stake = append(o.Stake, [2]string{fmt.Sprint(i + 1), c19BigOf(v["st__t_"+a.String()]).String()})
	}
	o.Bounty = new(big.Int).Sub(c19BigOf(v[r.bountyK]), r.bounty0).String()
	return o
}

type c19ValRec struct {
	Address keys.Address   `json:"address"`
	Power   int64          `json:"power"`
	Staking balance.Amount `json:"staking"`
}

func (r *c19Run) vrec() [][2]string {
	out := [][2]string{}
	v := r.rep.View()
	for _, k := range sortedKeys(v) {
		if !strings.HasPrefix(k, "v_") {
			continue
		}
		rec := &c19ValRec{}
		if err := json.Unmarshal([]byte(v[k]), rec); err != nil {
			continue
		}
		if id := r.id(rec.Address); id > 0 {
			out = append(out, [2]string{fmt.Sprint(id), rec.Staking.BigInt().String()})
		}
	}
	return out
}

// queue = validator records of the committed tree (version h-1), by power descending
func (r *c19Run) queue(committed map[string]string) [][2]int64 {
	q := [][2]int64{}
	for k, val := range committed {
		if !strings.HasPrefix(k, "v_") {
			continue
		}
		rec := &c19ValRec{}
		if err := json.Unmarshal([]byte(val), rec); err != nil {
			continue
		}
		q = append(q, [2]int64{r.id(rec.Address), rec.Power})
	}
	sort.Slice(q, func(i, j int) bool {
		if q[i][1] != q[j][1] {
			return q[i][1] > q[j][1]
		}
		return q[i][0] < q[j][0]
	})
	return q
}

// beginBlock = Replica.BeginBlock with an explicit block time and absentees given by address
func (r *c19Run) beginBlock(dt int64, absent map[string]bool) {
	rp := r.rep
	rp.Use()
	rp.H++
	h := rp.H
	r.t = r.t.Add(time.Duration(dt) * time.Second)
	t := r.t
	blk := tmtypes.MakeBlock(h, nil, &tmtypes.Commit{Height: h - 1}, nil)
	blk.Header.Time = t
	blk.Header.ChainID = rp.Chain
	if rp.BS.Height() < h {
		ps := blk.MakePartSet(65536)
		rp.BS.SaveBlock(blk, ps, &tmtypes.Commit{Height: h, BlockID: tmtypes.BlockID{Hash: blk.Hash(), PartsHeader: ps.Header()}})
	}
	votes := []abci.VoteInfo{}
	if h > 1 {
		for _, v := range rp.valSet(h - 1).Validators {
			votes = append(votes, abci.VoteInfo{Validator: abci.Validator{Address: v.Address, Power: v.VotingPower}, SignedLastBlock: !absent[keys.Address(v.Address).String()]})
		}
	}
	cur := rp.valSet(h)
	proposer := cur.Validators[int(h)%len(cur.Validators)].Address
	rp.AB.BeginBlock(abci.RequestBeginBlock{Hash: []byte{byte(h), byte(h >> 8), 1, 2}, Header: abci.Header{ChainID: rp.Chain, Height: h, Time: t, ProposerAddress: proposer},
		LastCommitInfo: abci.LastCommitInfo{Votes: votes}})
	rp.blockTxs, rp.blockRes = nil, nil
	rp.cur = &BlockResult{Height: h}
}

func (r *c19Run) low(committed map[string]string) []int64 {
	v := r.rep.View()
	cv := &evidence.CumulativeVote{}
	if err := json.Unmarshal([]byte(v["es__scv"]), cv); err != nil {
		return nil
	}
	has := map[int64]bool{}
	for _, q := range r.queue(committed) {
		has[q[0]] = true
	}
	addrs := []string{}
	for a := range cv.Addresses {
		addrs = append(addrs, a)
	}
	sort.Strings(addrs)
	out := []int64{}
	for _, a := range addrs {
		if cv.Addresses[a] < r.cfg.MinVotes {
			if id, ok := r.addrID[a]; ok && has[id] {
				out = append(out, id)
			}
		}
	}
	return out
}

func c19TieAtCutoff(q [][2]int64, cfg c19Cfg) bool {
	n := 0
	for _, e := range q {
		if e[1] >= cfg.MinPower {
			n++
		}
	}
	if int64(n) <= cfg.TopN {
		return false
	}
	for i := 1; i < len(q); i++ {
		if q[i][1] == q[i-1][1] && q[i][1] >= cfg.MinPower {
			return true
		}
	}
	return false
}

func (r *c19Run) nextMemo() string { r.memo++; return fmt.Sprintf("c19-%d", r.memo) }

func c19RunScript(sc *c19Script) (cs *c19Case) {
	cs = &c19Case{Script: *sc}
	defer func() {
		if e := recover(); e != nil {
			cs.Err = fmt.Sprint(e)
		}
	}()
	r := c19NewRun(sc)
	defer r.rep.Close()
	for _, c := range r.cast {
		cs.Cast = append(cs.Cast, c.Val.Addr.String())
	}
	cs.Init = r.observe()
	for _, b := range sc.Blocks {
		committed := r.rep.Dump()
		if c19TieAtCutoff(r.queue(committed), r.cfg) {
			// equal powers around the TopValidatorCount cut-off: the heap's pop order among them is
			// not a function of the powers; the history ends here
			break
		}
		absent := map[string]bool{}
		for _, i := range b.Absent {
			if i >= 0 && i < len(r.cast) {
				absent[r.cast[i].Val.Addr.String()] = true
			}
		}
		dt := b.DT
		if dt <= 0 {
			dt = 15
		}
		r.beginBlock(dt, absent)
		h := r.rep.H
		bobs := r.observe()
		bobs.VRec = r.vrec()
		cs.Steps = append(cs.Steps, c19Step{Op: c19Op{Kind: "begin", H: h, T: r.t.Unix(), Low: r.low(committed)}, Ok: true, Obs: bobs, Descr: fmt.Sprintf("begin %d", h)})
		for _, a := range b.Acts {
			if a.Who < 0 || a.Who >= len(r.cast) {
				continue
			}
			who := r.cast[a.Who]
			var tx []byte
			op := c19Op{}
			d := ""
			switch a.Kind {
			case "allege":
				if a.Mal < 0 || a.Mal >= len(r.cast) {
					continue
				}
				mal := r.cast[a.Mal].Val.Addr
				tx = txAllegation(who, c19ReqName(a.Req), mal, h+a.BH, r.nextMemo())
				op = c19Op{Kind: "allege", ID: int64(a.Req), A: r.id(who.Val.Addr), B: r.id(mal), BH: h + a.BH}
				d = fmt.Sprintf("allege q%d by %d against %d", a.Req, a.Who, a.Mal)
			case "vote":
				tx = txAllegationVote(who, c19ReqName(a.Req), a.Choice, r.nextMemo())
				op = c19Op{Kind: "vote", ID: int64(a.Req), A: r.id(who.Val.Addr), B: int64(a.Choice)}
				d = fmt.Sprintf("vote q%d by %d choice %d", a.Req, a.Who, a.Choice)
			case "release":
				// the fee of evidence transactions is charged to the signer's validator record; a
				// signer without one fails in the fee step whatever the handler says: not sent
				if _, ok := r.rep.View()["v_"+string(who.Val.Addr)]; !ok {
					continue
				}
				tx = txRelease(who, r.nextMemo())
				op = c19Op{Kind: "release", A: r.id(who.Val.Addr)}
				d = fmt.Sprintf("release %d", a.Who)
			case "forgevote", "forgerelease":
				// names another validator but is signed by the sender only: Validate must refuse it
				if a.Mal < 0 || a.Mal >= len(r.cast) || a.Mal == a.Who {
					continue
				}
				named := r.cast[a.Mal].Val.Addr
				if a.Kind == "forgevote" {
					tx = mkTx(action.ALLEGATION_VOTE, evact.AllegationVote{RequestID: c19ReqName(a.Req), Address: named, Choice: a.Choice}, GAS, r.nextMemo(), who.Val)
				} else {
					tx = mkTx(action.RELEASE, evact.Release{ValidatorAddress: named}, GAS, r.nextMemo(), who.Val)
				}
				op = c19Op{Kind: "invalid"}
				d = fmt.Sprintf("%s naming %d signed by %d", a.Kind, a.Mal, a.Who)
			case "stake", "unstake", "withdraw":
				am := oltAmt(fmt.Sprint(a.Amount))
				kind := int64(0)
				delta := a.Amount
				switch a.Kind {
				case "stake":
					tx = txStake(who, am, r.nextMemo())
				case "unstake":
					tx, kind, delta = txUnstake(who, am, r.nextMemo()), 1, -a.Amount
				default:
					tx, kind, delta = txWithdraw(who, am, r.nextMemo()), 2, 0
				}
				op = c19Op{Kind: "stake", A: r.id(who.Val.Addr), B: kind, Delta: delta}
				d = fmt.Sprintf("%s %d by %d", a.Kind, a.Amount, a.Who)
			default:
				continue
			}
			res := r.rep.DeliverTx(tx)
			ok := res.Code == 0
			op.EnvOk = ok
			cs.Steps = append(cs.Steps, c19Step{Op: op, Ok: ok, Obs: r.observe(), Descr: d})
		}
		eb := r.rep.EndBlock()
		st := c19Step{Op: c19Op{Kind: "end", H: h, Queue: r.queue(committed)}, Ok: true, Descr: fmt.Sprintf("end %d", h)}
		for _, ev := range eb.Events {
			if ev.Type != "allegation_tracker" {
				continue
			}
			var mal, status int64 = 0, 0
			for _, at := range ev.Attributes {
				switch string(at.Key) {
				case "block.malicious":
					mal = r.id(keys.Address(at.Value))
				case "block.status":
					if len(at.Value) > 0 {
						status = int64(at.Value[0])
					}
				}
			}
			st.Verdicts = append(st.Verdicts, [2]int64{mal, status})
		}
		sort.Slice(st.Verdicts, func(i, j int) bool { return st.Verdicts[i][0] < st.Verdicts[j][0] })
		for _, u := range eb.ValidatorUpdates {
			if u.Power > 0 {
				st.Elected = append(st.Elected, r.pubID[string(u.PubKey.Data)])
			}
		}
		sort.Slice(st.Elected, func(i, j int) bool { return st.Elected[i] < st.Elected[j] })
		st.Obs = r.observe()
		r.rep.Commit()
		cs.Steps = append(cs.Steps, st)
	}
	return cs
}

// ---- Coq rendering ----

func c19Z(n int64) string {
	if n < 0 {
		return fmt.Sprintf("(%d)", n)
	}
	return fmt.Sprint(n)
}
func c19ZS(s string) string {
	if strings.HasPrefix(s, "-") {
		return "(" + s + ")"
	}
	return s
}
func c19B(b bool) string {
	if b {
		return "true"
	}
	return "false"
}
func c19List(xs []int64) string {
	s := make([]string, len(xs))
	for i, x := range xs {
		s[i] = c19Z(x)
	}
	return "[" + strings.Join(s, ";") + "]"
}
func c19Pairs(xs [][2]int64) string {
	s := make([]string, len(xs))
	for i, x := range xs {
		s[i] = "(" + c19Z(x[0]) + "," + c19Z(x[1]) + ")"
	}
	return "[" + strings.Join(s, ";") + "]"
}

func (c c19Cfg) coq() string {
	return fmt.Sprintf("(mkCfg %d %d %d %d %d %d %d %d %d %d %d %d)", c.VotePct, c.VoteDec, c.AllegPct, c.AllegDec, c.PenBase, c.PenDec, c.BountyPct, c.BountyDec, c.ReleaseDays, c.BlockVotesDiff, c.MinPower, c.TopN)
}

func (o c19Obs) coq() string {
	rq := []string{}
	for _, q := range o.Reqs {
		rq = append(rq, fmt.Sprintf("(%s, mkReq %s %s %s %s %s)", c19Z(q.ID), c19Z(q.Rep), c19Z(q.Mal), c19Z(q.H), c19Z(q.Status), c19Pairs(q.Votes)))
	}
	sp := []string{}
	for _, l := range o.Susp {
		ra := "None"
		if l.HasR {
			ra = "(Some " + c19Z(l.RAt) + ")"
		}
		sp = append(sp, fmt.Sprintf("(%s, mkLvh %s %s %s %s %s)", c19Z(l.A), c19Z(l.Status), c19Z(l.FH), c19Z(l.FAt), c19Z(l.RH), ra))
	}
	vs := []string{}
	for _, v := range o.VStat {
		vs = append(vs, fmt.Sprintf("(%s, mkVS %s %s)", c19Z(v.A), c19B(v.Active), c19Z(v.H)))
	}
	sk := []string{}
	for _, s := range o.Stake {
		sk = append(sk, "("+s[0]+","+c19ZS(s[1])+")")
	}
	vr := []string{}
	for _, s := range o.VRec {
		vr = append(vr, "("+s[0]+","+c19ZS(s[1])+")")
	}
	return fmt.Sprintf("(mkObs [%s] %s [%s] [%s] [%s] %s [%s])", strings.Join(rq, ";"), c19List(o.Tracker), strings.Join(sp, ";"), strings.Join(vs, ";"), strings.Join(sk, ";"), c19ZS(o.Bounty), strings.Join(vr, ";"))
}

func (op c19Op) coq() string {
	switch op.Kind {
	case "begin":
		return fmt.Sprintf("(OBegin %s %s %s)", c19Z(op.H), c19Z(op.T), c19List(op.Low))
	case "allege":
		return fmt.Sprintf("(OAllege %s %s %s %s)", c19Z(op.ID), c19Z(op.A), c19Z(op.B), c19Z(op.BH))
	case "vote":
		return fmt.Sprintf("(OVote %s %s %s)", c19Z(op.ID), c19Z(op.A), c19Z(op.B))
	case "release":
		return fmt.Sprintf("(ORelease %s)", c19Z(op.A))
	case "stake":
		return fmt.Sprintf("(OStake %s %s %s %s)", c19Z(op.B), c19Z(op.A), c19B(op.EnvOk), c19Z(op.Delta))
	case "invalid":
		return "OInvalid"
	default:
		return fmt.Sprintf("(OEnd %s [])", c19Pairs(op.Queue))
	}
}

func (c *c19Case) coq() string {
	st := []string{}
	for _, s := range c.Steps {
		st = append(st, fmt.Sprintf("  (mkStep %s %s %s %s %s)", s.Op.coq(), c19B(s.Ok), s.Obs.coq(), c19Pairs(s.Verdicts), c19List(s.Elected)))
	}
	return fmt.Sprintf(" (mkCase %s %s [\n%s])", c.Script.Cfg.coq(), c.Init.coq(), strings.Join(st, ";\n"))
}

func c19WriteCases(path string, cases []*c19Case) {
	var b strings.Builder
	b.WriteString("From stdpp Require Import gmap list.\nFrom Coq Require Import ZArith.\nFrom OL Require Import theories.Allegation theories.AllegationCheck.\nLocal Open Scope Z_scope.\n")
	b.WriteString("Definition cases : list Case := [\n")
	for i, c := range cases {
		if i > 0 {
			b.WriteString(";\n")
		}
		b.WriteString(c.coq())
	}
	b.WriteString("].\n")
	b.WriteString("Definition MM := Eval vm_compute in model_mismatches 0 cases.\nPrint MM.\n")
	b.WriteString("Definition MV := Eval vm_compute in monitor_violations 0 cases.\nPrint MV.\n")
	b.WriteString("Definition ST := Eval vm_compute in case_stats cases.\nPrint ST.\n")
	must(ioutil.WriteFile(path, []byte(b.String()), 0644))
}

// ---- generation ----

var c19Fracs = [][2]int64{{50, 100}, {67, 100}, {100, 100}, {1, 3}, {2, 3}, {90, 100}, {34, 100}, {1, 2}}

func c19GenCfg(r *rand.Rand) c19Cfg {
	v := c19Fracs[r.Intn(3)]
	if r.Intn(4) == 0 {
		v = c19Fracs[r.Intn(len(c19Fracs))]
	}
	a := c19Fracs[r.Intn(len(c19Fracs))]
	pen := [][2]int64{{30, 100}, {1, 3}, {5, 1000}, {50, 100}, {100, 100}, {7, 9}}[r.Intn(6)]
	bo := [][2]int64{{50, 100}, {1343, 10000}, {100, 100}, {0, 100}, {1, 3}}[r.Intn(5)]
	return c19Cfg{VotePct: v[0], VoteDec: v[1], AllegPct: a[0], AllegDec: a[1], PenBase: pen[0], PenDec: pen[1], BountyPct: bo[0], BountyDec: bo[1],
		ReleaseDays: int64(r.Intn(3)), BlockVotesDiff: 4, MinVotes: []int64{1, 3, 4}[r.Intn(3)], MinPower: 1000, TopN: []int64{16, 16, 2, 3}[r.Intn(4)]}
}

func c19GenScript(r *rand.Rand, name string, nblocks int) *c19Script {
	nv := 3 + r.Intn(4)
	sc := &c19Script{Name: name, NVals: nv, Cfg: c19GenCfg(r)}
	for i := 0; i < nv; i++ {
		sc.Powers = append(sc.Powers, []int64{3000000, 2999001, 1000, 1500, 777777, 123457}[r.Intn(6)])
	}
	if sc.Cfg.TopN < 16 {
		// oversubscribed election: more qualified stakers than slots, pairwise different powers
		if nv < 4 {
			nv = 4 + r.Intn(3)
			sc.NVals = nv
		}
		perm := r.Perm(6)
		sc.Powers = nil
		for i := 0; i < nv; i++ {
			sc.Powers = append(sc.Powers, []int64{3000000, 2999001, 4100, 1500, 777777, 123457}[perm[i]])
		}
	}
	ncast := nv + 3
	nreq := 0
	anyone := func() int {
		if r.Intn(5) == 0 {
			return nv + r.Intn(3)
		}
		return r.Intn(nv)
	}
	target := -1 // the accused the generator concentrates on
	for b := 0; b < nblocks; b++ {
		blk := c19Block{DT: 15}
		switch r.Intn(12) {
		case 0:
			blk.DT = 86400
		case 1:
			blk.DT = 86400*2 + 1
		case 2:
			blk.DT = 1
		}
		if r.Intn(3) == 0 {
			for k := 0; k < 1+r.Intn(2); k++ {
				blk.Absent = append(blk.Absent, r.Intn(nv))
			}
		}
		if target >= 0 && r.Intn(2) == 0 {
			blk.Absent = append(blk.Absent, target)
		}
		nact := r.Intn(7)
		for k := 0; k < nact; k++ {
			a := c19Act{Who: anyone()}
			switch x := r.Intn(20); {
			case x < 4:
				a.Kind = "allege"
				a.Mal = anyone()
				if target >= 0 && r.Intn(3) != 0 {
					a.Mal = target // keep at the same accused: also after its release (repeat offence)
				} else if r.Intn(2) == 0 {
					target = a.Mal
				}
				a.Req = nreq
				if nreq > 0 && r.Intn(6) == 0 {
					a.Req = r.Intn(nreq)
				} else {
					nreq++
				}
				if r.Intn(8) == 0 {
					a.BH = 3
				}
				if r.Intn(5) == 0 {
					// more requests against the same accused in this block, and votes on all of them
					first := a
					blk.Acts = append(blk.Acts, first)
					n := 1 + r.Intn(2)
					ids := []int{first.Req}
					for j := 0; j < n; j++ {
						d := c19Act{Kind: "allege", Who: r.Intn(nv), Mal: first.Mal, Req: nreq}
						ids = append(ids, nreq)
						nreq++
						blk.Acts = append(blk.Acts, d)
					}
					for _, id := range ids {
						for v := 0; v < nv; v++ {
							if r.Intn(4) != 0 {
								blk.Acts = append(blk.Acts, c19Act{Kind: "vote", Who: v, Req: id, Choice: 1})
							}
						}
					}
					continue
				}
			case x < 12:
				if nreq == 0 {
					continue
				}
				a.Kind = "vote"
				a.Req = nreq - 1 - r.Intn(c19MinInt(nreq, 3))
				a.Choice = int8(1 + r.Intn(2))
				if r.Intn(3) != 0 {
					a.Choice = 1
				}
				if r.Intn(15) == 0 {
					a.Choice = int8(r.Intn(4))
				}
				if r.Intn(4) != 0 {
					a.Who = r.Intn(nv)
				}
			case x < 14:
				a.Kind = "release"
				if target >= 0 && r.Intn(2) == 0 {
					a.Who = target
				}
			case x < 15:
				a.Kind = []string{"forgevote", "forgerelease"}[r.Intn(2)]
				a.Mal = r.Intn(nv)
				if target >= 0 && r.Intn(2) == 0 {
					a.Mal = target
				}
				a.Choice = 1
				if nreq > 0 {
					a.Req = nreq - 1
				}
			default:
				a.Kind = []string{"stake", "unstake", "withdraw"}[r.Intn(3)]
				a.Who = r.Intn(nv + 1)
				if target >= 0 && target <= nv && r.Intn(2) == 0 {
					a.Who = target
				}
				a.Amount = []int64{1, 500, 1000, 2000, 2999000, 3100000, 654321}[r.Intn(7)]
				// now and then the whole genesis stake: the validator record is deleted two blocks later
				if a.Kind == "unstake" && a.Who < nv && r.Intn(3) == 0 {
					a.Amount = sc.Powers[a.Who]
					target = a.Who
				}
			}
			if a.Who >= ncast {
				a.Who = 0
			}
			blk.Acts = append(blk.Acts, a)
		}
		sc.Blocks = append(sc.Blocks, blk)
	}
	return sc
}

func c19MinInt(a, b int) int {
	if a < b {
		return a
	}
	return b
}

// directed scripts: tally boundaries and the anticipated weak points
func c19Directed() []*c19Script {
	base := c19Cfg{VotePct: 50, VoteDec: 100, AllegPct: 50, AllegDec: 100, PenBase: 30, PenDec: 100, BountyPct: 50, BountyDec: 100, ReleaseDays: 1, BlockVotesDiff: 4, MinVotes: 1, MinPower: 1000, TopN: 16}
	out := []*c19Script{}
	idle := func(n int) []c19Block {
		bs := []c19Block{}
		for i := 0; i < n; i++ {
			bs = append(bs, c19Block{DT: 15})
		}
		return bs
	}
	votes := func(req int, yes []int, no []int) []c19Act {
		as := []c19Act{}
		for _, v := range yes {
			as = append(as, c19Act{Kind: "vote", Who: v, Req: req, Choice: 1})
		}
		for _, v := range no {
			as = append(as, c19Act{Kind: "vote", Who: v, Req: req, Choice: 2})
		}
		return as
	}
	// tally boundaries: n validators, vote share, allegation share, k yes votes one by one
	for _, nv := range []int{3, 4, 5, 6} {
		for _, fr := range [][4]int64{{50, 100, 50, 100}, {100, 100, 50, 100}, {67, 100, 2, 3}, {100, 100, 1, 3}, {1, 3, 90, 100}} {
			for _, ch := range []int8{1, 2} {
				c := base
				c.VotePct, c.VoteDec, c.AllegPct, c.AllegDec = fr[0], fr[1], fr[2], fr[3]
				sc := &c19Script{Name: fmt.Sprintf("boundary-n%d-%v-c%d", nv, fr, ch), NVals: nv, Cfg: c}
				sc.Blocks = idle(5)
				sc.Blocks = append(sc.Blocks, c19Block{DT: 15, Acts: []c19Act{{Kind: "allege", Who: 0, Mal: nv - 1, Req: 0}}})
				for v := 0; v < nv-1; v++ {
					sc.Blocks = append(sc.Blocks, c19Block{DT: 15, Acts: []c19Act{{Kind: "vote", Who: v, Req: 0, Choice: ch}, {Kind: "vote", Who: v, Req: 0, Choice: 3 - ch}}})
				}
				sc.Blocks = append(sc.Blocks, idle(2)...)
				out = append(out, sc)
			}
		}
	}
	// guilty, then staking ops and release attempts around the release time
	{
		c := base
		sc := &c19Script{Name: "guilty-frozen-release", NVals: 4, Cfg: c}
		sc.Blocks = idle(5)
		sc.Blocks = append(sc.Blocks,
			c19Block{DT: 15, Acts: append([]c19Act{{Kind: "allege", Who: 0, Mal: 3, Req: 0}, {Kind: "forgevote", Who: 5, Mal: 2, Req: 0, Choice: 1}, {Kind: "forgevote", Who: 0, Mal: 2, Req: 0, Choice: 1}}, votes(0, []int{0, 1}, nil)...)},
			c19Block{DT: 15, Acts: []c19Act{{Kind: "stake", Who: 3, Amount: 500}, {Kind: "unstake", Who: 3, Amount: 500}, {Kind: "withdraw", Who: 3, Amount: 1}, {Kind: "release", Who: 3}, {Kind: "vote", Who: 3, Req: 0, Choice: 1}, {Kind: "allege", Who: 3, Mal: 0, Req: 1}, {Kind: "allege", Who: 0, Mal: 3, Req: 2}}},
			c19Block{DT: 86400 - 15, Acts: []c19Act{{Kind: "release", Who: 3}}},
			c19Block{DT: 1, Acts: []c19Act{{Kind: "forgerelease", Who: 4, Mal: 3}, {Kind: "forgerelease", Who: 0, Mal: 3}, {Kind: "unstake", Who: 3, Amount: 1}, {Kind: "release", Who: 3}, {Kind: "release", Who: 3}, {Kind: "stake", Who: 3, Amount: 500}}},
			c19Block{DT: 15, Acts: []c19Act{{Kind: "unstake", Who: 3, Amount: 100}, {Kind: "release", Who: 3}}})
		sc.Blocks = append(sc.Blocks, idle(3)...)
		out = append(out, sc)
	}
	// two requests decided in one block (different accused), plus a duplicate against the same accused in one block
	{
		c := base
		sc := &c19Script{Name: "two-decided-one-block", NVals: 5, Cfg: c}
		sc.Blocks = idle(5)
		sc.Blocks = append(sc.Blocks,
			c19Block{DT: 15, Acts: []c19Act{{Kind: "allege", Who: 0, Mal: 3, Req: 1}, {Kind: "allege", Who: 1, Mal: 4, Req: 0}, {Kind: "allege", Who: 2, Mal: 4, Req: 2}}},
			c19Block{DT: 15, Acts: append(append(votes(1, []int{0, 1}, []int{2}), votes(0, []int{0, 1, 2}, nil)...), votes(2, []int{0, 1, 2}, nil)...)})
		sc.Blocks = append(sc.Blocks, idle(3)...)
		out = append(out, sc)
	}
	// missed-votes scan over a byzantine record: accused stops signing, is found guilty, next BeginBlock rescans
	{
		c := base
		c.MinVotes = 3
		sc := &c19Script{Name: "missed-overwrites-byzantine", NVals: 4, Cfg: c}
		sc.Blocks = idle(5)
		sc.Blocks = append(sc.Blocks,
			c19Block{DT: 15, Absent: []int{3}, Acts: append([]c19Act{{Kind: "allege", Who: 0, Mal: 3, Req: 0}}, votes(0, []int{0, 1}, nil)...)},
			c19Block{DT: 15, Absent: []int{3}, Acts: []c19Act{{Kind: "release", Who: 3}, {Kind: "unstake", Who: 3, Amount: 1000}}},
			c19Block{DT: 15, Absent: []int{3}, Acts: []c19Act{{Kind: "release", Who: 3}, {Kind: "unstake", Who: 3, Amount: 1000}}},
			c19Block{DT: 15, Acts: []c19Act{{Kind: "release", Who: 3}, {Kind: "unstake", Who: 3, Amount: 1000}}})
		sc.Blocks = append(sc.Blocks, idle(3)...)
		out = append(out, sc)
	}
	// early heights: guilty at height 3, the exclusion list is not built while height <= BlockVotesDiff
	{
		c := base
		c.BlockVotesDiff = 8
		sc := &c19Script{Name: "early-height", NVals: 4, Cfg: c}
		sc.Blocks = idle(2)
		sc.Blocks = append(sc.Blocks, c19Block{DT: 15, Acts: append([]c19Act{{Kind: "allege", Who: 0, Mal: 3, Req: 0}}, votes(0, []int{0, 1}, nil)...)})
		sc.Blocks = append(sc.Blocks, idle(8)...)
		out = append(out, sc)
	}
	// float64: 1 - 0.9 < 0.1 ; ten active validators, all must vote, one NO vote
	{
		c := base
		c.VotePct, c.VoteDec, c.AllegPct, c.AllegDec = 100, 100, 90, 100
		sc := &c19Script{Name: "float-one-minus-0.9", NVals: 10, Cfg: c}
		sc.Blocks = idle(5)
		sc.Blocks = append(sc.Blocks, c19Block{DT: 15, Acts: append([]c19Act{{Kind: "allege", Who: 0, Mal: 9, Req: 0}}, votes(0, nil, []int{1})...)})
		sc.Blocks = append(sc.Blocks, idle(2)...)
		out = append(out, sc)
	}
	// accused unstaked everything: its validator record is deleted by EndBlock before the votes cross
	{
		c := base
		sc := &c19Script{Name: "accused-unstaked-all", NVals: 4, Cfg: c}
		sc.Blocks = idle(5)
		sc.Blocks = append(sc.Blocks,
			c19Block{DT: 15, Acts: []c19Act{{Kind: "unstake", Who: 3, Amount: 2997000}}},
			c19Block{DT: 15},
			c19Block{DT: 15, Acts: append([]c19Act{{Kind: "allege", Who: 0, Mal: 3, Req: 0}}, votes(0, []int{0, 1}, nil)...)},
			c19Block{DT: 15, Acts: []c19Act{{Kind: "vote", Who: 2, Req: 0, Choice: 2}, {Kind: "withdraw", Who: 3, Amount: 1000}, {Kind: "stake", Who: 3, Amount: 5000}}},
			c19Block{DT: 86400 + 1, Acts: []c19Act{{Kind: "release", Who: 3}, {Kind: "withdraw", Who: 3, Amount: 1000}}},
			c19Block{DT: 15, Acts: []c19Act{{Kind: "allege", Who: 1, Mal: 3, Req: 1}, {Kind: "stake", Who: 3, Amount: 5000}}})
		sc.Blocks = append(sc.Blocks, idle(2)...)
		out = append(out, sc)
	}
	// oversubscribed election: 5 stakers, 2 slots; standby stakers accuse and vote (must be refused);
	// a standby staker stakes its way into the top 2, the out-staked validator is refused from then on
	{
		c := base
		c.TopN = 2
		c.VotePct, c.VoteDec = 100, 100
		sc := &c19Script{Name: "standby-stakers", NVals: 5, Cfg: c, Powers: []int64{3000000, 2999000, 2998000, 2997000, 2996000}}
		sc.Blocks = idle(5)
		sc.Blocks = append(sc.Blocks,
			c19Block{DT: 15, Acts: []c19Act{{Kind: "allege", Who: 2, Mal: 1, Req: 0}, {Kind: "allege", Who: 3, Mal: 1, Req: 1}}},
			c19Block{DT: 15, Acts: append([]c19Act{{Kind: "allege", Who: 0, Mal: 1, Req: 2}}, votes(2, []int{2, 3, 4}, nil)...)},
			c19Block{DT: 15, Acts: []c19Act{{Kind: "stake", Who: 4, Amount: 10000}}},
			c19Block{DT: 15},
			c19Block{DT: 15, Acts: append(votes(2, []int{4, 1, 2}, nil), c19Act{Kind: "allege", Who: 1, Mal: 0, Req: 3})},
			c19Block{DT: 15, Acts: votes(2, []int{0, 3}, nil)})
		sc.Blocks = append(sc.Blocks, idle(3)...)
		out = append(out, sc)
	}
	// repeat offence: conviction, release after the release time, re-election, second conviction;
	// then the convicted validator tries everything; quiet blocks
	{
		c := base
		sc := &c19Script{Name: "repeat-offender", NVals: 4, Cfg: c}
		sc.Blocks = idle(5)
		sc.Blocks = append(sc.Blocks,
			c19Block{DT: 15, Acts: append([]c19Act{{Kind: "allege", Who: 0, Mal: 3, Req: 0}}, votes(0, []int{0, 1}, nil)...)},
			c19Block{DT: 15},
			c19Block{DT: 86400 + 1, Acts: []c19Act{{Kind: "release", Who: 3}}},
			c19Block{DT: 15, Acts: []c19Act{{Kind: "stake", Who: 3, Amount: 1000}}},
			c19Block{DT: 15},
			c19Block{DT: 15, Acts: append([]c19Act{{Kind: "allege", Who: 3, Mal: 0, Req: 1}, {Kind: "allege", Who: 0, Mal: 3, Req: 2}}, votes(2, []int{0, 1, 2}, nil)...)},
			c19Block{DT: 15, Acts: []c19Act{{Kind: "stake", Who: 3, Amount: 500}, {Kind: "unstake", Who: 3, Amount: 500}, {Kind: "withdraw", Who: 3, Amount: 1}, {Kind: "vote", Who: 3, Req: 1, Choice: 1}, {Kind: "allege", Who: 3, Mal: 1, Req: 3}, {Kind: "release", Who: 3}}},
			c19Block{DT: 15, Acts: []c19Act{{Kind: "unstake", Who: 3, Amount: 500}, {Kind: "vote", Who: 3, Req: 1, Choice: 2}}})
		sc.Blocks = append(sc.Blocks, idle(7)...)
		out = append(out, sc)
	}
	// several requests against ONE validator opened in one block (CheckRequestExists only sees
	// committed records) with all deciding votes in that same block; variants: the votes of the
	// second request a block later; three requests
	for variant := 0; variant < 3; variant++ {
		c := base
		sc := &c19Script{Name: fmt.Sprintf("duplicate-requests-one-block-%d", variant), NVals: 5, Cfg: c}
		sc.Blocks = idle(5)
		b := c19Block{DT: 15, Acts: []c19Act{{Kind: "allege", Who: 0, Mal: 4, Req: 0}, {Kind: "allege", Who: 1, Mal: 4, Req: 1}}}
		if variant == 2 {
			b.Acts = append(b.Acts, c19Act{Kind: "allege", Who: 2, Mal: 4, Req: 2})
		}
		b.Acts = append(b.Acts, votes(0, []int{0, 1, 2}, nil)...)
		if variant != 1 {
			b.Acts = append(b.Acts, votes(1, []int{0, 1, 2}, nil)...)
		}
		if variant == 2 {
			b.Acts = append(b.Acts, votes(2, []int{0, 1, 2}, nil)...)
		}
		sc.Blocks = append(sc.Blocks, b)
		if variant == 1 {
			sc.Blocks = append(sc.Blocks, c19Block{DT: 15, Acts: votes(1, []int{0, 1, 2}, nil)})
		}
		sc.Blocks = append(sc.Blocks, idle(4)...)
		out = append(out, sc)
	}
	// votes of validators that have left the active set: 1 votes YES, then unstakes below the minimum
	// and drops out; a second YES vote makes 2 of ceil(3*50%) = 2 required
	{
		c := base
		sc := &c19Script{Name: "stale-votes", NVals: 4, Cfg: c}
		sc.Blocks = idle(5)
		sc.Blocks = append(sc.Blocks,
			c19Block{DT: 15, Acts: append([]c19Act{{Kind: "allege", Who: 0, Mal: 3, Req: 0}}, votes(0, []int{1}, nil)...)},
			c19Block{DT: 15, Acts: []c19Act{{Kind: "unstake", Who: 1, Amount: 2998500}}},
			c19Block{DT: 15},
			c19Block{DT: 15, Acts: votes(0, []int{0}, nil)})
		sc.Blocks = append(sc.Blocks, idle(3)...)
		out = append(out, sc)
	}
	// accused is not a validator
	{
		c := base
		sc := &c19Script{Name: "accused-outsider", NVals: 3, Cfg: c}
		sc.Blocks = idle(5)
		sc.Blocks = append(sc.Blocks, c19Block{DT: 15, Acts: append([]c19Act{{Kind: "allege", Who: 0, Mal: 4, Req: 0}}, votes(0, []int{0, 1}, nil)...)})
		sc.Blocks = append(sc.Blocks, c19Block{DT: 15, Acts: votes(0, []int{2}, nil)})
		sc.Blocks = append(sc.Blocks, idle(2)...)
		out = append(out, sc)
	}
	return out
}

type c19Report struct {
	Cases     int
	Steps     int
	Files     []string
	OpHist    map[string]int
	OkHist    map[string]int
	Verdicts  map[string]int
	Errors    []string
	Names     []string
	Samples   []string
	WallMs    int64
	Per       int
}

func c19Main(args []string) int {
	fs := flag.NewFlagSet("c19", flag.ExitOnError)
	seed := fs.Int64("seed", 1, "seed")
	n := fs.Int("n", 40, "random cases")
	nb := fs.Int("blocks", 24, "blocks per random case")
	outDir := fs.String("out", ".", "output directory")
	scriptFile := fs.String("script", "", "run only the scripts of this JSON file")
	noDirected := fs.Bool("nodirected", false, "skip the directed scripts")
	per := fs.Int("per", 25, "cases per Coq file")
	fs.Parse(args)
	t0 := time.Now()
	scripts := []*c19Script{}
	if *scriptFile != "" {
		bz, err := ioutil.ReadFile(*scriptFile)
		must(err)
		must(json.Unmarshal(bz, &scripts))
	} else {
		if !*noDirected {
			scripts = append(scripts, c19Directed()...)
		}
		r := rand.New(rand.NewSource(*seed))
		for i := 0; i < *n; i++ {
			scripts = append(scripts, c19GenScript(r, fmt.Sprintf("random-%d-%d", *seed, i), *nb))
		}
	}
	rep := c19Report{OpHist: map[string]int{}, OkHist: map[string]int{}, Verdicts: map[string]int{}}
	cases := []*c19Case{}
	for _, sc := range scripts {
		c := c19RunScript(sc)
		cases = append(cases, c)
		rep.Names = append(rep.Names, sc.Name)
		if c.Err != "" {
			rep.Errors = append(rep.Errors, sc.Name+": "+c.Err)
		}
		for _, s := range c.Steps {
			rep.Steps++
			k := s.Op.Kind
			if k == "stake" {
				k = []string{"stake", "unstake", "withdraw"}[s.Op.B]
			}
			rep.OpHist[k]++
			if s.Op.Kind != "begin" && s.Op.Kind != "end" {
				rep.OkHist[fmt.Sprintf("%s:%v", k, s.Ok)]++
			}
			for _, v := range s.Verdicts {
				rep.Verdicts[fmt.Sprint(v[1])]++
			}
		}
	}
	rep.Cases = len(cases)
	rep.Per = *per
	for i := 0; i < len(cases); i += *per {
		j := i + *per
		if j > len(cases) {
			j = len(cases)
		}
		f := filepath.Join(*outDir, fmt.Sprintf("c19_cases_%d.v", i / *per))
		c19WriteCases(f, cases[i:j])
		rep.Files = append(rep.Files, f)
	}
	for i := 0; i < len(cases) && i < 3; i++ {
		rep.Samples = append(rep.Samples, jsonString(cases[i].Script))
	}
	rep.WallMs = time.Since(t0).Milliseconds()
	bz, _ := json.Marshal(cases)
	must(ioutil.WriteFile(filepath.Join(*outDir, "c19_cases.json"), bz, 0644))
	bz, _ = json.MarshalIndent(rep, "", " ")
	must(ioutil.WriteFile(filepath.Join(*outDir, "c19_report.json"), bz, 0644))
	say("c19: %d cases, %d steps, %d errors, %d ms\n", rep.Cases, rep.Steps, len(rep.Errors), rep.WallMs)
	if len(rep.Errors) > 0 {
		fmt.Fprintln(os.Stderr, rep.Errors)
	}
	return 0
}
