package main

// C12: delegation pool consistency and undelegation maturity, on the real application.
// A case = a genesis (active / pending delegations, reward balances, pending reward withdrawals
// loaded by InitChain) + a block history of delegate / undelegate / withdraw-rewards / reinvest /
// send-to-pool transactions by several delegators.  After every ABCI step (BeginBlock, each
// DeliverTx) the deliver state is projected to the observables of coq/theories/DelegCheck.v.

import (
	"bytes"
	"encoding/json"
	"flag"
	"fmt"
	"math/big"
	"math/rand"
	"os"
	"sort"
	"strconv"
	"strings"

	"github.com/Oneledger/protocol/consensus"
	"github.com/Oneledger/protocol/data/balance"
	"github.com/Oneledger/protocol/data/keys"
	netdata "github.com/Oneledger/protocol/data/network_delegation"
	"github.com/Oneledger/protocol/serialize"
)

func init() { subcmds["c12"] = c12Main }

const c12PoolKey = "00000000000000000001" // network_delegation.DELEGATION_POOL_KEY

type c12Entry struct {
	H   int64  `json:"h,omitempty"`
	A   int    `json:"a"`
	Amt string `json:"amt"`
}

type c12Gen struct {
	Active    []c12Entry `json:"active,omitempty"`
	Pending   []c12Entry `json:"pending,omitempty"`
	RewBal    []c12Entry `json:"rewbal,omitempty"`
	RewPend   []c12Entry `json:"rewpend,omitempty"`
	PoolExtra string     `json:"pool_extra,omitempty"` // pool balance beyond the sum of Active
}

type c12Op struct {
	Kind string     `json:"kind"` // begin delegate undelegate withdrawrw reinvest donate
	A    int        `json:"a,omitempty"`
	Amt  string     `json:"amt,omitempty"`
	Fee  string     `json:"fee,omitempty"`  // observed: gasUsed * price when the tx succeeded
	Accr []c12Entry `json:"accr,omitempty"` // begin: observed reward accrual per delegator
}

type c12Snap struct {
	Bal    []string   `json:"bal"`
	Pool   string     `json:"pool"`
	Active []c12Entry `json:"active"`
	Pend   []c12Entry `json:"pend"`
	Rew    []string   `json:"rew"`
	RPend  []c12Entry `json:"rpend"`
}

// c12Spec is the replayable input of a case
type c12Spec struct {
	Name   string    `json:"name"`
	NUsers int       `json:"nusers"`
	Gen    c12Gen    `json:"gen"`
	Blocks [][]c12Op `json:"blocks"` // transactions per block (kind, a, amt)
	// indices of blocks before whose BeginBlock the node process is restarted (fresh stores over the same data)
	RestartBefore []int `json:"restart_before,omitempty"`
}

type c12Case struct {
	Spec  c12Spec   `json:"spec"`
	K     int64     `json:"k"`
	Addrs []string  `json:"addrs"`
	Gen   c12Snap   `json:"gen_snap"`
	Ops   []c12Op   `json:"ops"`
	Res   []bool    `json:"res"`
	Snaps []c12Snap `json:"snaps"`
	Alien []string  `json:"alien,omitempty"` // delegation keys of addresses outside the cast
}

func c12Big(s string) *big.Int {
	b, ok := new(big.Int).SetString(s, 10)
	if !ok {
		panic("c12: bad amount " + s)
	}
	return b
}

func c12Coin(s string) *balance.Coin {
	c := OLT.NewCoinFromAmount(*balance.NewAmountFromBigInt(c12Big(s)))
	return &c
}

func c12Customize(w *World, g c12Gen) func(*consensus.AppState) {
	return func(st *consensus.AppState) {
		poolAmt := new(big.Int)
		for _, e := range g.Active {
			a := w.Users[e.A].Addr
			st.NetDelegators.ActiveList = append(st.NetDelegators.ActiveList, netdata.Delegator{Address: &a, Amount: c12Coin(e.Amt)})
			poolAmt.Add(poolAmt, c12Big(e.Amt))
		}
		for _, e := range g.Pending {
			st.NetDelegators.PendingList = append(st.NetDelegators.PendingList, pendingEntry(w.Users[e.A].Addr, e.H, c12Coin(e.Amt)))
		}
		for _, e := range g.RewBal {
			st.DelegatorRew.BalanceList = append(st.DelegatorRew.BalanceList, netdata.Reward{Address: w.Users[e.A].Addr, Amount: balance.NewAmountFromBigInt(c12Big(e.Amt))})
		}
		for _, e := range g.RewPend {
			st.DelegatorRew.PendingList = append(st.DelegatorRew.PendingList, netdata.PendingReward{Address: w.Users[e.A].Addr, Amount: balance.NewAmountFromBigInt(c12Big(e.Amt)), Height: e.H})
		}
		if g.PoolExtra != "" {
			poolAmt.Add(poolAmt, c12Big(g.PoolExtra))
		}
		if poolAmt.Sign() != 0 {
			st.Balances = append(st.Balances, consensus.BalanceState{Address: keys.Address(c12PoolKey), Currency: "OLT", Amount: *balance.NewAmountFromBigInt(poolAmt)})
		}
	}
}

type c12Runner struct {
	w     *World
	n     int
	rep   *Replica
	idx   map[string]int
	c     *c12Case
	nonce int
	prev  c12Snap
}

func c12Amount(v string) string {
	a := balance.NewAmount(0)
	if err := serialize.GetSerializer(serialize.PERSISTENT).Deserialize([]byte(v), a); err != nil {
		return "ERR"
	}
	return a.String()
}

func c12CoinAmount(v string) string {
	c := &balance.Coin{}
	if err := serialize.GetSerializer(serialize.PERSISTENT).Deserialize([]byte(v), c); err != nil || c.Amount == nil {
		return "ERR"
	}
	return c.Amount.String()
}

func (r *c12Runner) snap() c12Snap {
	v := r.rep.View()
	s := c12Snap{Bal: make([]string, r.n), Rew: make([]string, r.n), Pool: "0", Active: []c12Entry{}, Pend: []c12Entry{}, RPend: []c12Entry{}}
	for i := 0; i < r.n; i++ {
		s.Bal[i], s.Rew[i] = "0", "0"
		if x, ok := v["b_"+r.w.Users[i].Addr.String()+"_OLT"]; ok {
			s.Bal[i] = c12Amount(x)
		}
	}
	if x, ok := v["b_"+keys.Address(c12PoolKey).String()+"_OLT"]; ok {
		s.Pool = c12Amount(x)
	}
	for _, k := range sortedKeys(v) {
		val := v[k]
		who := func(a string) (int, bool) {
			i, ok := r.idx[a]
			if !ok {
				r.c.Alien = append(r.c.Alien, k)
			}
			return i, ok
		}
		switch {
		case strings.HasPrefix(k, "deleg_a_"):
			if i, ok := who(k[len("deleg_a_"):]); ok {
				s.Active = append(s.Active, c12Entry{A: i, Amt: c12CoinAmount(val)})
			}
		case strings.HasPrefix(k, "deleg_p_"):
			p := strings.SplitN(k[len("deleg_p_"):], "_", 2)
			h, err := strconv.ParseInt(p[0], 10, 64)
			if err != nil || len(p) != 2 {
				r.c.Alien = append(r.c.Alien, k)
				continue
			}
			if i, ok := who(p[1]); ok {
				s.Pend = append(s.Pend, c12Entry{H: h, A: i, Amt: c12CoinAmount(val)})
			}
		case strings.HasPrefix(k, "delegRwz_balance_"):
			if i, ok := who(k[len("delegRwz_balance_"):]); ok {
				s.Rew[i] = c12Amount(val)
			}
		case strings.HasPrefix(k, "delegRwz_pending_"):
			p := strings.SplitN(k[len("delegRwz_pending_"):], "_", 2)
			h, err := strconv.ParseInt(p[0], 10, 64)
			if err != nil || len(p) != 2 {
				r.c.Alien = append(r.c.Alien, k)
				continue
			}
			if i, ok := who(p[1]); ok {
				s.RPend = append(s.RPend, c12Entry{H: h, A: i, Amt: c12Amount(val)})
			}
		case strings.HasPrefix(k, "deleg") && k != "delegRwz_total_rewards":
			// e.g. "deleg_a<addr>" or "deleg_p_<addr>": a delegation-store key of no known shape
			r.c.Alien = append(r.c.Alien, k)
		}
	}
	return s
}

func (r *c12Runner) memo() string { r.nonce++; return fmt.Sprintf("c12m%d", r.nonce) }

func (r *c12Runner) buildTx(o c12Op) []byte {
	u := r.w.Users[o.A]
	GAS = 1000000
	switch o.Kind {
	case "delegate":
		return txDelegate(u, oltAmt(o.Amt), r.memo())
	case "undelegate":
		return txUndelegate(u, oltAmt(o.Amt), r.memo())
	case "withdrawrw":
		return txDelegWithdrawRewards(u, oltAmt(o.Amt), r.memo())
	case "reinvest":
		return txDelegReinvest(u, oltAmt(o.Amt), r.memo())
	case "donate":
		return txSendPool(u, "DelegationPool", oltAmt(o.Amt), r.memo())
	}
	panic("c12: unknown op kind " + o.Kind)
}

func c12Sub(a, b string) string { return new(big.Int).Sub(c12Big(a), c12Big(b)).String() }

// chooser picks the transactions of the next block given the current observed state (nil = replay)
type c12Chooser func(r *c12Runner, height int64, cur c12Snap) []c12Op

func c12Run(spec c12Spec, choose c12Chooser, nblocks int) *c12Case {
	w := NewWorld(2, 5, 0)
	n := spec.NUsers
	g := w.Genesis()
	g.Customize = c12Customize(w, spec.Gen)
	rep := NewReplica(g, ReplicaOpts{NodeVal: w.Vals[0].Val})
	defer rep.Close()
	c := &c12Case{Spec: spec}
	r := &c12Runner{w: w, n: n, rep: rep, idx: map[string]int{}, c: c}
	for i := 0; i < n; i++ {
		r.idx[w.Users[i].Addr.String()] = i
		c.Addrs = append(c.Addrs, w.Users[i].Addr.String())
	}
	rep.InitChain()
	// InitChain writes into the deliver state; it is committed with the first block
	c.Gen = r.snap()
	r.prev = c.Gen
	c.K = 4
	if v, ok := rep.View()["g_\x00_networkdelegopt"]; ok {
		var o netdata.Options
		if json.Unmarshal([]byte(v), &o) == nil {
			c.K = o.RewardsMaturityTime
		}
	}
	if choose != nil {
		c.Spec.Blocks = nil
	} else {
		nblocks = len(spec.Blocks)
	}
	for b := 0; b < nblocks; b++ {
		for _, rb := range spec.RestartBefore {
			if rb == b && b > 0 {
				rep.Crash() // copy of the on-disk data after the last Commit, fresh application over it
			}
		}
		in := BlockIn{Absent: map[int]bool{}}
		rep.BeginBlock(&in)
		cur := r.snap()
		bop := c12Op{Kind: "begin"}
		for i := 0; i < n; i++ {
			if d := c12Sub(cur.Rew[i], r.prev.Rew[i]); d != "0" {
				bop.Accr = append(bop.Accr, c12Entry{A: i, Amt: d})
			}
		}
		c.Ops, c.Res, c.Snaps = append(c.Ops, bop), append(c.Res, true), append(c.Snaps, cur)
		r.prev = cur
		var txs []c12Op
		if choose != nil {
			txs = choose(r, rep.H, cur)
			c.Spec.Blocks = append(c.Spec.Blocks, txs)
		} else {
			txs = spec.Blocks[b]
		}
		for _, o := range txs {
			o.Fee, o.Accr = "0", nil
			res := rep.DeliverTx(r.buildTx(o))
			ok := res.Code == 0
			if ok {
				o.Fee = new(big.Int).Mul(big.NewInt(res.GasUsed), big.NewInt(1000000000)).String()
			}
			cur = r.snap()
			c.Ops, c.Res, c.Snaps = append(c.Ops, o), append(c.Res, ok), append(c.Snaps, cur)
			r.prev = cur
		}
		rep.EndBlock()
		rep.Commit()
	}
	return c
}

// ---- generation ----

var c12CollisionSets = [][]int64{{1, 10, 13, 17, 19}, {2, 20, 21, 25, 29}, {3, 30, 31}, {12, 120, 125}, {5, 7, 9, 11}}

func c12GenGenesis(r *rand.Rand, variant int, n int) c12Gen {
	g := c12Gen{}
	e18 := "000000000000000000"
	if variant == 1 || variant == 3 {
		// pending undelegations at heights whose decimal strings are prefixes of one another
		seen := map[string]bool{}
		for _, set := range c12CollisionSets {
			if r.Intn(3) == 0 {
				continue
			}
			for _, h := range set {
				if r.Intn(4) == 0 {
					continue
				}
				a := r.Intn(n)
				if r.Intn(2) == 0 {
					a = 0 // same delegator on both colliding keys
				}
				k := fmt.Sprintf("%d_%d", h, a)
				if seen[k] {
					continue
				}
				seen[k] = true
				g.Pending = append(g.Pending, c12Entry{H: h, A: a, Amt: strconv.Itoa(1+r.Intn(9)) + e18})
			}
		}
	}
	if variant == 2 || variant == 3 {
		for a := 0; a < n; a++ {
			if r.Intn(3) > 0 {
				g.Active = append(g.Active, c12Entry{A: a, Amt: strconv.Itoa(10+r.Intn(90)) + e18})
			}
			if r.Intn(2) == 0 {
				if r.Intn(2) == 0 {
					g.RewBal = append(g.RewBal, c12Entry{A: a, Amt: strconv.Itoa(20+r.Intn(200)) + e18})
				} else {
					g.RewBal = append(g.RewBal, c12Entry{A: a, Amt: strconv.Itoa(1000 + r.Intn(100000))})
				}
			}
		}
		// pending reward withdrawals: their scan prefix ends in the separator (no collisions)
		for _, h := range []int64{1, 2, 12, 13, 20, 21} {
			if r.Intn(2) == 0 {
				g.RewPend = append(g.RewPend, c12Entry{H: h, A: r.Intn(n), Amt: strconv.Itoa(100 + r.Intn(900))})
			}
		}
		if r.Intn(3) == 0 {
			g.PoolExtra = "5" + e18
		}
	}
	return g
}

func c12Frac(r *rand.Rand, base string, zeroAlt string) (string, string) {
	b := c12Big(base)
	if b.Sign() <= 0 {
		if r.Intn(3) == 0 {
			return "0", "zero"
		}
		return zeroAlt, "zero-base"
	}
	switch r.Intn(7) {
	case 6:
		return "0", "zero"
	case 0:
		return b.String(), "all"
	case 1:
		return new(big.Int).Add(b, big.NewInt(1)).String(), "all+1"
	case 2, 3:
		return new(big.Int).Div(b, big.NewInt(int64(2+r.Intn(3)))).String(), "part"
	case 4:
		return "1", "one"
	default:
		return new(big.Int).Div(b, big.NewInt(1000)).String(), "small"
	}
}

func c12Chooser1(r *rand.Rand, n int, maxTx int, hist map[string]int, noDonate bool) c12Chooser {
	e18 := "000000000000000000"
	exodus, quiet := false, 0
	return func(run *c12Runner, height int64, cur c12Snap) []c12Op {
		ops := []c12Op{}
		cnt := r.Intn(maxTx + 1)
		if r.Intn(5) == 0 {
			cnt = 0
		}
		active := map[int]string{}
		for _, e := range cur.Active {
			active[e.A] = e.Amt
		}
		if quiet > 0 {
			quiet--
			return ops
		}
		if exodus {
			// everybody undelegates everything right after a reward withdrawal, then nothing happens
			// until that withdrawal has matured: its maturity block begins with an empty pool
			exodus, quiet = false, 4
			for a := 0; a < n; a++ {
				if act := active[a]; act != "" && c12Big(act).Sign() > 0 {
					ops = append(ops, c12Op{Kind: "undelegate", A: a, Amt: act})
					hist["undelegate-all-exodus"]++
				}
			}
			return ops
		}
		if r.Intn(9) == 0 {
			// zero burst: one delegator undelegates 0 (his only operation in this block), every
			// other delegator with an active delegation undelegates a real part
			z := r.Intn(n)
			for a := 0; a < n; a++ {
				if a == z {
					ops = append(ops, c12Op{Kind: "undelegate", A: a, Amt: "0"})
					hist["undelegate-zero-burst"]++
				} else if act := active[a]; act != "" && c12Big(act).Sign() > 0 {
					ops = append(ops, c12Op{Kind: "undelegate", A: a, Amt: new(big.Int).Div(c12Big(act), big.NewInt(int64(2+r.Intn(3)))).String()})
					hist["undelegate-part"]++
				}
			}
			return ops
		}
		last := r.Intn(n)
		for i := 0; i < cnt; i++ {
			a := r.Intn(n)
			if r.Intn(3) == 0 {
				a = last // several operations by the same delegator in one block
			}
			last = a
			act := active[a]
			if act == "" {
				act = "0"
			}
			var o c12Op
			var cls string
			switch k := r.Intn(100); {
			case k < 2:
				o, cls = c12Op{Kind: "delegate", A: a, Amt: "0"}, "delegate-zero"
			case k < 28:
				o, cls = c12Op{Kind: "delegate", A: a, Amt: strconv.Itoa(1+r.Intn(50)) + e18}, "delegate"
			case k < 31:
				o, cls = c12Op{Kind: "delegate", A: a, Amt: "9000000000000000000000000000"}, "delegate-too-much"
			case k < 33:
				o, cls = c12Op{Kind: "delegate", A: a, Amt: "-5" + e18}, "delegate-negative"
			case k < 60:
				amt, how := c12Frac(r, act, "7")
				o, cls = c12Op{Kind: "undelegate", A: a, Amt: amt}, "undelegate-"+how
			case k < 63:
				o, cls = c12Op{Kind: "undelegate", A: a, Amt: "-3" + e18}, "undelegate-negative"
			case k < 78:
				amt, how := c12Frac(r, cur.Rew[a], "5")
				o, cls = c12Op{Kind: "withdrawrw", A: a, Amt: amt}, "withdrawrw-"+how
			case k < 90:
				amt, how := c12Frac(r, cur.Rew[a], "5")
				o, cls = c12Op{Kind: "reinvest", A: a, Amt: amt}, "reinvest-"+how
			case k < 91:
				o, cls = c12Op{Kind: "withdrawrw", A: a, Amt: "-1000"}, "withdrawrw-negative"
			case k < 92:
				o, cls = c12Op{Kind: "reinvest", A: a, Amt: "-" + strconv.Itoa(1+r.Intn(3)) + e18}, "reinvest-negative"
			case k < 94:
				o, cls = c12Op{Kind: "donate", A: a, Amt: "-" + strconv.Itoa(1+r.Intn(5)) + e18}, "donate-negative"
			default:
				o, cls = c12Op{Kind: "donate", A: a, Amt: strconv.Itoa(1+r.Intn(5)) + e18}, "donate"
			}
			if r.Intn(12) == 0 {
				// amounts around multiples of 2^64 nue (18.44.. OLT) and other power-of-two neighbours
				pw := []string{"18446744073709551616", "36893488147419103232", "55340232221128654848", "18446744073709551617", "18446744073709551615", "9223372036854775808", "4294967296", "8589934592"}
				kinds := []string{"withdrawrw", "reinvest", "withdrawrw", "reinvest", "delegate", "undelegate"}
				o = c12Op{Kind: kinds[r.Intn(len(kinds))], A: a, Amt: pw[r.Intn(len(pw))]}
				cls = o.Kind + "-pow2"
			}
			if noDonate && o.Kind == "donate" {
				o, cls = c12Op{Kind: "withdrawrw", A: a, Amt: "1"}, "withdrawrw-one"
			}
			if noDonate && o.Kind == "withdrawrw" && !strings.HasPrefix(o.Amt, "-") && r.Intn(3) == 0 {
				exodus = true
			}
			hist[cls]++
			ops = append(ops, o)
			if o.Kind == "undelegate" && r.Intn(4) == 0 {
				// directly afterwards a reinvestment, usually by ANOTHER delegator, of a part of his rewards
				b := r.Intn(n)
				if rw := c12Big(cur.Rew[b]); rw.Sign() > 0 {
					ops = append(ops, c12Op{Kind: "reinvest", A: b, Amt: new(big.Int).Div(rw, big.NewInt(int64(2+r.Intn(5)))).String()})
					hist["reinvest-after-undelegate"]++
				}
			}
		}
		return ops
	}
}

// ---- Coq output ----

func c12Z(s string) string {
	if strings.HasPrefix(s, "-") {
		return "(" + s + ")"
	}
	return s
}

func c12Bytes(s string) string {
	p := make([]string, len(s))
	for i := 0; i < len(s); i++ {
		p[i] = strconv.Itoa(int(s[i]))
	}
	return "[" + strings.Join(p, ";") + "]%N"
}

func c12CoqSnap(s c12Snap) string {
	zs := func(l []string) string {
		p := make([]string, len(l))
		for i, x := range l {
			p[i] = c12Z(x)
		}
		return "[" + strings.Join(p, ";") + "]"
	}
	al := func(l []c12Entry) string {
		p := make([]string, len(l))
		for i, e := range l {
			p[i] = fmt.Sprintf("(%d%%N,%s)", e.A, c12Z(e.Amt))
		}
		return "[" + strings.Join(p, ";") + "]"
	}
	pl := func(l []c12Entry) string {
		p := make([]string, len(l))
		for i, e := range l {
			p[i] = fmt.Sprintf("((%d%%N,%d%%N),%s)", e.H, e.A, c12Z(e.Amt))
		}
		return "[" + strings.Join(p, ";") + "]"
	}
	return fmt.Sprintf("{| s_bal := %s; s_pool := %s; s_active := %s; s_pend := %s; s_rew := %s; s_rpend := %s |}",
		zs(s.Bal), c12Z(s.Pool), al(s.Active), pl(s.Pend), zs(s.Rew), pl(s.RPend))
}

func c12CoqOp(o c12Op) string {
	switch o.Kind {
	case "begin":
		p := make([]string, len(o.Accr))
		for i, e := range o.Accr {
			p[i] = fmt.Sprintf("(%d%%N,%s)", e.A, c12Z(e.Amt))
		}
		return "Begin [" + strings.Join(p, ";") + "]"
	case "delegate":
		return fmt.Sprintf("Delegate %d%%N %s %s", o.A, c12Z(o.Amt), c12Z(o.Fee))
	case "undelegate":
		return fmt.Sprintf("Undelegate %d%%N %s %s", o.A, c12Z(o.Amt), c12Z(o.Fee))
	case "withdrawrw":
		return fmt.Sprintf("WithdrawRw %d%%N %s %s", o.A, c12Z(o.Amt), c12Z(o.Fee))
	case "reinvest":
		return fmt.Sprintf("Reinvest %d%%N %s %s", o.A, c12Z(o.Amt), c12Z(o.Fee))
	case "donate":
		return fmt.Sprintf("Donate %d%%N %s %s", o.A, c12Z(o.Amt), c12Z(o.Fee))
	}
	panic("c12: op kind")
}

func c12CoqCase(c *c12Case) string {
	var b strings.Builder
	addrs := make([]string, len(c.Addrs))
	for i, a := range c.Addrs {
		addrs[i] = c12Bytes(a)
	}
	ops := make([]string, len(c.Ops))
	res := make([]string, len(c.Res))
	snaps := make([]string, len(c.Snaps))
	for i := range c.Ops {
		ops[i] = c12CoqOp(c.Ops[i])
		res[i] = strconv.FormatBool(c.Res[i])
		snaps[i] = c12CoqSnap(c.Snaps[i])
	}
	fmt.Fprintf(&b, "{| c_k := %d%%N; c_addrs := [%s];\n c_gen := %s;\n c_ops := [%s];\n c_res := [%s];\n c_snaps := [%s] |}",
		c.K, strings.Join(addrs, ";"), c12CoqSnap(c.Gen), strings.Join(ops, ";"), strings.Join(res, ";"), strings.Join(snaps, ";\n  "))
	return b.String()
}

type c12Report struct {
	Cases     int            `json:"cases"`
	Steps     int            `json:"steps"`
	Blocks    int            `json:"blocks"`
	Txs       int            `json:"txs"`
	TxOK      int            `json:"tx_ok"`
	TxFail    int            `json:"tx_fail"`
	Distinct  int            `json:"distinct_cases"`
	KindHist  map[string]int `json:"kind_histogram"`
	ClassHist map[string]int `json:"generator_class_histogram"`
	OutHist   map[string]int `json:"outcome_histogram"`
	GenHist   map[string]int `json:"genesis_histogram"`
	MultiOps  int            `json:"blocks_with_two_ops_by_one_delegator"`
	Merged    int            `json:"undelegations_merged_into_a_pending_key_written_in_the_same_block"`
	FirstSeen int            `json:"accruals_to_an_active_key_first_written_in_the_previous_block"`
	Accr2     int            `json:"blocks_with_accrual_to_two_or_more_delegators"`
	AccrReinv int            `json:"accruals_right_after_a_reinvestment_by_the_same_delegator"`
	ReinvOK   int            `json:"successful_reinvests"`
	ReinvUnd  int            `json:"successful_reinvests_directly_after_a_successful_undelegate"`
	ReinvUndO int            `json:"successful_reinvests_directly_after_an_undelegate_by_another_delegator"`
	Restarts  int            `json:"node_restarts"`
	RwEmpty   int            `json:"reward_withdrawals_maturing_at_a_block_that_begins_with_an_empty_pool"`
	UndEmpty  int            `json:"undelegations_maturing_at_a_block_that_begins_with_an_empty_pool"`
	EmptyBeg  int            `json:"blocks_beginning_with_an_empty_pool_after_block_1"`
	Alien     int            `json:"alien_keys"`
	Files     []string       `json:"files"`
	Samples   []string       `json:"samples"`
}

// the fixed witnesses: always run first (case indices 0..)
func c12Witnesses() []c12Spec {
	e18 := "000000000000000000"
	blocks := func(n int) [][]c12Op { return make([][]c12Op, n) }
	w := []c12Spec{
		// a genesis with pending entries at unrelated heights: every entry paid exactly once
		// (the recorded findings are passed in through -extra by the check)
		{Name: "witness_plain_pending", NUsers: 3, Gen: c12Gen{Pending: []c12Entry{{H: 5, A: 0, Amt: "8" + e18}, {H: 7, A: 1, Amt: "5" + e18}, {H: 7, A: 2, Amt: "2" + e18}}}, Blocks: blocks(9)},
	}
	// reinvestment right after another delegator's undelegation (the delegation Store is one shared
	// object whose current key prefix every handler has to set itself), and reinvestment as the first
	// delegation handler of a restarted node (fresh Store)
	{
		d := func(a int) c12Op { return c12Op{Kind: "delegate", A: a, Amt: "1000" + e18} }
		ri := c12Op{Kind: "reinvest", A: 0, Amt: "1000"}
		b1 := [][]c12Op{{d(0), d(1)}, {}, {}, {ri}, {{Kind: "undelegate", A: 1, Amt: "10" + e18}, ri}, {{Kind: "undelegate", A: 1, Amt: "10" + e18}}, {ri}, {}}
		w = append(w, c12Spec{Name: "witness_reinvest_after_undelegate", NUsers: 2, Blocks: b1})
		b2 := [][]c12Op{{d(0), d(1)}, {}, {}, {ri}, {}, {{Kind: "undelegate", A: 1, Amt: "10" + e18}}, {ri}}
		w = append(w, c12Spec{Name: "witness_reinvest_first_after_restart", NUsers: 2, Blocks: b2, RestartBefore: []int{3, 6}})
	}
	// a reward withdrawal whose maturity block begins with an EMPTY delegation pool (everybody has
	// undelegated everything, nobody donated) must still be paid at W+maturity; control: one stays
	for ctl := 0; ctl < 2; ctl++ {
		d := func(a int) c12Op { return c12Op{Kind: "delegate", A: a, Amt: "1000" + e18} }
		u := func(a int) c12Op { return c12Op{Kind: "undelegate", A: a, Amt: "1000" + e18} }
		b := [][]c12Op{{d(0), d(1)}, {}, {}, {{Kind: "withdrawrw", A: 0, Amt: "1000"}}, {u(0), u(1)}, {}, {}, {}, {}, {}}
		name := "witness_reward_maturity_empty_pool"
		if ctl == 1 {
			b[4] = []c12Op{u(0)}
			name = "witness_reward_maturity_one_stays"
		}
		w = append(w, c12Spec{Name: name, NUsers: 2, Blocks: b})
	}
	// amounts that are multiples of 2^64 nue (and their neighbours) with accrued reward balances below
	// (d1) and above (d0) them: a narrowing of the amount to 64 bits must not change anything
	{
		p64 := "18446744073709551616"
		g := c12Gen{Active: []c12Entry{{A: 0, Amt: "100" + e18}, {A: 1, Amt: "100" + e18}}, RewBal: []c12Entry{{A: 0, Amt: "200" + e18}, {A: 1, Amt: "1000"}}}
		b := [][]c12Op{{},
			{{Kind: "withdrawrw", A: 1, Amt: p64}, {Kind: "reinvest", A: 1, Amt: "36893488147419103232"}, {Kind: "withdrawrw", A: 1, Amt: "55340232221128654848"}},
			{{Kind: "withdrawrw", A: 0, Amt: p64}, {Kind: "reinvest", A: 0, Amt: "36893488147419103232"}, {Kind: "withdrawrw", A: 0, Amt: "18446744073709551617"}, {Kind: "reinvest", A: 0, Amt: "18446744073709551615"}},
			{{Kind: "delegate", A: 1, Amt: p64}, {Kind: "undelegate", A: 1, Amt: p64}, {Kind: "withdrawrw", A: 1, Amt: "9223372036854775808"}, {Kind: "reinvest", A: 1, Amt: "4294967296"}},
			{}, {}, {}, {}, {}}
		w = append(w, c12Spec{Name: "witness_amounts_multiple_of_2p64", NUsers: 2, Gen: g, Blocks: b})
	}
	// a ZERO undelegation by one delegator (alone in the block for him) next to real undelegations of
	// the others maturing at the same height: the zero entry is a real key of the scan; everybody else
	// must still be paid (one case per choice of the zero delegator, so that in some case addresses
	// sort before and after it)
	for z := 0; z < 3; z++ {
		b := blocks(8)
		b[0] = []c12Op{{Kind: "delegate", A: 0, Amt: "10" + e18}, {Kind: "delegate", A: 1, Amt: "10" + e18}, {Kind: "delegate", A: 2, Amt: "10" + e18}}
		for a := 0; a < 3; a++ {
			amt := "5" + e18
			if a == z {
				amt = "0"
			}
			b[1] = append(b[1], c12Op{Kind: "undelegate", A: a, Amt: amt})
		}
		b[2] = []c12Op{{Kind: "withdrawrw", A: z, Amt: "0"}, {Kind: "reinvest", A: z, Amt: "0"}, {Kind: "delegate", A: z, Amt: "0"}}
		w = append(w, c12Spec{Name: fmt.Sprintf("witness_zero_undelegate_%d", z), NUsers: 3, Gen: c12Gen{}, Blocks: b})
	}
	return w
}

func c12Main(args []string) int {
	fs := flag.NewFlagSet("c12", flag.ExitOnError)
	seed := fs.Int64("seed", 1, "PRNG seed")
	ncases := fs.Int("n", 24, "number of generated cases")
	nblocks := fs.Int("blocks", 32, "blocks per case")
	long := fs.Int("long", 1, "number of cases running past height 130")
	outDir := fs.String("out", ".", "output directory")
	shard := fs.Int("shard", 8, "cases per Coq file")
	corpus := fs.String("corpus", "", "JSON file with a list of case specs to run instead of generating")
	extra := fs.String("extra", "", "JSON file with a list of case specs to run in addition (after the witnesses)")
	fs.Parse(args)

	rep := c12Report{KindHist: map[string]int{}, ClassHist: map[string]int{}, OutHist: map[string]int{}, GenHist: map[string]int{}}
	var cases []*c12Case
	load := func(path string) []c12Spec {
		var specs []c12Spec
		bz, err := os.ReadFile(path)
		if err == nil {
			err = json.Unmarshal(bz, &specs)
		}
		if err != nil {
			fmt.Fprintln(os.Stderr, "c12: corpus:", err)
			os.Exit(2)
		}
		return specs
	}
	if *corpus != "" {
		for _, s := range load(*corpus) {
			cases = append(cases, c12Run(s, nil, 0))
		}
	} else {
		for _, s := range c12Witnesses() {
			cases = append(cases, c12Run(s, nil, 0))
		}
		if *extra != "" {
			for _, s := range load(*extra) {
				cases = append(cases, c12Run(s, nil, 0))
			}
		}
		for i := 0; i < *ncases; i++ {
			r := rand.New(rand.NewSource(*seed*1000003 + int64(i)))
			n := 3 + r.Intn(2)
			variant := i % 4
			nb := *nblocks
			if i < *long {
				nb, variant = 132, 1
			}
			spec := c12Spec{Name: fmt.Sprintf("gen_%d_v%d", i, variant), NUsers: n, Gen: c12GenGenesis(r, variant, n)}
			noDonate := i%3 == 2 // no direct transfers to the pool: it can become exactly empty
			if noDonate {
				spec.Gen.PoolExtra = ""
				rep.GenHist["no_donations"]++
			}
			rep.GenHist[fmt.Sprintf("variant%d", variant)]++
			cases = append(cases, c12Run(spec, c12Chooser1(r, n, 4, rep.ClassHist, noDonate), nb))
		}
	}

	seen := map[string]bool{}
	for _, c := range cases {
		rep.Cases++
		rep.Steps += len(c.Ops)
		rep.Alien += len(c.Alien)
		var sb strings.Builder
		perBlock := map[int]int{}
		multi := false
		undOK, reinvOK, newKey := map[int]int{}, map[int]bool{}, map[int]bool{}
		hadKey := map[int]bool{}
		lastStoreOp, lastStoreBy := "", -1
		hNow := int64(0)
		rep.Restarts += len(c.Spec.RestartBefore)
		for _, e := range c.Gen.Active {
			hadKey[e.A] = true
		}
		for i, o := range c.Ops {
			rep.KindHist[o.Kind]++
			sb.WriteString(o.Kind + o.Amt + ";")
			if o.Kind == "begin" {
				prevSnap := c.Gen
				if i > 0 {
					prevSnap = c.Snaps[i-1]
				}
				hNow++
				if prevSnap.Pool == "0" && hNow > 1 {
					rep.EmptyBeg++
					for _, e := range prevSnap.RPend {
						if e.H == hNow && e.Amt != "0" {
							rep.RwEmpty++
						}
					}
					for _, e := range prevSnap.Pend {
						if e.H == hNow && e.Amt != "0" {
							rep.UndEmpty++
						}
					}
				}
				rep.Blocks++
				if multi {
					rep.MultiOps++
				}
				if len(o.Accr) >= 2 {
					rep.Accr2++
				}
				for _, e := range o.Accr {
					if reinvOK[e.A] {
						rep.AccrReinv++
					}
					if newKey[e.A] {
						rep.FirstSeen++
					}
				}
				perBlock, multi = map[int]int{}, false
				undOK, reinvOK, newKey = map[int]int{}, map[int]bool{}, map[int]bool{}
				continue
			}
			if c.Res[i] && o.Kind == "reinvest" {
				rep.ReinvOK++
				if lastStoreOp == "undelegate" {
					rep.ReinvUnd++
					if lastStoreBy != o.A {
						rep.ReinvUndO++
					}
				}
			}
			if c.Res[i] && (o.Kind == "delegate" || o.Kind == "undelegate" || o.Kind == "reinvest") {
				lastStoreOp, lastStoreBy = o.Kind, o.A
			}
			if c.Res[i] {
				switch o.Kind {
				case "undelegate":
					undOK[o.A]++
					if undOK[o.A] >= 2 {
						rep.Merged++
					}
				case "reinvest":
					reinvOK[o.A] = true
				}
				if (o.Kind == "delegate" || o.Kind == "reinvest") && !hadKey[o.A] {
					hadKey[o.A], newKey[o.A] = true, true
				}
			}
			rep.Txs++
			perBlock[o.A]++
			if perBlock[o.A] >= 2 {
				multi = true
			}
			if c.Res[i] {
				rep.TxOK++
				rep.OutHist[o.Kind+":ok"]++
			} else {
				rep.TxFail++
				rep.OutHist[o.Kind+":fail"]++
			}
		}
		seen[sb.String()+jsonString(c.Spec.Gen)] = true
	}
	rep.Distinct = len(seen)

	for s := 0; s*(*shard) < len(cases); s++ {
		lo, hi := s*(*shard), (s+1)*(*shard)
		if hi > len(cases) {
			hi = len(cases)
		}
		var b bytes.Buffer
		b.WriteString("From stdpp Require Import gmap list.\nFrom Coq Require Import ZArith NArith.\n")
		b.WriteString("From OL Require Import theories.Deleg theories.DelegCheck.\nLocal Open Scope Z_scope.\n")
		b.WriteString("Definition cases : list case := [\n")
		for i := lo; i < hi; i++ {
			b.WriteString(c12CoqCase(cases[i]))
			if i+1 < hi {
				b.WriteString(";\n")
			}
		}
		b.WriteString("].\n")
		fmt.Fprintf(&b, "Definition MM := Eval vm_compute in flat2 (model_mismatches %d cases).\n", lo)
		fmt.Fprintf(&b, "Definition MON := Eval vm_compute in flat3 (monitor_all %d cases).\n", lo)
		b.WriteString("Definition TR := Eval vm_compute in flat_map case_triggers cases.\n")
		b.WriteString("Print MM.\nPrint MON.\nPrint TR.\n")
		name := fmt.Sprintf("%s/c12_cases_%d.v", *outDir, s)
		if err := os.WriteFile(name, b.Bytes(), 0644); err != nil {
			fmt.Fprintln(os.Stderr, err)
			return 2
		}
		rep.Files = append(rep.Files, name)
	}
	for i := 0; i < len(cases) && len(rep.Samples) < 3; i += 1 + len(cases)/3 {
		rep.Samples = append(rep.Samples, jsonString(cases[i].Spec))
	}
	all, _ := json.Marshal(cases)
	_ = os.WriteFile(*outDir+"/c12_cases.json", all, 0644)
	bz, _ := json.MarshalIndent(rep, "", " ")
	_ = os.WriteFile(*outDir+"/c12_report.json", bz, 0644)
	keys := []string{}
	for k := range rep.OutHist {
		keys = append(keys, k)
	}
	sort.Strings(keys)
	say("c12: %d cases, %d blocks, %d txs (%d ok, %d fail), %d alien keys\n", rep.Cases, rep.Blocks, rep.Txs, rep.TxOK, rep.TxFail, rep.Alien)
	return 0
}

func init() { subcmds["c12checktx"] = c12CheckTxMain }

// c12checktx: do the negative-amount delegation transactions pass CheckTx (the mempool check)?
func c12CheckTxMain(args []string) int {
	w := NewWorld(2, 5, 0)
	rep := NewReplica(w.Genesis(), ReplicaOpts{NodeVal: w.Vals[0].Val})
	defer rep.Close()
	rep.InitChain()
	rep.RunBlock(&BlockIn{Absent: map[int]bool{}})
	GAS = 1000000
	neg := "-2000000000000000000000000"
	say("checktx undelegate %s: code %d\n", neg, rep.CheckTx(txUndelegate(w.Users[0], oltAmt(neg), "c")).Code)
	say("checktx withdraw-rewards %s: code %d\n", neg, rep.CheckTx(txDelegWithdrawRewards(w.Users[1], oltAmt(neg), "c")).Code)
	say("checktx reinvest %s: code %d\n", neg, rep.CheckTx(txDelegReinvest(w.Users[2], oltAmt(neg), "c")).Code)
	say("checktx sendpool %s: code %d\n", neg, rep.CheckTx(txSendPool(w.Users[3], "DelegationPool", oltAmt(neg), "c")).Code)
	return 0
}
