package main

// Replica: a real app.App driven through its ABCI methods without a Tendermint node.
// The harness plays Tendermint's part: block store with real block metas, tx index fed at each
// commit, validator-set bookkeeping with the real tendermint ValidatorSet (updates effective H+2).

import (
	"encoding/hex"
	"fmt"
	"io/ioutil"
	"os"
	"path/filepath"
	"sort"
	"time"

	"github.com/Oneledger/protocol/action"
	"github.com/Oneledger/protocol/app"
	"github.com/Oneledger/protocol/app/node"
	"github.com/Oneledger/protocol/chains/bitcoin"
	ethchain "github.com/Oneledger/protocol/chains/ethereum"
	"github.com/Oneledger/protocol/config"
	"github.com/Oneledger/protocol/consensus"
	"github.com/Oneledger/protocol/data/balance"
	"github.com/Oneledger/protocol/data/chain"
	"github.com/Oneledger/protocol/data/delegation"
	"github.com/Oneledger/protocol/data/evidence"
	"github.com/Oneledger/protocol/data/fees"
	"github.com/Oneledger/protocol/data/governance"
	"github.com/Oneledger/protocol/data/keys"
	"github.com/Oneledger/protocol/data/network_delegation"
	"github.com/Oneledger/protocol/data/ons"
	"github.com/Oneledger/protocol/data/rewards"
	"github.com/Oneledger/protocol/serialize"
	"github.com/Oneledger/protocol/storage"
	abci "github.com/tendermint/tendermint/abci/types"
	"github.com/tendermint/tendermint/crypto/ed25519"
	tmrpccore "github.com/tendermint/tendermint/rpc/core"
	"github.com/tendermint/tendermint/state/txindex"
	"github.com/tendermint/tendermint/state/txindex/kv"
	"github.com/tendermint/tendermint/store"
	tmtypes "github.com/tendermint/tendermint/types"
	tmdb "github.com/tendermint/tm-db"
)

func must(err error) {
	if err != nil {
		panic(err)
	}
}

func amt(s string) *balance.Amount { a, _ := balance.NewAmountFromString(s, 10); return a }

type Key struct {
	Pub  keys.PublicKey
	Priv keys.PrivateKey
	Addr keys.Address
}

// deterministic ed25519 key from a seed byte
func seedKey(b byte) Key {
	seed := make([]byte, 32)
	for i := range seed {
		seed[i] = b
	}
	tmPriv := ed25519.GenPrivKeyFromSecret(seed)
	priv, err := keys.GetPrivateKeyFromBytes(tmPriv[:], keys.ED25519)
	must(err)
	ph, err := priv.GetHandler()
	must(err)
	pub := ph.PubKey()
	h, err := pub.GetHandler()
	must(err)
	return Key{pub, priv, h.Address()}
}

var OLT = balance.Currency{Id: 0, Name: "OLT", Chain: chain.ONELEDGER, Decimal: 18, Unit: "nue"}
var ETH = balance.Currency{Id: 3, Name: "ETH", Chain: chain.ETHEREUM, Decimal: 18, Unit: "wei"}

type ValSpec struct {
	Val   Key   // consensus key / validator address
	Stake Key   // stake (owner) account
	Power int64 // initial stake = power
}

type GenesisSpec struct {
	Vals      []ValSpec
	Funded    []keys.Address // each gets 1,000,000 OLT
	Poor      []Key          // each gets 0.002 OLT
	Customize func(*consensus.AppState)
	ChainID   string
	Fork      int64 // Frankenstein block (0 = disabled)
	MaxGas    int64 // consensus parameter Block.MaxGas (0 = Tendermint's default, -1: no limit)
}

func (g *GenesisSpec) AppState() consensus.AppState {
	dist := governance.ProposalFundDistribution{Validators: 18, FeePool: 18, Burn: 18, ExecutionCost: 18, BountyPool: 10, ProposerReward: 18}
	po := governance.ProposalOption{InitialFunding: amt("1000000000"), FundingGoal: amt("10000000000"), FundingDeadline: 10, VotingDeadline: 12, PassPercentage: 51, PassedFundDistribution: dist, FailedFundDistribution: dist, ProposalExecutionCost: "executionCost"}
	bals := []consensus.BalanceState{{Address: keys.Address("rewardpool"), Currency: "OLT", Amount: *OLT.NewCoinFromInt(1000000).Amount}}
	for _, a := range g.Funded {
		bals = append(bals, consensus.BalanceState{Address: a, Currency: "OLT", Amount: *OLT.NewCoinFromInt(1000000).Amount})
	}
	for _, p := range g.Poor {
		bals = append(bals, consensus.BalanceState{Address: p.Addr, Currency: "OLT", Amount: *amt("2000000000000000")})
	}
	st := consensus.AppState{
		Currencies: balance.Currencies{OLT, ETH},
		Balances:   bals,
		Rewards:    rewards.RewardMasterState{RewardState: rewards.NewRewardState(), CumuState: rewards.NewRewardCumuState()},
		Governance: governance.GovernanceState{
			FeeOption:       fees.FeeOption{FeeCurrency: OLT, MinFeeDecimal: 9},
			ETHCDOption:     ethchain.ChainDriverOption{},
			BTCCDOption:     bitcoin.ChainDriverOption{ChainType: "testnet3", TotalSupply: "1000000000", TotalSupplyAddr: "x", BlockConfirmation: 6},
			ONSOptions:      ons.Options{Currency: "OLT", PerBlockFees: *amt("100000000000000"), FirstLevelDomains: []string{"ol"}, BaseDomainPrice: *amt("1000000000000000000000")},
			PropOptions:     governance.ProposalOptionSet{ConfigUpdate: po, CodeChange: po, General: po, BountyProgramAddr: "oneledgerBountyProgram"},
			StakingOptions:  delegation.Options{MinSelfDelegationAmount: *balance.NewAmount(1000), MinDelegationAmount: *balance.NewAmount(1), TopValidatorCount: 4, MaturityTime: 3},
			DelegOptions:    network_delegation.Options{RewardsMaturityTime: 3},
			EvidenceOptions: evidence.Options{MinVotesRequired: 1, BlockVotesDiff: 4, PenaltyBasePercentage: 30, PenaltyBaseDecimals: 100, PenaltyBountyPercentage: 50, PenaltyBountyDecimals: 100, PenaltyBurnPercentage: 50, PenaltyBurnDecimals: 100, ValidatorVotePercentage: 50, ValidatorVoteDecimals: 100, ValidatorReleaseTime: 1, AllegationPercentage: 50, AllegationDecimals: 100},
			RewardOptions:   rewards.Options{RewardInterval: 5, RewardPoolAddress: "rewardpool", RewardCurrency: "OLT", EstimatedSecondsPerCycle: 1728, BlockSpeedCalculateCycle: 100, YearCloseWindow: 86400, YearBlockRewardShares: []balance.Amount{*amt("70000000000000000000000000")}, BurnoutRate: *amt("5000000000000000000")},
		},
	}
	for i, v := range g.Vals {
		st.Staking = append(st.Staking, consensus.Stake{ValidatorAddress: v.Val.Addr, StakeAddress: v.Stake.Addr, Pubkey: v.Val.Pub, ECDSAPubKey: v.Val.Pub, Name: fmt.Sprintf("v%d", i), Amount: *balance.NewAmount(v.Power)})
	}
	if g.Customize != nil {
		g.Customize(&st)
	}
	return st
}

type ReplicaOpts struct {
	Dir      string // "" = fresh temp dir
	NodeVal  Key    // this node's validator (consensus) key: its identity
	NodeSeed byte   // node key seed
	Rotation config.ChainStateRotationCfg
	NoIndex  bool // run with the "null" indexer semantics (no tx index)
	Quiet    bool
}

type TxResult struct {
	Code      uint32
	Data      string
	GasWanted int64
	GasUsed   int64
	Log       string
}

type BlockResult struct {
	Height  int64
	Txs     []TxResult
	Updates []string // "pubkeyhex:power", in the order returned
	AppHash string
}

type Replica struct {
	Dir   string
	ownDir bool
	A     *app.App
	AB    *app.ABCI
	BS    *store.BlockStore
	bsDB  tmdb.DB
	Idx   txindex.TxIndexer
	shifts map[int64]int64 // height -> extra seconds before that block
	idxDB tmdb.DB
	Gen   *config.GenesisDoc
	Spec  *GenesisSpec
	T0    time.Time
	H     int64
	Chain string
	opts  ReplicaOpts

	// Tendermint-side bookkeeping
	ValSets map[int64]*tmtypes.ValidatorSet // validator set of height h
	pending map[int64][]abci.ValidatorUpdate // updates returned at EndBlock(h)
	TMError string                           // first time Tendermint would have rejected an update list

	blockTxs [][]byte
	blockRes []*abci.ResponseDeliverTx
	cur      *BlockResult
	Log      []BlockResult
}

// fd 1 is /dev/null for the whole process (see main); nothing to do per call
func quietStdout() func() { return func() {} }

func genesisDoc(spec *GenesisSpec) *config.GenesisDoc {
	if spec.ChainID == "" {
		spec.ChainID = "verif-chain"
	}
	gen, err := consensus.NewGenesisDoc(spec.ChainID, spec.AppState())
	must(err)
	gen.GenesisTime = time.Unix(1600000000, 0).UTC()
	gen.ForkParams = &config.ForkParams{FrankensteinBlock: spec.Fork}
	if spec.MaxGas != 0 && gen.ConsensusParams != nil {
		gen.ConsensusParams.Block.MaxGas = spec.MaxGas
	}
	return gen
}

// NewReplica creates (or reopens, when opts.Dir holds data) a node on the given genesis.
func NewReplica(spec *GenesisSpec, opts ReplicaOpts) *Replica {
	r := &Replica{Spec: spec, opts: opts, T0: time.Unix(1600000000, 0).UTC(), ValSets: map[int64]*tmtypes.ValidatorSet{}, pending: map[int64][]abci.ValidatorUpdate{}}
	if opts.Dir == "" {
		d, err := ioutil.TempDir("", "verif_replica_")
		must(err)
		r.Dir, r.ownDir = d, true
	} else {
		r.Dir = opts.Dir
		must(os.MkdirAll(r.Dir, 0755))
	}
	r.Gen = genesisDoc(spec)
	r.Chain = r.Gen.ChainID
	r.bsDB = tmdb.NewMemDB()
	r.idxDB = tmdb.NewMemDB()
	r.open()
	return r
}

func (r *Replica) open() {
	cfg := config.DefaultServerConfig()
	cfgPath := filepath.Join(r.Dir, config.FileName)
	if _, err := os.Stat(cfgPath); err != nil {
		must(cfg.SaveFile(cfgPath))
	}
	must(cfg.ReadFile(cfgPath))
	cfg.Node.LogLevel = 0
	cfg.Node.ChainStateRotation = r.opts.Rotation
	nk := seedKey(200 + r.opts.NodeSeed)
	nctx := node.NewVerifContext("n0", nk.Priv, r.opts.NodeVal.Priv, nk.Priv)
	restore := quietStdout()
	a, err := app.NewApp(cfg, nctx)
	restore()
	must(err)
	r.BS = store.NewBlockStore(r.bsDB)
	must(a.VerifPrepare(r.Gen, r.BS))
	r.Idx = kv.NewTxIndex(r.idxDB)
	tmrpccore.SetTxIndexer(r.Idx)
	r.A, r.AB = a, a.ABCI()
}

// Use makes this replica's tx index the process-global one (rpc/core keeps a single indexer).
func (r *Replica) Use() { tmrpccore.SetTxIndexer(r.Idx) }

func (r *Replica) Close() {
	func() {
		defer func() { recover() }()
		restore := quietStdout()
		defer restore()
		r.A.Close()
	}()
	if r.ownDir {
		os.RemoveAll(r.Dir)
	}
}

// Restart simulates a process crash + restart from the on-disk data (block store and tx index
// belong to Tendermint and survive).
func (r *Replica) Restart() {
	func() {
		defer func() { recover() }()
		restore := quietStdout()
		defer restore()
		r.A.Close()
	}()
	r.open()
}

func tmPub(k keys.PublicKey) ed25519.PubKeyEd25519 {
	var p ed25519.PubKeyEd25519
	copy(p[:], k.Data)
	return p
}

func (r *Replica) InitChain() {
	r.Use()
	vus := []abci.ValidatorUpdate{}
	tmvals := []*tmtypes.Validator{}
	for _, v := range r.Spec.Vals {
		vus = append(vus, abci.ValidatorUpdate{PubKey: abci.PubKey{Type: "ed25519", Data: v.Val.Pub.Data}, Power: v.Power})
		tmvals = append(tmvals, tmtypes.NewValidator(tmPub(v.Val.Pub), v.Power))
	}
	restore := quietStdout()
	res := r.AB.InitChain(abci.RequestInitChain{Time: r.T0, ChainId: r.Chain, AppStateBytes: r.Gen.AppState, Validators: vus})
	restore()
	_ = res
	vs := tmtypes.NewValidatorSet(tmvals)
	r.ValSets[1] = vs
	r.ValSets[2] = vs.Copy()
}

type BlockIn struct {
	Txs       [][]byte
	Absent    map[int]bool // index (in the sorted validator set of height h-1) of validators that did not sign
	Byzantine []abci.Evidence
	DT        int64 // seconds since previous block (default 15)
}

// blockTime: 15 s per block plus the extra seconds of every block up to h that asked for a longer gap (BlockIn.DT);
// keyed by height, so that a block replayed after a crash gets the same time again
func (r *Replica) blockTime(h int64) time.Time {
	t := r.T0.Add(time.Duration(h) * 15 * time.Second)
	for k, extra := range r.shifts {
		if k <= h {
			t = t.Add(time.Duration(extra) * time.Second)
		}
	}
	return t
}

func (r *Replica) valSet(h int64) *tmtypes.ValidatorSet {
	if vs, ok := r.ValSets[h]; ok {
		return vs
	}
	// derive from h-1 with the updates returned at h-2
	prev := r.valSet(h - 1).Copy()
	if ups, ok := r.pending[h-2]; ok && len(ups) > 0 {
		tmups, err := tmtypes.PB2TM.ValidatorUpdates(ups)
		if err == nil {
			err = prev.UpdateWithChangeSet(tmups)
		}
		if err != nil && r.TMError == "" {
			r.TMError = fmt.Sprintf("height %d: %v", h-2, err)
		}
	}
	r.ValSets[h] = prev
	return prev
}

func (r *Replica) BeginBlock(in *BlockIn) {
	r.Use()
	r.H++
	h := r.H
	if in.DT > 15 {
		if r.shifts == nil {
			r.shifts = map[int64]int64{}
		}
		r.shifts[h] = in.DT - 15
	}
	t := r.blockTime(h)
	blk := tmtypes.MakeBlock(h, nil, &tmtypes.Commit{Height: h - 1}, nil)
	blk.Header.Time = t
	blk.Header.ChainID = r.Chain
	if r.BS.Height() < h {
		ps := blk.MakePartSet(65536)
		r.BS.SaveBlock(blk, ps, &tmtypes.Commit{Height: h, BlockID: tmtypes.BlockID{Hash: blk.Hash(), PartsHeader: ps.Header()}})
	}
	votes := []abci.VoteInfo{}
	if h > 1 {
		for i, v := range r.valSet(h - 1).Validators {
			votes = append(votes, abci.VoteInfo{Validator: abci.Validator{Address: v.Address, Power: v.VotingPower}, SignedLastBlock: !in.Absent[i]})
		}
	}
	cur := r.valSet(h)
	proposer := cur.Validators[int(h)%len(cur.Validators)].Address
	restore := quietStdout()
	r.AB.BeginBlock(abci.RequestBeginBlock{Hash: []byte{byte(h), byte(h >> 8), 1, 2}, Header: abci.Header{ChainID: r.Chain, Height: h, Time: t, ProposerAddress: proposer},
		LastCommitInfo: abci.LastCommitInfo{Votes: votes}, ByzantineValidators: in.Byzantine})
	restore()
	r.blockTxs, r.blockRes = nil, nil
	r.cur = &BlockResult{Height: h}
}

func (r *Replica) DeliverTx(tx []byte) abci.ResponseDeliverTx {
	r.Use()
	restore := quietStdout()
	res := r.AB.DeliverTx(abci.RequestDeliverTx{Tx: tx})
	restore()
	r.blockTxs = append(r.blockTxs, tx)
	rc := res
	r.blockRes = append(r.blockRes, &rc)
	r.cur.Txs = append(r.cur.Txs, TxResult{res.Code, hex.EncodeToString(res.Data), res.GasWanted, res.GasUsed, res.Log})
	return res
}

func (r *Replica) CheckTx(tx []byte) abci.ResponseCheckTx {
	r.Use()
	restore := quietStdout()
	defer restore()
	return r.AB.CheckTx(abci.RequestCheckTx{Tx: tx})
}

func (r *Replica) EndBlock() abci.ResponseEndBlock {
	r.Use()
	restore := quietStdout()
	eb := r.AB.EndBlock(abci.RequestEndBlock{Height: r.H})
	restore()
	r.pending[r.H] = eb.ValidatorUpdates
	for _, u := range eb.ValidatorUpdates {
		r.cur.Updates = append(r.cur.Updates, fmt.Sprintf("%x:%d", u.PubKey.Data, u.Power))
	}
	r.valSet(r.H + 2) // applies the acceptance rule now, records TMError
	return eb
}

func (r *Replica) Commit() string {
	r.Use()
	restore := quietStdout()
	c := r.AB.Commit()
	restore()
	if len(r.blockTxs) > 0 && !r.opts.NoIndex {
		b := txindex.NewBatch(int64(len(r.blockTxs)))
		for i, tx := range r.blockTxs {
			b.Add(&tmtypes.TxResult{Height: r.H, Index: uint32(i), Tx: tx, Result: *r.blockRes[i]})
		}
		r.Idx.AddBatch(b)
	}
	r.cur.AppHash = hex.EncodeToString(c.Data)
	r.Log = append(r.Log, *r.cur)
	return r.cur.AppHash
}

// RunBlock = BeginBlock, DeliverTx*, EndBlock, Commit
func (r *Replica) RunBlock(in *BlockIn) BlockResult {
	r.BeginBlock(in)
	for _, tx := range in.Txs {
		r.DeliverTx(tx)
	}
	r.EndBlock()
	r.Commit()
	return r.Log[len(r.Log)-1]
}

func (r *Replica) Info() (int64, string) {
	res := r.AB.Info(abci.RequestInfo{})
	return res.LastBlockHeight, hex.EncodeToString(res.LastBlockAppHash)
}

// Dump returns the committed tree
func (r *Replica) Dump() map[string]string {
	m := map[string]string{}
	r.A.VerifChainState().Iterate(func(k, v []byte) bool { m[string(k)] = string(v); return false })
	return m
}

func sortedKeys(m map[string]string) []string {
	ks := make([]string, 0, len(m))
	for k := range m {
		ks = append(ks, k)
	}
	sort.Strings(ks)
	return ks
}

func (r *Replica) Bal(a keys.Address, cur string) string {
	return r.Dump()["b_"+a.String()+"_"+cur]
}

// ---- transactions ----

func feeOf(gas int64) action.Fee {
	return action.Fee{Price: action.Amount{Currency: "OLT", Value: *amt("1000000000")}, Gas: gas}
}

func signRaw(raw action.RawTx, signers ...Key) []byte {
	stx := action.SignedTx{RawTx: raw}
	for _, k := range signers {
		ph, _ := k.Priv.GetHandler()
		sig, _ := ph.Sign(raw.RawBytes())
		stx.Signatures = append(stx.Signatures, action.Signature{Signer: k.Pub, Signed: sig})
	}
	bz, err := serialize.GetSerializer(serialize.NETWORK).Serialize(stx)
	must(err)
	return bz
}

func signTx(typ action.Type, data []byte, gas int64, memo string, signers ...Key) []byte {
	return signRaw(action.RawTx{Type: typ, Data: data, Fee: feeOf(gas), Memo: memo}, signers...)
}

// View returns the deliver state as the next consensus call would see it: the committed tree
// overlaid with the block cache (uncommitted writes of this block; delete markers remove keys).
// Only meaningful at ABCI call boundaries (no transaction session open).
func (r *Replica) View() map[string]string {
	m := r.Dump()
	tomb := string(storage.TOMBSTONE)
	r.A.VerifDeliver().GetGasStore().GetIterable().Iterate(func(k, v []byte) bool {
		if string(v) == tomb {
			delete(m, string(k))
		} else {
			m[string(k)] = string(v)
		}
		return false
	})
	return m
}
