package main

import (
	"github.com/Oneledger/protocol/consensus"
	"github.com/Oneledger/protocol/data/balance"
	"github.com/Oneledger/protocol/data/delegation"
	netdata "github.com/Oneledger/protocol/data/network_delegation"
	"github.com/Oneledger/protocol/data/keys"
)

// unstaked amounts maturing at several heights, loaded by delegation.LoadState at genesis
func customizeMature(w *World) func(*consensus.AppState) {
	return func(st *consensus.AppState) {
		st.Delegation = *delegation.NewDelegationState()
		for h := int64(5); h < 12; h++ {
			st.Delegation.MatureAmounts = append(st.Delegation.MatureAmounts, &delegation.MatureData{Address: w.Vals[0].Stake.Addr, Amount: bigAmt("1"), Height: h})
		}
	}
}

func pendingEntry(a keys.Address, h int64, c *balance.Coin) netdata.PendingDelegator {
	return netdata.PendingDelegator{Address: &a, Amount: c, Height: h}
}

// pending network undelegations loaded at genesis (a chain started from an exported state)
func customizePending(w *World) func(*consensus.AppState) {
	return func(st *consensus.AppState) {
		for i, h := range []int64{3, 7, 12, 20} {
			c := OLT.NewCoinFromInt(int64(5 + i))
			st.NetDelegators.PendingList = append(st.NetDelegators.PendingList, pendingEntry(w.Users[i%len(w.Users)].Addr, h, &c))
		}
	}
}
