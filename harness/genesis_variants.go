package main

import (
	"fmt"

	ethchaindrv "github.com/Oneledger/protocol/chains/ethereum"
	"github.com/Oneledger/protocol/chains/ethereum/contract"
	"github.com/Oneledger/protocol/consensus"
	"github.com/Oneledger/protocol/data/balance"
	"github.com/Oneledger/protocol/data/delegation"
	"github.com/Oneledger/protocol/data/keys"
	netdata "github.com/Oneledger/protocol/data/network_delegation"
)

// unstaked amounts maturing at several heights, loaded by delegation.LoadState at genesis
func customizeMature(w *World) func(*consensus.AppState) {
	return func(st *consensus.AppState) {
		st.Delegation = *delegation.NewDelegationState()
		for h := int64(5); h < 12; h++ {
			st.Delegation.MatureAmounts = append(st.Delegation.MatureAmounts, &delegation.MatureData{Address: w.Vals[0].Stake.Addr, Amount: bigAmt("1"), Height: h})
		}
	}
}

func pendingEntry(a keys.Address, h int64, c *balance.Coin) netdata.PendingDelegator {
	return netdata.PendingDelegator{Address: &a, Amount: c, Height: h}
}

// pending network undelegations loaded at genesis (a chain started from an exported state)
func customizePending(w *World) func(*consensus.AppState) {
	return func(st *consensus.AppState) {
		for i, h := range []int64{3, 7, 12, 20} {
			c := OLT.NewCoinFromInt(int64(5 + i))
			st.NetDelegators.PendingList = append(st.NetDelegators.PendingList, pendingEntry(w.Users[i%len(w.Users)].Addr, h, &c))
		}
	}
}

// Ethereum chain driver configured, every genesis validator registered as an Ethereum witness
// (so that the node identity of a replica decides whether it is a witness), cap 1000000 wei
func customizeEth(w *World) func(*consensus.AppState) {
	return func(st *consensus.AppState) {
		st.Governance.ETHCDOption = ethchaindrv.ChainDriverOption{
			ContractABI: contract.LockRedeemABI, ContractAddress: c15Contract,
			ERCContractABI: contract.LockRedeemERCABI, ERCContractAddress: c15Contract,
			TotalSupply: "1000000", TotalSupplyAddr: c15SupplyAddr, BlockConfirmation: 1,
		}
		for i, v := range w.Vals {
			st.Witness = append(st.Witness, consensus.Stake{ValidatorAddress: v.Val.Addr, StakeAddress: v.Val.Addr, Pubkey: v.Val.Pub, ECDSAPubKey: v.Val.Pub,
				Name: fmt.Sprintf("w%d", i), Amount: *balance.NewAmount(1)})
		}
	}
}
