package main

// txlab: per-kind transaction laboratory shared by C04 (authentication), C05 (at-most-once)
// and C18 (no crash).  A prepared chain state in which a valid, correctly signed transaction of
// (almost) every public kind exists; mutation, re-encoding and hostile-field generators.

import (
	"math/big"
	"bytes"
	"encoding/hex"
	"encoding/json"
	"fmt"
	"math/rand"
	"sort"
	"strings"

	"github.com/Oneledger/protocol/action"
	govact "github.com/Oneledger/protocol/action/governance"
	"github.com/Oneledger/protocol/data/governance"
	"github.com/Oneledger/protocol/data/keys"
	"github.com/Oneledger/protocol/serialize"
	"github.com/tendermint/tendermint/crypto/secp256k1"
)

type labKind struct {
	Name    string
	Build   func(memo string) []byte // a valid signed transaction in the prepared state
	Signers []Key                    // the keys that sign it, in order
	Victim  Key                      // the account whose authority the payload requires
}

type lab struct {
	W        *World
	Rep      *Replica
	Kinds    []labKind
	Attacker Key
	n        int
}

func (l *lab) memo() string { l.n++; return fmt.Sprintf("lab%d", l.n) }

// deterministic key of another algorithm (SECP256K1 / ETHSECP) from a seed byte
func seedKeyAlg(b byte, alg keys.Algorithm) Key {
	seed := make([]byte, 32)
	for i := range seed {
		seed[i] = b
	}
	seed[0] = 1
	priv, err := keys.GetPrivateKeyFromBytes(seed, alg)
	must(err)
	ph, err := priv.GetHandler()
	must(err)
	pub := ph.PubKey()
	if alg == keys.SECP256K1 {
		// PrivateKeySECP256K1.PubKey() returns the amino-prefixed encoding, which the public key
		// handler refuses: take the 33 raw bytes
		var sk secp256k1.PrivKeySecp256k1
		copy(sk[:], seed)
		raw := sk.PubKey().(secp256k1.PubKeySecp256k1)
		pub, err = keys.GetPublicKeyFromBytes(raw[:], keys.SECP256K1)
		must(err)
	}
	h, err := pub.GetHandler()
	must(err)
	return Key{pub, priv, h.Address()}
}

// newLab builds a replica and runs the set-up blocks
func newLab(nodeSeed byte) *lab {
	w := NewWorld(3, 6, 2)
	l := &lab{W: w, Attacker: w.Users[5]}
	secp := seedKeyAlg(150, keys.SECP256K1)
	gspec := w.Genesis()
	gspec.Funded = append(gspec.Funded, secp.Addr)
	rep := NewReplica(gspec, ReplicaOpts{NodeVal: w.Vals[0].Val, NodeSeed: nodeSeed})
	l.Rep = rep
	rep.InitChain()
	GAS = 1000000
	u0, u1, u2, u3 := w.Users[0], w.Users[1], w.Users[2], w.Users[3]
	v0, v1, v2 := w.Vals[0], w.Vals[1], w.Vals[2]
	e0 := w.Extra[0]
	blk := func(txs ...[]byte) {
		res := rep.RunBlock(&BlockIn{Txs: txs, Absent: map[int]bool{}})
		for i, t := range res.Txs {
			if t.Code != 0 {
				panic(fmt.Sprintf("lab set-up transaction %d of block %d failed: %s", i, res.Height, t.Log))
			}
		}
	}
	// set-up of the bid external app (memos of their own: the bytes of the older set-up stay as they were)
	bn := 0
	bm := func() string { bn++; return fmt.Sprintf("labbid%d", bn) }
	bidOwner, bidA, bidB, bidC := u2, u3, u1, u0
	// set-up for PROPOSAL_WITHDRAW_FUNDS (a cancelled proposal that holds funds) and PROPOSAL_FINALIZE (a
	// proposal that passes in the LAST set-up block, so that the next block is the one that finalises it)
	gn := 0
	gm := func() string { gn++; return fmt.Sprintf("labgov%d", gn) }
	u4 := w.Users[4]
	olt5, olt9 := oltAmt("5000000000000000000"), oltAmt("9000000000000000000")
	blk()
	blk()
	blk(txPropCreate(u0, "lab_fund", governance.ProposalTypeGeneral, oltAmt("1000000000"), 60, 0, l.memo()),
		txPropCreate(u1, "lab_vote", governance.ProposalTypeGeneral, oltAmt("1000000000"), 60, 0, l.memo()),
		txPropCreate(u2, "lab_cancel", governance.ProposalTypeGeneral, oltAmt("1000000000"), 60, 0, l.memo()),
		txDomainCreate(u0, "lab.ol", oltAmt("1002000000000000000000"), l.memo()),
		txDomainCreate(u1, "sale.ol", oltAmt("1002000000000000000000"), l.memo()),
		txDelegate(u1, oltAmt("250000000000000000"), l.memo()),
		txStake(e0, oltAmt("500000"), l.memo()),
		txDomainCreate(bidOwner, "bidlab.ol", oltAmt("1002000000000000000000"), bm()),
		txDomainCreate(bidOwner, "bidnew.ol", oltAmt("1002000000000000000000"), bm()),
		txPropCreate(u4, "lab_fin", governance.ProposalTypeGeneral, oltAmt("1000000000"), 60, 0, gm()),
		txPropCreate(u4, "lab_wd", governance.ProposalTypeGeneral, oltAmt("1000000000"), 60, 0, gm()))
	// three conversations about bidlab.ol, created at height 4: A keeps its bid offer, B gets a counter
	// offer at height 5, C is the one the expire kind names
	convA, convB, convC := bidConvID(bidOwner.Addr, "bidlab.ol", bidA.Addr, 4), bidConvID(bidOwner.Addr, "bidlab.ol", bidB.Addr, 4), bidConvID(bidOwner.Addr, "bidlab.ol", bidC.Addr, 4)
	blk(txPropFund(u2, "lab_vote", oltAmt("9000000000"), l.memo()),
		txDomainSell(u1, "sale.ol", oltAmt("5000000000000000000"), false, l.memo()),
		txUnstake(v1, oltAmt("1000"), l.memo()),
		txUndelegate(u1, oltAmt("1000000000"), l.memo()),
		txDomainCreate(u0, "sub.lab.ol", oltAmt("1002000000000000000000"), l.memo()),
		txBidCreate(bidA, bidOwner.Addr, "bidlab.ol", bidOns, olt5, bidFar, bm()),
		txBidCreate(bidB, bidOwner.Addr, "bidlab.ol", bidOns, olt5, bidFar, bm()),
		txBidCreate(bidC, bidOwner.Addr, "bidlab.ol", bidOns, olt5, bidFar, bm()),
		txPropFund(u4, "lab_fin", oltAmt("9000000000"), gm()),
		txPropCancel(u4, "lab_wd", gm()))
	blk(txAllegation(v0, "labreq", v2.Val.Addr, 5, l.memo()),
		txBidCounter(bidOwner, convB, olt9, bm()))
	blk()
	blk()
	// a conversation whose deadline passes between this (the last set-up) block and the next one: the
	// block after the set-up queues its expiry at BeginBlock and executes it at EndBlock
	convD := bidConvID(bidOwner.Addr, "bidnew.ol", bidB.Addr, 8)
	blk(txBidCreate(bidB, bidOwner.Addr, "bidnew.ol", bidOns, olt5, bidBlockTime(8)+7, bm()),
		txPropVote(v0, "lab_fin", governance.OPIN_POSITIVE, gm()),
		txPropVote(v1, "lab_fin", governance.OPIN_POSITIVE, gm()))
	k := func(name string, victim Key, signers []Key, build func(memo string) []byte) {
		l.Kinds = append(l.Kinds, labKind{Name: name, Build: build, Signers: signers, Victim: victim})
	}
	one := func(x Key) []Key { return []Key{x} }
	k("SEND", u0, one(u0), func(m string) []byte { return txSend(u0, u1.Addr, oltAmt("1000000000000"), m) })
	k("SEND_SECP256K1", secp, one(secp), func(m string) []byte { return txSend(secp, u1.Addr, oltAmt("1000000000000"), m) })
	k("SENDPOOL", u0, one(u0), func(m string) []byte { return txSendPool(u0, "BountyPool", oltAmt("1000000000000"), m) })
	k("STAKE", v0.Stake, []Key{v0.Stake, v0.Val}, func(m string) []byte { return txStake(v0, oltAmt("10"), m) })
	self := ValSpec{Val: w.Extra[1].Stake, Stake: w.Extra[1].Stake} // a node staking from its own (funded) node key
	k("STAKE_SELF", self.Stake, []Key{self.Stake, self.Val}, func(m string) []byte { return txStake(self, oltAmt("600000"), m) })
	k("UNSTAKE", v0.Stake, []Key{v0.Stake, v0.Val}, func(m string) []byte { return txUnstake(v0, oltAmt("5"), m) })
	k("WITHDRAW", v1.Stake, []Key{v1.Stake, v1.Val}, func(m string) []byte { return txWithdraw(v1, oltAmt("1000"), m) })
	k("ADD_NETWORK_DELEGATE", u3, one(u3), func(m string) []byte { return txDelegate(u3, oltAmt("1000000000000"), m) })
	k("NETWORK_UNDELEGATE", u1, one(u1), func(m string) []byte { return txUndelegate(u1, oltAmt("1000000"), m) })
	k("REWARDS_WITHDRAW_NETWORK_DELEGATE", u1, one(u1), func(m string) []byte { return txDelegWithdrawRewards(u1, oltAmt("7"), m) })
	k("REWARDS_REINVEST_NETWORK_DELEGATE", u1, one(u1), func(m string) []byte { return txDelegReinvest(u1, oltAmt("7"), m) })
	k("WITHDRAW_REWARD", v0.Stake, one(v0.Stake), func(m string) []byte { return txWithdrawReward(v0, oltAmt("1000"), m) })
	k("PROPOSAL_CREATE", u3, one(u3), func(m string) []byte {
		return txPropCreate(u3, "lab_new", governance.ProposalTypeGeneral, oltAmt("1000000000"), 60, 0, m)
	})
	k("PROPOSAL_FUND", u3, one(u3), func(m string) []byte { return txPropFund(u3, "lab_fund", oltAmt("1000"), m) })
	k("PROPOSAL_VOTE", v0.Stake, []Key{v0.Stake, v0.Val}, func(m string) []byte { return txPropVote(v0, "lab_vote", governance.OPIN_NEGATIVE, m) })
	k("PROPOSAL_CANCEL", u2, one(u2), func(m string) []byte { return txPropCancel(u2, "lab_cancel", m) })
	k("EXPIRE_VOTES", u3, one(u3), func(m string) []byte { return txExpireVotes(u3, "lab_vote", m) })
	k("PROPOSAL_WITHDRAW_FUNDS", u4, one(u4), func(m string) []byte { return txPropWithdraw(u4, "lab_wd", oltAmt("1000"), u4.Addr, m) })
	k("PROPOSAL_FINALIZE", v0.Val, one(v0.Val), func(m string) []byte {
		return mkTx(action.PROPOSAL_FINALIZE, govact.FinalizeProposal{ProposalID: propID("lab_fin"), ValidatorAddress: v0.Val.Addr}, GAS, m, v0.Val)
	})
	k("DOMAIN_CREATE", u3, one(u3), func(m string) []byte { return txDomainCreate(u3, "labnew.ol", oltAmt("1002000000000000000000"), m) })
	k("DOMAIN_UPDATE", u0, one(u0), func(m string) []byte { return txDomainUpdate(u0, "lab.ol", u2.Addr, true, m) })
	k("DOMAIN_SELL", u0, one(u0), func(m string) []byte { return txDomainSell(u0, "lab.ol", oltAmt("5000000000000000000"), false, m) })
	k("DOMAIN_PURCHASE", u3, one(u3), func(m string) []byte { return txDomainPurchase(u3, "sale.ol", oltAmt("5000000000000000000"), m) })
	k("DOMAIN_SEND", u3, one(u3), func(m string) []byte { return txDomainSend(u3, "lab.ol", oltAmt("1000"), m) })
	k("DOMAIN_RENEW", u0, one(u0), func(m string) []byte { return txDomainRenew(u0, "lab.ol", oltAmt("100000000000000000"), m) })
	k("DOMAIN_DELETE_SUB", u0, one(u0), func(m string) []byte { return txDomainDeleteSub(u0, "sub.lab.ol", m) })
	k("ALLEGATION", v0.Val, one(v0.Val), func(m string) []byte { return txAllegation(v0, "labreq2", v1.Val.Addr, 8, m) })
	k("ALLEGATION_VOTE", v1.Val, one(v1.Val), func(m string) []byte { return txAllegationVote(v1, "labreq", 2, m) })
	k("RELEASE", v0.Val, one(v0.Val), func(m string) []byte { return txRelease(v0, m) })
	// the bid external app (harness/txbid.go)
	olt7, olt8 := oltAmt("7000000000000000000"), oltAmt("8000000000000000000")
	k("BID_CREATE", bidA, one(bidA), func(m string) []byte { return txBidCreate(bidA, bidOwner.Addr, "bidnew.ol", bidOns, olt5, bidFar, m) })
	k("BID_CREATE_EXAMPLE", bidA, one(bidA), func(m string) []byte { return txBidCreate(bidA, bidOwner.Addr, "thing", bidExample, olt5, bidFar, m) })
	k("BID_CREATE_OFFER", bidB, one(bidB), func(m string) []byte { return txBidOffer(bidB, convB, olt7, m) })
	k("BID_CONTER_OFFER", bidOwner, one(bidOwner), func(m string) []byte { return txBidCounter(bidOwner, convA, olt8, m) })
	k("BID_CANCEL", bidA, one(bidA), func(m string) []byte { return txBidCancel(bidA, convA, m) })
	k("BID_BIDDER_DECISION", bidB, one(bidB), func(m string) []byte { return txBidBidderDecision(bidB, convB, bidAccept, m) })
	k("BID_BIDDER_DECISION_REJECT", bidB, one(bidB), func(m string) []byte { return txBidBidderDecision(bidB, convB, bidReject, m) })
	k("BID_OWNER_DECISION", bidOwner, one(bidOwner), func(m string) []byte { return txBidOwnerDecision(bidOwner, convA, bidAccept, m) })
	k("BID_OWNER_DECISION_REJECT", bidOwner, one(bidOwner), func(m string) []byte { return txBidOwnerDecision(bidOwner, convA, bidReject, m) })
	// BID_EXPIRE is in the public router: "validatorAddress" is whoever signs (a funded account pays the fee)
	k("BID_EXPIRE", v0.Stake, one(v0.Stake), func(m string) []byte { return txBidExpire(v0.Stake, convC, m) })
	// the same about a conversation that IS due: the block hooks queue the internal expire transaction in
	// the same block (it then finds the conversation closed)
	k("BID_EXPIRE_DUE", v0.Stake, one(v0.Stake), func(m string) []byte { return txBidExpire(v0.Stake, convD, m) })
	return l
}

// ---------- decoding / re-encoding helpers ----------

func decodeSigned(bz []byte) *action.SignedTx {
	tx := &action.SignedTx{}
	must(serialize.GetSerializer(serialize.NETWORK).Deserialize(bz, tx))
	return tx
}

func encodeSigned(tx *action.SignedTx) []byte {
	bz, err := serialize.GetSerializer(serialize.NETWORK).Serialize(tx)
	must(err)
	return bz
}

func resign(raw action.RawTx, signers ...Key) []byte { return signRaw(raw, signers...) }

type labMutant struct {
	Name  string
	Class string // content (signed content changed, signatures kept) | sig (signatures changed) | attacker (re-signed by another key)
	Tx    []byte
}

// mutatePayload: every top-level field of the payload JSON gets one changed value
func mutatePayload(data []byte, other keys.Address) map[string][]byte {
	out := map[string][]byte{}
	var m map[string]json.RawMessage
	if json.Unmarshal(data, &m) != nil {
		return out
	}
	names := []string{}
	for k := range m {
		names = append(names, k)
	}
	sort.Strings(names)
	for _, f := range names {
		v := m[f]
		var nv json.RawMessage
		s := strings.TrimSpace(string(v))
		switch {
		case strings.HasPrefix(s, "\"0lt") || strings.HasPrefix(s, "\"0x"):
			nv = json.RawMessage(`"` + other.String() + `"`)
		case strings.HasPrefix(s, "\""):
			nv = json.RawMessage(s[:len(s)-1] + `x"`)
		case strings.HasPrefix(s, "{") && strings.Contains(s, "\"value\""):
			nv = json.RawMessage(strings.Replace(s, `"value":"`, `"value":"1`, 1))
		case s == "true":
			nv = json.RawMessage("false")
		case s == "false":
			nv = json.RawMessage("true")
		case s == "null" || strings.HasPrefix(s, "{") || strings.HasPrefix(s, "["):
			continue
		default: // number
			nv = json.RawMessage(s + "1")
		}
		m2 := map[string]json.RawMessage{}
		for k2, v2 := range m {
			m2[k2] = v2
		}
		m2[f] = nv
		bz, err := json.Marshal(m2)
		if err == nil {
			out[f] = bz
		}
	}
	return out
}

// mutants of a valid signed transaction: the signed content changes while the signatures stay,
// or the signatures change while the content stays
func (l *lab) mutants(k labKind, base []byte) []labMutant {
	ms := []labMutant{}
	add := func(name, class string, f func(tx *action.SignedTx) bool) {
		tx := decodeSigned(base)
		if f(tx) {
			bz := encodeSigned(tx)
			if bytes.Equal(bz, encodeSigned(decodeSigned(base))) {
				return // not a mutation of this transaction (e.g. swapping two identical signatures)
			}
			ms = append(ms, labMutant{name, class, bz})
		}
	}
	add("type", "content", func(tx *action.SignedTx) bool {
		if tx.Type == action.SEND {
			tx.Type = action.SENDPOOL
		} else {
			tx.Type = action.SEND
		}
		return true
	})
	fields := mutatePayload(decodeSigned(base).Data, l.Attacker.Addr)
	fnames := []string{}
	for f := range fields {
		fnames = append(fnames, f)
	}
	sort.Strings(fnames)
	for _, f := range fnames {
		nd := fields[f]
		add("payload."+f, "content", func(tx *action.SignedTx) bool { tx.Data = nd; return true })
	}
	add("fee.price.value", "content", func(tx *action.SignedTx) bool { tx.Fee.Price.Value = bigAmt("1000000001"); return true })
	add("fee.price.currency", "content", func(tx *action.SignedTx) bool { tx.Fee.Price.Currency = "ETH"; return true })
	add("fee.gas", "content", func(tx *action.SignedTx) bool { tx.Fee.Gas++; return true })
	add("memo", "content", func(tx *action.SignedTx) bool { tx.Memo += "x"; return true })
	add("sig.flip", "sig", func(tx *action.SignedTx) bool {
		s := append([]byte{}, tx.Signatures[0].Signed...)
		if len(s) < 4 {
			return false
		}
		s[3] ^= 0x40
		tx.Signatures[0].Signed = s
		return true
	})
	// ECDSA malleability: (r, s) and (r, N−s) verify under the same key for the same message; a verifier that does not
	// insist on the lower s admits the second form — other bytes, another transaction hash, the same signed content
	add("sig.s-negated", "sig", func(tx *action.SignedTx) bool {
		sg := tx.Signatures[0]
		if sg.Signer.KeyType != keys.SECP256K1 || len(sg.Signed) != 64 {
			return false
		}
		n, _ := new(big.Int).SetString("fffffffffffffffffffffffffffffffebaaedce6af48a03bbfd25e8cd0364141", 16)
		sv := new(big.Int).SetBytes(sg.Signed[32:])
		sv.Sub(n, sv)
		out := append([]byte{}, sg.Signed[:32]...)
		sb := sv.Bytes()
		out = append(out, append(make([]byte, 32-len(sb)), sb...)...)
		tx.Signatures[0].Signed = out
		return true
	})
	add("sig.pubkey-substituted", "sig", func(tx *action.SignedTx) bool { tx.Signatures[0].Signer = l.Attacker.Pub; return true })
	add("sig.drop-last", "sig", func(tx *action.SignedTx) bool { tx.Signatures = tx.Signatures[:len(tx.Signatures)-1]; return true })
	add("sig.drop-all", "sig", func(tx *action.SignedTx) bool { tx.Signatures = nil; return true })
	add("sig.duplicate", "sig", func(tx *action.SignedTx) bool { tx.Signatures = append(tx.Signatures, tx.Signatures[0]); return true })
	add("sig.reorder", "sig", func(tx *action.SignedTx) bool {
		if len(tx.Signatures) < 2 {
			return false
		}
		tx.Signatures[0], tx.Signatures[1] = tx.Signatures[1], tx.Signatures[0]
		return true
	})
	// one required signer's genuine signature copied into ANOTHER required signer's slot: the count is right and
	// every entry is a valid signature of a required signer, but one required signer has not signed at all
	for i := 0; i < len(k.Signers); i++ {
		for j := 0; j < len(k.Signers); j++ {
			if i == j {
				continue
			}
			i, j := i, j
			add(fmt.Sprintf("sig.slot%d:=slot%d", j, i), "sig", func(tx *action.SignedTx) bool {
				if len(tx.Signatures) <= i || len(tx.Signatures) <= j {
					return false
				}
				tx.Signatures[j] = tx.Signatures[i]
				return true
			})
		}
	}
	add("sig.key-algorithm", "sig", func(tx *action.SignedTx) bool {
		p := tx.Signatures[0].Signer
		if p.KeyType == keys.SECP256K1 {
			return false // not a mutation for this key; the relabelling mutants below cover it
		}
		p.KeyType = keys.SECP256K1
		tx.Signatures[0].Signer = p
		return true
	})
	// somebody else's PUBLIC key with junk bytes in slot 0 (the fee payer slot), genuine signatures in
	// the other slots: the count matches, but slot 0 is not a signature of a required signer
	{
		tx := decodeSigned(base)
		if len(tx.Signatures) >= 2 {
			victim := l.W.Users[4]
			tx.Signatures[0] = action.Signature{Signer: victim.Pub, Signed: bytes.Repeat([]byte{0x33}, 64)}
			ms = append(ms, labMutant{"sig.slot0-foreign-pubkey-junk", "attacker", encodeSigned(tx)})
		}
	}
	// the required signer's PUBLIC key relabelled with every other key algorithm, with junk, empty
	// and the original signature bytes: no algorithm's handler may accept it for that address
	for _, alg := range []string{"ed25519", "secp256k1", "btcecsecp", "ethsecp"} {
		for _, sigv := range []string{"junk", "empty", "orig"} {
			tx := decodeSigned(base)
			cur := tx.Signatures[0].Signer.KeyType.String()
			if cur == alg {
				continue
			}
			switch sigv {
			case "junk":
				tx.Signatures[0].Signed = bytes.Repeat([]byte{0x5a}, 64)
			case "empty":
				tx.Signatures[0].Signed = []byte{}
			}
			bz := encodeSigned(tx)
			out := []byte(strings.Replace(string(bz), `"keyType":"`+cur+`"`, `"keyType":"`+alg+`"`, 1))
			ms = append(ms, labMutant{"sig.key-relabelled-" + alg + "-" + sigv, "attacker", out})
		}
	}
	// NOBODY's authority: every payload field that names a required signer is emptied, and the envelope carries
	// a public key of an algorithm whose handler has no address of its own (btcecsecp) with junk as signature —
	// a transaction that names the empty address must not be admitted without a signature that verifies
	{
		tx := decodeSigned(base)
		data := string(tx.Data)
		changed := false
		for _, sk := range k.Signers {
			if strings.Contains(data, `"`+sk.Addr.String()+`"`) {
				data = strings.ReplaceAll(data, `"`+sk.Addr.String()+`"`, `""`)
				changed = true
			}
		}
		if changed {
			priv, err := keys.GetPrivateKeyFromBytes(bytes.Repeat([]byte{0x42}, 32), keys.BTCECSECP)
			must(err)
			ph, err := priv.GetHandler()
			must(err)
			raw := tx.RawTx
			raw.Data = []byte(data)
			raw.Memo = raw.Memo + "e"
			for _, nsig := range []int{len(tx.Signatures), 1} {
				st := action.SignedTx{RawTx: raw}
				for i := 0; i < nsig; i++ {
					st.Signatures = append(st.Signatures, action.Signature{Signer: ph.PubKey(), Signed: bytes.Repeat([]byte{0x5a}, 64)})
				}
				ms = append(ms, labMutant{fmt.Sprintf("payload.signers-emptied+btcec-junk-%d", nsig), "attacker", encodeSigned(&st)})
			}
		}
	}
	// the same content signed (correctly) by each OTHER account the payload names (recipient,
	// beneficiary, validator, ...): authority must come from the spender, not from whoever is named
	{
		tx := decodeSigned(base)
		known := map[string]Key{}
		for _, u := range l.W.Users {
			known[u.Addr.String()] = u
		}
		for _, v := range append(append([]ValSpec{}, l.W.Vals...), l.W.Extra...) {
			known[v.Val.Addr.String()] = v.Val
			known[v.Stake.Addr.String()] = v.Stake
		}
		isSigner := map[string]bool{}
		for _, sk := range k.Signers {
			isSigner[sk.Addr.String()] = true
		}
		names := []string{}
		for a := range known {
			if !isSigner[a] && bytes.Contains(tx.Data, []byte(a)) {
				names = append(names, a)
			}
		}
		sort.Strings(names)
		for _, a := range names {
			other := []Key{}
			for range tx.Signatures {
				other = append(other, known[a])
			}
			ms = append(ms, labMutant{"sig.signed-by-named-account", "attacker", resign(tx.RawTx, other...)})
		}
	}
	// the same content signed (correctly) by somebody else's key(s)
	{
		tx := decodeSigned(base)
		att := []Key{}
		for range tx.Signatures {
			att = append(att, l.Attacker)
		}
		ms = append(ms, labMutant{"sig.signed-by-another-key", "attacker", resign(tx.RawTx, att...)})
	}
	return ms
}

// wire-level mutants: byte strings that do not decode, or that decode but OMIT members or set them to
// null.  Submitted right after the genuine transaction on the same ABCI connection, none of them may
// be admitted or executed: whatever a decoder leaves untouched must not be inherited from an earlier
// request.
func wireMutants(base []byte) []labMutant {
	out := []labMutant{}
	add := func(name string, bz []byte) { out = append(out, labMutant{"wire." + name, "wire", bz}) }
	add("empty-object", []byte("{}"))
	add("null", []byte("null"))
	add("no-bytes", []byte{})
	add("array", []byte("[]"))
	add("number", []byte("0"))
	add("string", []byte(`"x"`))
	add("open-brace", []byte("{"))
	add("truncated-half", append([]byte{}, base[:len(base)/2]...))
	add("truncated-last-byte", append([]byte{}, base[:len(base)-1]...))
	add("trailing-garbage", append(append([]byte{}, base...), []byte("}x")...))
	if i := bytes.IndexByte(base, ':'); i > 0 {
		d := append([]byte{}, base...)
		d[i] = ';'
		add("damaged-structural-byte", d)
	}
	var m map[string]json.RawMessage
	if json.Unmarshal(base, &m) == nil {
		names := []string{}
		for k := range m {
			names = append(names, k)
		}
		sort.Strings(names)
		for _, f := range names {
			m2 := map[string]json.RawMessage{}
			for k, v := range m {
				if k != f {
					m2[k] = v
				}
			}
			if bz, err := json.Marshal(m2); err == nil {
				add("member-absent-"+f, bz)
			}
			m3 := map[string]json.RawMessage{}
			for k, v := range m {
				m3[k] = v
			}
			m3[f] = json.RawMessage("null")
			if bz, err := json.Marshal(m3); err == nil {
				add("member-null-"+f, bz)
			}
		}
		only := map[string]json.RawMessage{"zz": json.RawMessage("1")}
		if bz, err := json.Marshal(only); err == nil {
			add("unknown-member-only", bz)
		}
	}
	return out
}

// re-encodings of the same signed content: the parsed SignedTx is identical
func reencodings(base []byte, r *rand.Rand) []labMutant {
	out := []labMutant{}
	out = append(out, labMutant{"leading-space", "reenc", append([]byte(" "), base...)})
	out = append(out, labMutant{"trailing-newline", "reenc", append(append([]byte{}, base...), '\n')})
	var ind bytes.Buffer
	if json.Indent(&ind, base, "", "  ") == nil {
		out = append(out, labMutant{"indented", "reenc", ind.Bytes()})
	}
	// key order: generic map marshals keys alphabetically
	var m map[string]json.RawMessage
	if json.Unmarshal(base, &m) == nil {
		if bz, err := json.Marshal(m); err == nil && !bytes.Equal(bz, base) {
			out = append(out, labMutant{"key-order", "reenc", bz})
		}
		m2 := map[string]json.RawMessage{}
		for k, v := range m {
			m2[k] = v
		}
		m2["zz_extra"] = json.RawMessage(fmt.Sprintf("%d", r.Intn(1000000)))
		if bz, err := json.Marshal(m2); err == nil {
			out = append(out, labMutant{"extra-field", "reenc", bz})
		}
	}
	// duplicate key: a first "memo" that the parser overwrites with the signed one
	if i := bytes.IndexByte(base, '{'); i >= 0 {
		dup := append([]byte{}, base[:i+1]...)
		dup = append(dup, []byte(`"memo":"shadow",`)...)
		dup = append(dup, base[i+1:]...)
		out = append(out, labMutant{"duplicate-key", "reenc", dup})
	}
	// escaped character in a string that decodes to the same text
	if bytes.Contains(base, []byte(`"currency":"OLT"`)) {
		out = append(out, labMutant{"unicode-escape", "reenc", bytes.Replace(base, []byte(`"currency":"OLT"`), []byte("\"currency\":\"OL\\u0054\""), 1)})
	}
	return out
}

func sameParsed(a, b []byte) bool {
	ta, tb := &action.SignedTx{}, &action.SignedTx{}
	if serialize.GetSerializer(serialize.NETWORK).Deserialize(a, ta) != nil || serialize.GetSerializer(serialize.NETWORK).Deserialize(b, tb) != nil {
		return false
	}
	return bytes.Equal(encodeSigned(ta), encodeSigned(tb))
}

func hx(b []byte) string { return hex.EncodeToString(b) }

// ledger projection used to observe "took effect": all balance, stake, delegation and fund records
func ledgerView(m map[string]string) map[string]string {
	out := map[string]string{}
	for k, v := range m {
		if strings.HasPrefix(k, "b_") || strings.HasPrefix(k, "st__") || strings.HasPrefix(k, "deleg_") || strings.HasPrefix(k, "delegRwz_") ||
			strings.HasPrefix(k, "propFunds") || strings.HasPrefix(k, "d_") || strings.HasPrefix(k, "prop") || strings.HasPrefix(k, "es__ark") || strings.HasPrefix(k, "f_") {
			out[k] = v
		}
	}
	return out
}

func diffKeys(a, b map[string]string) []string {
	out := []string{}
	for k, v := range a {
		if b[k] != v {
			out = append(out, k)
		}
	}
	for k := range b {
		if _, ok := a[k]; !ok {
			out = append(out, k)
		}
	}
	sort.Strings(out)
	return out
}
