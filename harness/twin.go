package main

// Twin runs for the relational properties: the same history is executed on replicas that differ
// only in what the property says must not matter, and the consensus transcripts are compared.

import (
	"time"
	"github.com/Oneledger/protocol/data/balance"
	"github.com/Oneledger/protocol/data/governance"
	"github.com/Oneledger/protocol/consensus"
	"encoding/json"
	"flag"
	"fmt"
	"io"
	"math/rand"
	"os"
	"path/filepath"
	"runtime/debug"
	"sort"
	"strings"

	"github.com/Oneledger/protocol/action"
	govact "github.com/Oneledger/protocol/action/governance"
	"github.com/Oneledger/protocol/config"
)

func init() { subcmds["twin"] = twinMain }

type Variant struct {
	Name       string
	NodeVal    *Key // identity (nil = validator 0)
	NodeSeed   byte
	Rotation   config.ChainStateRotationCfg
	NoIndex    bool                                 // C01: a node run with Tendermint's "null" transaction indexer
	TZ         int                                  // C01: the host's time zone as seconds east of UTC (0 = leave as is)
	SkipFailed map[[2]int]bool                      // C06: (block, tx index) to leave out
	Checks     func(r *Replica, block int, pos int) // C07: called at every call boundary (pos: -1 before BeginBlock, k after k-th item, 1000 after EndBlock, 1001 after Commit)
	CrashAt    map[[2]int]bool                      // C08: crash at boundary (block, pos) (pos as above; pos 1001 = after commit)
}

type Transcript struct {
	Blocks   []BlockResult
	TxIdx    [][]int // per block: original tx index of each delivered tx
	InfoBad  []string
	TMError  string
	Restarts int
	Dumps    map[int64]map[string]string // optional state dumps per height
}

func copyDir(src, dst string) error {
	return filepath.Walk(src, func(p string, info os.FileInfo, err error) error {
		if err != nil {
			return err
		}
		rel, _ := filepath.Rel(src, p)
		t := filepath.Join(dst, rel)
		if info.IsDir() {
			return os.MkdirAll(t, 0755)
		}
		if info.Name() == "LOCK" {
			return nil
		}
		in, err := os.Open(p)
		if err != nil {
			return err
		}
		defer in.Close()
		out, err := os.Create(t)
		if err != nil {
			return err
		}
		defer out.Close()
		_, err = io.Copy(out, in)
		return err
	})
}

// crash: the process dies here. A byte copy of the data directory is taken (what a restarted
// process would find), the old app object is abandoned, and a new app is opened on the copy.
func (r *Replica) Crash() {
	// LevelDB compacts in the background and may remove a table file while the copy runs:
	// retry until one pass sees a stable directory
	var nd string
	var err error
	for attempt := 0; ; attempt++ {
		nd, err = os.MkdirTemp("", "verif_replica_")
		must(err)
		if err = copyDir(r.Dir, nd); err == nil {
			break
		}
		os.RemoveAll(nd)
		if attempt > 20 {
			must(err)
		}
	}
	old := r.Dir
	oldOwn := r.ownDir
	// abandon the old app (close it only to release file handles; its directory is dropped)
	func() {
		defer func() { recover() }()
		restore := quietStdout()
		defer restore()
		r.A.Close()
	}()
	if oldOwn {
		os.RemoveAll(old)
	}
	r.Dir, r.ownDir = nd, true
	r.open()
}

func runVariant(w *World, gen *GenesisSpec, h *History, v *Variant, dumpHeights map[int64]bool) (tr *Transcript) {
	nodeVal := w.Vals[0].Val
	if v.NodeVal != nil {
		nodeVal = *v.NodeVal
	}
	if v.TZ != 0 {
		// a host in another time zone: whatever is derived from time.Local (a time.Time rebuilt with time.Unix, a
		// formatted date) must not reach state or results
		old := time.Local
		time.Local = time.FixedZone("verif-zone", v.TZ)
		defer func() { time.Local = old }()
	}
	rep := NewReplica(gen, ReplicaOpts{NodeVal: nodeVal, NodeSeed: v.NodeSeed, Rotation: v.Rotation, NoIndex: v.NoIndex})
	tr = &Transcript{Dumps: map[int64]map[string]string{}}
	defer func() {
		if e := recover(); e != nil {
			tr.InfoBad = append(tr.InfoBad, fmt.Sprintf("harness panic: %v", e))
			if os.Getenv("VH_DEBUG") != "" {
				fmt.Fprintf(os.Stderr, "panic: %v\n%s\n", e, debug.Stack())
			}
		}
		tr.TMError = rep.TMError
		rep.Close()
	}()
	rep.InitChain()
	lastH, lastHash := int64(0), ""
	check := func(b, pos int) {
		if v.Checks != nil {
			v.Checks(rep, b, pos)
		}
	}
	for bi := range h.Blocks {
		in := h.Blocks[bi]
		txs := [][]byte{}
		idx := []int{}
		for ti, tx := range in.Txs {
			if v.SkipFailed != nil && v.SkipFailed[[2]int{bi, ti}] {
				continue
			}
			txs = append(txs, tx)
			idx = append(idx, ti)
		}
		attempt := 0
	retry:
		attempt++
		crashed := func(pos int) bool {
			if attempt == 1 && v.CrashAt != nil && v.CrashAt[[2]int{bi, pos}] {
				if os.Getenv("VH_DEBUG") != "" {
					fmt.Fprintf(os.Stderr, "CRASH variant %s block %d pos %d\n", v.Name, bi+1, pos)
				}
				rep.Crash()
				tr.Restarts++
				ih, ihash := rep.Info()
				if ih != lastH || (lastH > 0 && ihash != lastHash) {
					tr.InfoBad = append(tr.InfoBad, fmt.Sprintf("after crash at block %d pos %d: Info = (%d,%s), last commit = (%d,%s)", bi+1, pos, ih, ihash, lastH, lastHash))
				}
				// Tendermint replays the block the app has not committed (and, when the app
				// reports height 0, runs InitChain again during the handshake)
				rep.H = lastH
				if lastH == 0 {
					rep.InitChain()
				}
				return true
			}
			return false
		}
		check(bi, -1)
		bin := BlockIn{Txs: txs, Absent: in.Absent, Byzantine: in.Byzantine, DT: in.DT}
		rep.BeginBlock(&bin)
		check(bi, 0)
		if crashed(0) {
			goto retry
		}
		for k, tx := range txs {
			rep.DeliverTx(tx)
			check(bi, k+1)
			if crashed(k + 1) {
				goto retry
			}
		}
		rep.EndBlock()
		check(bi, 1000)
		if crashed(1000) {
			goto retry
		}
		lastHash = rep.Commit()
		lastH = rep.H
		check(bi, 1001)
		if attempt == 1 && v.CrashAt != nil && v.CrashAt[[2]int{bi, 1001}] {
			if os.Getenv("VH_DEBUG") != "" {
				fmt.Fprintf(os.Stderr, "CRASH variant %s after commit of block %d\n", v.Name, bi+1)
			}
			rep.Crash()
			tr.Restarts++
			ih, ihash := rep.Info()
			if ih != lastH || ihash != lastHash {
				tr.InfoBad = append(tr.InfoBad, fmt.Sprintf("after crash following commit %d: Info = (%d,%s), last commit = (%d,%s)", lastH, ih, ihash, lastH, lastHash))
			}
		}
		tr.Blocks = append(tr.Blocks, rep.Log[len(rep.Log)-1])
		tr.TxIdx = append(tr.TxIdx, idx)
		if dumpHeights != nil && dumpHeights[rep.H] {
			tr.Dumps[rep.H] = rep.Dump()
		}
	}
	return tr
}

type Divergence struct {
	Block   int      `json:"block"` // 1-based height
	What    string   `json:"what"`  // apphash | updates | txresult | info | tmerror | nblocks
	Tx      int      `json:"tx"`
	A       string   `json:"a"`
	B       string   `json:"b"`
	KeyDiff []string `json:"key_diff,omitempty"`
}

func txStr(t TxResult) string {
	return fmt.Sprintf("code=%d data=%s gasWanted=%d gasUsed=%d", t.Code, t.Data, t.GasWanted, t.GasUsed)
}

// compare two transcripts; txs are matched by their original index in the history
func compareTranscripts(a, b *Transcript) *Divergence {
	if len(a.InfoBad) > 0 {
		return &Divergence{What: "info", A: a.InfoBad[0]}
	}
	if len(b.InfoBad) > 0 {
		return &Divergence{What: "info", B: b.InfoBad[0]}
	}
	n := len(a.Blocks)
	if len(b.Blocks) < n {
		n = len(b.Blocks)
	}
	for i := 0; i < n; i++ {
		ba, bb := a.Blocks[i], b.Blocks[i]
		am := map[int]TxResult{}
		for k, t := range ba.Txs {
			am[a.TxIdx[i][k]] = t
		}
		for k, t := range bb.Txs {
			if ta, ok := am[b.TxIdx[i][k]]; ok && txStr(ta) != txStr(t) {
				return &Divergence{Block: i + 1, What: "txresult", Tx: b.TxIdx[i][k], A: txStr(ta), B: txStr(t)}
			}
		}
		if strings.Join(ba.Updates, ",") != strings.Join(bb.Updates, ",") {
			return &Divergence{Block: i + 1, What: "updates", A: strings.Join(ba.Updates, ","), B: strings.Join(bb.Updates, ",")}
		}
		if ba.AppHash != bb.AppHash {
			return &Divergence{Block: i + 1, What: "apphash", A: ba.AppHash, B: bb.AppHash}
		}
	}
	if len(a.Blocks) != len(b.Blocks) {
		return &Divergence{What: "nblocks", A: fmt.Sprint(len(a.Blocks)), B: fmt.Sprint(len(b.Blocks))}
	}
	if a.TMError != b.TMError {
		return &Divergence{What: "tmerror", A: a.TMError, B: b.TMError}
	}
	return nil
}

func keyClass(k string) string {
	// the store prefix: up to the first '_' (store keys are prefix + "_" + ...)
	if i := strings.IndexByte(k, '_'); i > 0 {
		return k[:i]
	}
	return k
}

func dumpDiff(a, b map[string]string) []string {
	classes := map[string]int{}
	for k, v := range a {
		if bv, ok := b[k]; !ok || bv != v {
			classes[keyClass(k)]++
		}
	}
	for k := range b {
		if _, ok := a[k]; !ok {
			classes[keyClass(k)]++
		}
	}
	out := []string{}
	for c, n := range classes {
		out = append(out, fmt.Sprintf("%s:%d", c, n))
	}
	sort.Strings(out)
	return out
}

type TwinCase struct {
	Index   int          `json:"index"`
	Genesis string       `json:"genesis"`
	HName   string       `json:"hname,omitempty"` // name of the directed history (decides the variant set)
	Variant string       `json:"variant"`
	Blocks  int          `json:"blocks"`
	Txs     int          `json:"txs"`
	Failed  int          `json:"failed_txs"`
	Extra   string       `json:"extra,omitempty"`
	Div     *Divergence  `json:"divergence,omitempty"`
	History []HBlockJSON `json:"history,omitempty"`
	Descr   [][]string   `json:"descr,omitempty"`
}

type TwinReport struct {
	Mode        string         `json:"mode"`
	Seed        int64          `json:"seed"`
	Cases       []TwinCase     `json:"cases"`
	Histories   int            `json:"histories"`
	Comparisons int            `json:"comparisons"`
	Divergent   int            `json:"divergent"`
	TxTotal     int            `json:"tx_total"`
	TxFailed    int            `json:"tx_failed"`
	KindHist    map[string]int `json:"kind_histogram"`
	Restarts    int            `json:"restarts"`
	ChecksRun   int            `json:"checktx_calls"`
}

// reincludedHistory: h with every third transaction of a block included again, byte-identical, three blocks later
func reincludedHistory(h *History) *History {
	out := &History{Name: h.Name + "+reincluded"}
	for _, b := range h.Blocks {
		out.Blocks = append(out.Blocks, BlockIn{Txs: append([][]byte{}, b.Txs...), Absent: b.Absent, Byzantine: b.Byzantine, DT: b.DT})
	}
	for len(out.Blocks) < len(h.Blocks)+3 {
		out.Blocks = append(out.Blocks, BlockIn{Absent: map[int]bool{}})
	}
	for bi, b := range h.Blocks {
		d := []string{}
		if bi < len(h.Descr) {
			d = h.Descr[bi]
		}
		_ = d
		for ti, tx := range b.Txs {
			if ti%3 == 0 {
				out.Blocks[bi+3].Txs = append(out.Blocks[bi+3].Txs, tx)
			}
		}
	}
	for bi := range out.Blocks {
		d := make([]string, len(out.Blocks[bi].Txs))
		for ti := range d {
			d[ti] = "scenario"
			if bi < len(h.Descr) && ti < len(h.Descr[bi]) {
				d[ti] = h.Descr[bi][ti]
			} else {
				d[ti] = "included again"
			}
		}
		out.Descr = append(out.Descr, d)
	}
	return out
}

// the account that sends the probe payments of the C06 histories (nobody else uses it)
var twinProbe = seedKey(150)

// probedHistory: h with a payment by the probe account after every transaction
func probedHistory(h *History, w *World) *History {
	out := &History{Name: h.Name}
	if h.Name != "" {
		out.Name = h.Name + "+probes"
	}
	n := 0
	GAS = 1000000
	for bi, b := range h.Blocks {
		nb := BlockIn{Absent: b.Absent, Byzantine: b.Byzantine, DT: b.DT}
		d := []string{}
		for ti, tx := range b.Txs {
			n++
			nb.Txs = append(nb.Txs, tx, txSend(twinProbe, w.Users[n%len(w.Users)].Addr, oltAmt("1000000000000"), fmt.Sprintf("c06probe%d", n)))
			what := "?"
			if bi < len(h.Descr) && ti < len(h.Descr[bi]) {
				what = h.Descr[bi][ti]
			}
			d = append(d, what, "send probe")
		}
		out.Blocks = append(out.Blocks, nb)
		out.Descr = append(out.Descr, d)
	}
	return out
}

// genesis variants by name
func genesisVariant(w *World, name string) *GenesisSpec {
	g := w.Genesis()
	g.Funded = append(g.Funded, twinProbe.Addr)
	switch name {
	case "default":
	case "mature": // unstaked amounts maturing at several heights (delegation.LoadState)
		g.Customize = customizeMature(w)
	case "pending": // pending network undelegations loaded at genesis
		g.Customize = customizePending(w)
	case "prodgov": // production-range proposal and staking options: configuration updates of the staking options validate
		g.Customize = func(st *consensus.AppState) {
			d := governance.ProposalFundDistribution{Validators: 18, FeePool: 18, Burn: 18, ExecutionCost: 18, BountyPool: 10, ProposerReward: 18}
			mk := func(fdl, vdl int64, pass int) governance.ProposalOption {
				return governance.ProposalOption{InitialFunding: amt("1000000000"), FundingGoal: amt("10000000000"), FundingDeadline: fdl, VotingDeadline: vdl,
					PassPercentage: pass, PassedFundDistribution: d, FailedFundDistribution: d, ProposalExecutionCost: "executionCost"}
			}
			st.Governance.PropOptions = governance.ProposalOptionSet{ConfigUpdate: mk(10000, 10000, 51), CodeChange: mk(10000, 150000, 60), General: mk(75000, 75000, 67), BountyProgramAddr: "oneledgerBountyProgram"}
			st.Governance.StakingOptions.MaturityTime = 109200
			st.Governance.StakingOptions.MinSelfDelegationAmount = *balance.NewAmount(500000)
			st.Governance.StakingOptions.TopValidatorCount = 8
		}
	case "eth": // Ethereum chain driver + the genesis validators as witnesses (scenario ethlock)
		g.Customize = customizeEth(w)
		for _, v := range w.Vals {
			g.Funded = append(g.Funded, v.Val.Addr)
		}
	}
	return g
}

func twinMain(args []string) int {
	fs := flag.NewFlagSet("twin", flag.ExitOnError)
	mode := fs.String("mode", "c06", "c06|c07|c08|c01")
	seed := fs.Int64("seed", 1, "seed")
	nh := fs.Int("n", 6, "number of histories")
	nb := fs.Int("blocks", 30, "blocks per history")
	tpb := fs.Int("txs", 6, "max txs per block")
	out := fs.String("out", "twin_report.json", "report file")
	replayFile := fs.String("replay", "", "replay a case (JSON with genesis, variant seed, history)")
	withScen := fs.Bool("scenarios", true, "run the directed scenario histories first")
	fs.Parse(args)
	r := rand.New(rand.NewSource(*seed))
	rep := TwinReport{Mode: *mode, Seed: *seed, KindHist: map[string]int{}}
	w := NewWorld(3, 5, 2)

	type job struct {
		genName string
		h       *History
		vseed   int64
	}
	jobs := []job{}
	if *replayFile != "" {
		bz, err := os.ReadFile(*replayFile)
		must(err)
		var rp struct {
			Genesis string       `json:"genesis"`
			HName   string       `json:"hname"`
			VSeed   int64        `json:"vseed"`
			History []HBlockJSON `json:"history"`
		}
		must(json.Unmarshal(bz, &rp))
		hh := historyFromJSON(rp.History)
		hh.Name = rp.HName
		jobs = append(jobs, job{rp.Genesis, hh, rp.VSeed})
	} else {
		gens := []string{"default", "default", "mature", "pending"}
		if *withScen {
			for _, sn := range scenarioNames {
				jobs = append(jobs, job{scenarioGenesis(sn), scenarioHistory(sn, w), r.Int63()})
			}
		}
		for i := 0; i < *nh; i++ {
			jobs = append(jobs, job{gens[i%len(gens)], genHistory(r, w, *nb, *tpb), r.Int63()})
		}
		if *mode == "c01" {
			// a block may contain bytes that an earlier block already contained (nothing in Tendermint's block
			// validity forbids it; its mempool cache is bounded and empty after a restart): every directed history
			// once more with some of its executed payments included again three blocks later
			for _, j := range append([]job{}, jobs[:len(scenarioNames)]...) {
				if j.h.Name == "ethlock" {
					continue
				}
				jobs = append(jobs, job{j.genName, reincludedHistory(j.h), j.vseed + 2})
			}
		}
		if *mode == "c06" {
			// every history once more with a probe payment after each transaction: what a refused transaction
			// leaves behind in MEMORY (a swapped gas meter, a cached option, a flag) shows in the gas, fee and
			// result of the transaction that follows it in the same block, not in the state the refused one wrote
			for _, j := range append([]job{}, jobs...) {
				jobs = append(jobs, job{j.genName, probedHistory(j.h, w), j.vseed + 1})
			}
		}
	}
	for i, j := range jobs {
		gen := genesisVariant(w, j.genName)
		base := runVariant(w, gen, j.h, &Variant{Name: "base"}, nil)
		rep.Histories++
		ntx, nfail := 0, 0
		for bi, b := range base.Blocks {
			for ti, t := range b.Txs {
				ntx++
				if t.Code != 0 {
					nfail++
				}
				if bi < len(j.h.Descr) && ti < len(j.h.Descr[bi]) {
					rep.KindHist[strings.SplitN(j.h.Descr[bi][ti], " ", 2)[0]]++
				}
			}
		}
		rep.TxTotal += ntx
		rep.TxFailed += nfail
		variants := buildVariants(*mode, w, j.h, base, rand.New(rand.NewSource(j.vseed)), &rep)
		for _, v := range variants {
			tr := runVariant(w, gen, j.h, v, nil)
			rep.Comparisons++
			rep.Restarts += tr.Restarts
			d := compareTranscripts(base, tr)
			tc := TwinCase{Index: i, Genesis: j.genName, HName: j.h.Name, Variant: v.Name, Blocks: len(j.h.Blocks), Txs: ntx, Failed: nfail}
			if d != nil {
				rep.Divergent++
				// state diff at the first divergent block, for the site signature
				if d.Block > 0 {
					dh := map[int64]bool{int64(d.Block): true}
					a2 := runVariant(w, gen, j.h, &Variant{Name: "base"}, dh)
					b2 := runVariant(w, gen, j.h, v, dh)
					d.KeyDiff = dumpDiff(a2.Dumps[int64(d.Block)], b2.Dumps[int64(d.Block)])
				}
				tc.Div = d
				tc.History = j.h.JSON()
				tc.Descr = j.h.Descr
				tc.Extra = fmt.Sprintf("vseed=%d", j.vseed)
			}
			rep.Cases = append(rep.Cases, tc)
		}
	}
	bz, _ := json.MarshalIndent(rep, "", " ")
	must(os.WriteFile(*out, bz, 0644))
	say("twin %s: %d histories, %d comparisons, %d divergent, %d txs (%d failed)\n", *mode, rep.Histories, rep.Comparisons, rep.Divergent, rep.TxTotal, rep.TxFailed)
	return 0
}

// c01Mempool: CheckTx traffic at every call boundary (as in the C07 variants)
func c01Mempool(w *World, h *History, r *rand.Rand, rep *TwinReport) func(rp *Replica, b, pos int) {
	pool := c07Probes(w, rand.New(rand.NewSource(r.Int63())))
	for _, b := range h.Blocks {
		pool = append(pool, b.Txs...)
	}
	rr := rand.New(rand.NewSource(r.Int63()))
	return func(rp *Replica, b, pos int) {
		if len(pool) == 0 || rr.Intn(100) >= 60 {
			return
		}
		for i := 0; i < 1+rr.Intn(2); i++ {
			rp.CheckTx(pool[rr.Intn(len(pool))])
			rep.ChecksRun++
		}
	}
}

// c07DirectedProbes: governance transactions that anybody may submit for the proposals of the directed histories
func c07DirectedProbes(w *World) [][]byte {
	out := [][]byte{}
	n := 0
	memo := func() string { n++; return fmt.Sprintf("c07dir%d", n) }
	GAS = 1000000
	for _, id := range []string{"cfgfee", "cfgons", "gen1", "exp1", "lab_vote"} {
		for _, v := range w.Vals {
			out = append(out, mkTx(action.PROPOSAL_FINALIZE, govact.FinalizeProposal{ProposalID: propID(id), ValidatorAddress: v.Val.Addr}, GAS, memo(), v.Val))
		}
		out = append(out, mkTx(action.PROPOSAL_FINALIZE, govact.FinalizeProposal{ProposalID: propID(id), ValidatorAddress: w.Users[3].Addr}, GAS, memo(), w.Users[3]))
		out = append(out, txExpireVotes(w.Users[3], id, memo()))
	}
	// the release of every validator (refused unless it is frozen and its release time has come): a release that
	// is only checked must not count in any election
	for _, v := range w.Vals {
		out = append(out, txRelease(v, memo()))
	}
	return out
}

// keys and values of configuration-update proposals (CheckTx-only probes of C07, hostile inputs of C18)
var cfgUpdateKeys = []string{"feeOption.minFeeDecimal", "onsOptions.perBlockFees", "onsOptions.baseDomainPrice", "stakingOptions.minSelfDelegationAmount",
	"stakingOptions.topValidatorCount", "stakingOptions.maturityTime", "propOptions.configUpdate.initialFunding", "propOptions.general.fundingGoal",
	"propOptions.codeChange.votingDeadline", "propOptions.general.fundingDeadline", "propOptions.configUpdate.passPercentage",
	"evidenceOptions.minVotesRequired", "evidenceOptions.blockVotesDiff", "evidenceOptions.penaltyBasePercentage", "rewardOptions.unknown"}
var cfgUpdateVals = []string{"0", "1", "2", "8", "64", "1000", "3000000", "1000000000000000000000000", "-1", "x"}

// c07Probes: transactions for CheckTx only
func c07Probes(w *World, r *rand.Rand) [][]byte {
	out := [][]byte{}
	other := genHistory(r, w, 8, 6)
	for _, b := range other.Blocks {
		out = append(out, b.Txs...)
	}
	n := 0
	memo := func() string { n++; return fmt.Sprintf("c07probe%d", n) }
	GAS = 1000000
	keysV, vals := cfgUpdateKeys, cfgUpdateVals
	for i, k := range keysV {
		for j, v := range vals {
			u := w.Users[(i+j)%len(w.Users)]
			out = append(out, txPropCreateCfg(u, fmt.Sprintf("c07p_%d_%d", i, j), k+":"+v, oltAmt("1000000000"), 10, memo()))
		}
	}
	for _, id := range []string{"cfgfee", "cfgons", "gen1", "lab_vote", "nosuchproposal", "c07p_0_0"} {
		for _, v := range w.Vals {
			out = append(out, mkTx(action.PROPOSAL_FINALIZE, govact.FinalizeProposal{ProposalID: propID(id), ValidatorAddress: v.Val.Addr}, GAS, memo(), v.Val))
		}
		out = append(out, txExpireVotes(w.Users[0], id, memo()), txPropCancel(w.Users[0], id, memo()), txPropCancel(w.Users[1], id, memo()))
	}
	// the bid external app: transactions about the conversations of scenario "bidflow" (and unknown ones)
	// that are only ever checked — the stores of the external app are objects shared by the check and the
	// deliver connection
	o := func(x string) action.Amount { return oltAmt(x + "000000000000000000") }
	for ci, id := range append(bidflowConvs(w)[1:], bidConvID(w.Users[0].Addr, "nosuch.ol", w.Users[1].Addr, 1)) {
		for ui, u := range w.Users {
			out = append(out, txBidExpire(u, id, memo()), txBidCancel(u, id, memo()), txBidCounter(u, id, o("9"), memo()), txBidOffer(u, id, o("1"), memo()),
				txBidBidderDecision(u, id, 1+(ci+ui)%2, memo()), txBidOwnerDecision(u, id, 1+(ci+ui)%2, memo()))
		}
	}
	for ui, u := range w.Users {
		for _, dn := range []string{"bf1.ol", "bf2.ol", "bf3.ol", "bf4.ol", "n0.ol", "n1.ol"} {
			out = append(out, txBidCreate(u, w.Users[(ui+1)%2].Addr, dn, bidOns, o("1"), bidFar, memo()))
		}
		out = append(out, txBidCreate(u, w.Users[0].Addr, "thing", bidExample, o("1"), bidFar, memo()))
	}
	return out
}

func buildVariants(mode string, w *World, h *History, base *Transcript, r *rand.Rand, rep *TwinReport) []*Variant {
	switch mode {
	case "c06":
		skip := map[[2]int]bool{}
		for bi, b := range base.Blocks {
			for k, t := range b.Txs {
				if t.Code != 0 {
					skip[[2]int{bi, base.TxIdx[bi][k]}] = true
				}
			}
		}
		// also: drop a random half of the failed ones
		half := map[[2]int]bool{}
		for k := range skip {
			if r.Intn(2) == 0 {
				half[k] = true
			}
		}
		vs := []*Variant{{Name: "without-failed", SkipFailed: skip}, {Name: "without-half-of-failed", SkipFailed: half}}
		// directed histories: each failed transaction left out ALONE as well — when two refused transactions follow
		// each other, leaving both out hides what the first one left behind for the second (an in-memory selector,
		// a cached lookup): the second must be refused with or without the first
		if h.Name != "" {
			ks := [][2]int{}
			for k := range skip {
				ks = append(ks, k)
			}
			sort.Slice(ks, func(a, b int) bool { return ks[a][0] < ks[b][0] || (ks[a][0] == ks[b][0] && ks[a][1] < ks[b][1]) })
			for n, k := range ks {
				if n >= 60 {
					break
				}
				vs = append(vs, &Variant{Name: fmt.Sprintf("without-failed-b%d-t%d", k[0]+1, k[1]), SkipFailed: map[[2]int]bool{k: true}})
			}
		}
		return vs
	case "c07":
		all := [][]byte{}
		for _, b := range h.Blocks {
			all = append(all, b.Txs...)
		}
		// transactions that are only ever CHECKED, never delivered: those of an independent random
		// history over the same cast, and directed ones (configuration-update proposals for every option
		// key with in- and out-of-range values, finalize / expire / cancel for known and unknown ids)
		probes := c07Probes(w, rand.New(rand.NewSource(r.Int63())))
		mk := func(name string, prob int, pool [][]byte) *Variant {
			rr := rand.New(rand.NewSource(r.Int63()))
			return &Variant{Name: name, Checks: func(rp *Replica, b, pos int) {
				if len(pool) == 0 || rr.Intn(100) >= prob {
					return
				}
				n := 1 + rr.Intn(3)
				for i := 0; i < n; i++ {
					rp.CheckTx(pool[rr.Intn(len(pool))])
					rep.ChecksRun++
				}
			}}
		}
		// directed: finalize / expire / cancel transactions for every proposal id of the directed histories,
		// ALL of them at every call boundary (a finalize that is only checked must not pre-empt the options)
		directed := c07DirectedProbes(w)
		dv := &Variant{Name: "checktx-finalize-everywhere", Checks: func(rp *Replica, b, pos int) {
			for _, tx := range directed {
				rp.CheckTx(tx)
				rep.ChecksRun++
			}
		}}
		// the same at ONE kind of call boundary per block only: the check state keeps what a checked finalize did
		// until the next Commit, so a finalize checked at every boundary runs its update function only at the
		// first one after each Commit (before BeginBlock) — what it leaves in memory is then overwritten by
		// BeginBlock; checked only AFTER BeginBlock (or after the first transaction, or after EndBlock) it is not
		at := func(name string, want func(pos int) bool) *Variant {
			return &Variant{Name: name, Checks: func(rp *Replica, b, pos int) {
				if !want(pos) {
					return
				}
				for _, tx := range directed {
					rp.CheckTx(tx)
					rep.ChecksRun++
				}
			}}
		}
		mixed := append(append([][]byte{}, all...), probes...)
		return []*Variant{mk("checktx-everywhere", 100, all), mk("checktx-sparse", 25, all),
			mk("checktx-never-delivered-everywhere", 100, probes), mk("checktx-mixed-sparse", 35, mixed), dv,
			at("checktx-finalize-after-beginblock", func(pos int) bool { return pos == 0 }),
			at("checktx-finalize-after-first-tx", func(pos int) bool { return pos == 1 }),
			at("checktx-finalize-after-endblock", func(pos int) bool { return pos == 1000 })}
	case "c08":
		vs := []*Variant{}
		for k := 0; k < 3; k++ {
			ca := map[[2]int]bool{}
			n := 2 + r.Intn(4)
			for i := 0; i < n; i++ {
				bi := r.Intn(len(h.Blocks))
				pos := []int{0, 1000, 1001, 1, 2, 1001, 1001}[r.Intn(7)]
				if pos >= 1 && pos < 1000 && pos > len(h.Blocks[bi].Txs) {
					pos = 1000
				}
				ca[[2]int{bi, pos}] = true
			}
			vs = append(vs, &Variant{Name: fmt.Sprintf("crash-%d", k), CrashAt: ca})
		}
		// directed histories only: a crash in EVERY block, always between EndBlock and Commit (what the
		// block hooks wrote outside the chain state — job store, indexes — is then ahead of the commit
		// when the block is replayed), and one cycling through the four kinds of call boundary
		if h.Name != "" {
			every, cyc := map[[2]int]bool{}, map[[2]int]bool{}
			for bi := range h.Blocks {
				every[[2]int{bi, 1000}] = true
				pos := []int{1001, 0, 1, 1000}[bi%4]
				if pos == 1 && len(h.Blocks[bi].Txs) == 0 {
					pos = 0
				}
				cyc[[2]int{bi, pos}] = true
			}
			every[[2]int{0, 1001}] = true // and a restart right after the first commit: start-up flags are read again
			vs = append(vs, &Variant{Name: "crash-every-endblock", CrashAt: every}, &Variant{Name: "crash-cycling", CrashAt: cyc})
		}
		return vs
	case "c01":
		other := seedKey(250)
		nv := w.Vals[1].Val
		nv2 := w.Vals[2].Val
		return []*Variant{
			{Name: "same-node-again"},
			{Name: "same-node-third-run"},
			{Name: "non-validator-node", NodeVal: &other, NodeSeed: 7},
			{Name: "other-validator-node", NodeVal: &nv, NodeSeed: 3},
			{Name: "rotation-recent1", Rotation: config.ChainStateRotationCfg{Recent: 1, Every: 0, Cycles: 0}},
			// a node with another process lifetime: restarted after two commits (the blocks it is
			// fed are the same; what differs is which in-memory state it carries)
			{Name: "restarted-node", CrashAt: map[[2]int]bool{{len(h.Blocks) / 3, 1001}: true, {2 * len(h.Blocks) / 3, 1001}: true}},
			// nodes that have been restarted once right after genesis, one per genesis validator: what a
			// process reads from its store at start (e.g. "is this node an Ethereum witness") then holds
			// for the whole history, as on every long-running node
			{Name: "restarted-early-node", CrashAt: map[[2]int]bool{{0, 1001}: true}},
			{Name: "restarted-early-validator-1", NodeVal: &nv, NodeSeed: 4, CrashAt: map[[2]int]bool{{0, 1001}: true}},
			{Name: "restarted-early-validator-2", NodeVal: &nv2, NodeSeed: 5, CrashAt: map[[2]int]bool{{0, 1001}: true}},
			// nodes whose mempool connection is busy while the blocks are executed (CheckTx of the history's
			// own transactions and of never-delivered ones at every call boundary): peers differ in what
			// their mempools see, never in what the blocks make them compute
			{Name: "with-mempool-traffic", Checks: c01Mempool(w, h, r, rep)},
			{Name: "other-validator-with-mempool-traffic", NodeVal: &nv, NodeSeed: 6, Checks: c01Mempool(w, h, r, rep)},
			// a node configured with Tendermint's "null" transaction indexer (a supported setting): whether a
			// transaction was executed before is asked of that node-local index
			{Name: "tx-index-off", NoIndex: true},
			// hosts in other time zones (containers and one-machine devnets all share one)
			{Name: "host-utc+5:30", TZ: 19800},
			{Name: "host-utc-8", TZ: -28800},
		}
	}
	panic("bad mode")
}
