package main

// Directed histories: multi-step situations the random generator reaches too rarely
// (a configuration-update proposal that passes and is finalised; two allegation requests
// decided in the same block; a proposal that expires; unstake → maturity → withdraw).

import (
	"bytes"
	"flag"
	"fmt"
	"math/big"
	"sort"

	ethcommon "github.com/ethereum/go-ethereum/common"

	acteth "github.com/Oneledger/protocol/action/eth"
	ethchaindrv2 "github.com/Oneledger/protocol/chains/ethereum"

	"github.com/Oneledger/protocol/action"
	govact "github.com/Oneledger/protocol/action/governance"
	"github.com/Oneledger/protocol/data/governance"
)

func txPropCreateCfg(u Key, id string, update string, funding action.Amount, fundDL int64, memo string) []byte {
	return mkTx(action.PROPOSAL_CREATE, govact.CreateProposal{ProposalID: propID(id), ProposalType: governance.ProposalTypeConfigUpdate, Headline: "h", Description: "d " + id, Proposer: u.Addr,
		InitialFunding: funding, FundingDeadline: fundDL, FundingGoal: amt("10000000000"), VotingDeadline: fundDL + 12, PassPercentage: 51, ConfigUpdate: update}, GAS, memo, u)
}

type scBuilder struct {
	h *History
	n int
}

func (s *scBuilder) memo() string { s.n++; return fmt.Sprintf("sc%d", s.n) }
func (s *scBuilder) block(txs [][]byte, descr ...string) {
	s.h.Blocks = append(s.h.Blocks, BlockIn{Txs: txs, Absent: map[int]bool{}})
	d := make([]string, len(txs))
	copy(d, descr)
	for i := range d {
		if d[i] == "" {
			d[i] = "scenario"
		}
	}
	s.h.Descr = append(s.h.Descr, d)
}
func (s *scBuilder) empty(n int) {
	for i := 0; i < n; i++ {
		s.block(nil)
	}
}

var scenarioNames = []string{"govupdate", "alleg2", "govexpire", "stakecycle", "olvmmix", "ethlock", "bidflow", "oddfields", "releasecycle", "govstaking"}

// the genesis variant a scenario needs
func scenarioGenesis(name string) string {
	if name == "ethlock" {
		return "eth"
	}
	if name == "govstaking" {
		return "prodgov"
	}
	return "default"
}

func scenarioHistory(name string, w *World) *History {
	s := &scBuilder{h: &History{Name: name}}
	GAS = 1000000
	u0, u1, u2 := w.Users[0], w.Users[1], w.Users[2]
	switch name {
	case "govupdate":
		s.empty(2) // validators are recorded as active from the end of block 2
		// create two config-update proposals and a general one
		s.block([][]byte{
			txPropCreateCfg(u0, "cfgfee", "feeOption.minFeeDecimal:8", oltAmt("1000000000"), 10, s.memo()),
			txPropCreateCfg(u1, "cfgons", "onsOptions.perBlockFees:200000000000000", oltAmt("1000000000"), 10, s.memo()),
			txPropCreate(u2, "gen1", governance.ProposalTypeGeneral, oltAmt("1000000000"), 10, 0, s.memo()),
		}, "prop create cfgfee", "prop create cfgons", "prop create gen1")
		// block 2: fund to the goal -> voting
		s.block([][]byte{
			txPropFund(u1, "cfgfee", oltAmt("9000000000"), s.memo()),
			txPropFund(u2, "cfgons", oltAmt("9000000000"), s.memo()),
			txPropFund(u0, "gen1", oltAmt("9000000000"), s.memo()),
			txDomainCreate(u0, "before.ol", oltAmt("1002000000000000000000"), s.memo()),
		}, "prop fund", "prop fund", "prop fund", "domain create")
		// refused governance transactions in a row, first in their block: funding an unknown proposal, then the id of
		// an ACTIVE proposal created again by somebody else (each must be refused whatever precedes it)
		s.block([][]byte{
			txPropFund(u2, "nosuchprop", oltAmt("1000"), s.memo()),
			txPropCreate(u1, "gen1", governance.ProposalTypeGeneral, oltAmt("1000000000"), 12, 0, s.memo()),
		}, "prop fund unknown", "prop create duplicate-id")
		s.block([][]byte{
			txPropVote(w.Vals[0], "nosuchprop", governance.OPIN_POSITIVE, s.memo()),
			txPropCreateCfg(u2, "cfgfee", "feeOption.minFeeDecimal:7", oltAmt("1000000000"), 12, s.memo()),
		}, "prop vote unknown", "prop create duplicate-id")
		// block 3: all validators vote yes on the config updates, no on the general one
		txs := [][]byte{}
		for _, v := range w.Vals {
			txs = append(txs, txPropVote(v, "cfgfee", governance.OPIN_POSITIVE, s.memo()))
			txs = append(txs, txPropVote(v, "cfgons", governance.OPIN_POSITIVE, s.memo()))
			txs = append(txs, txPropVote(v, "gen1", governance.OPIN_NEGATIVE, s.memo()))
		}
		s.block(txs, "prop vote")
		// finalisation is queued at BeginBlock and executed at EndBlock of the next block: transactions of that
		// block still run under the old options (a payment at the old minimal fee price is accepted)
		s.block([][]byte{txSend(u2, u0.Addr, oltAmt("3000000000000"), s.memo())}, "send")
		s.empty(1)
		// activity that depends on the new options
		s.block([][]byte{
			txDomainCreate(u1, "after.ol", oltAmt("1002000000000000000000"), s.memo()),
			txSend(u0, u1.Addr, oltAmt("1000000000000"), s.memo()),
			txDomainRenew(u0, "before.ol", oltAmt("100000000000000000"), s.memo()),
		}, "domain create", "send", "domain renew")
		s.empty(2)
		s.block([][]byte{txSend(u1, u2.Addr, oltAmt("5000000000000"), s.memo())}, "send")
		s.empty(1)
	case "alleg2":
		v0, v1, v2 := w.Vals[0], w.Vals[1], w.Vals[2]
		s.empty(5) // past blockVotesDiff
		s.block([][]byte{
			txAllegation(v0, "ra", v1.Val.Addr, 6, s.memo()),
			txAllegation(v0, "rb", v2.Val.Addr, 6, s.memo()),
		}, "allegation ra", "allegation rb")
		s.block([][]byte{
			txAllegationVote(v0, "ra", 1, s.memo()), txAllegationVote(v2, "ra", 1, s.memo()),
			txAllegationVote(v0, "rb", 1, s.memo()), txAllegationVote(v1, "rb", 1, s.memo()),
		}, "allegation vote", "allegation vote", "allegation vote", "allegation vote")
		s.empty(2)
		s.block([][]byte{txUnstake(v1, oltAmt("10"), s.memo()), txStake(v2, oltAmt("10"), s.memo()), txRelease(v1, s.memo())}, "unstake frozen", "stake frozen", "release")
		s.empty(3)
		s.block([][]byte{txRelease(v2, s.memo()), txSend(u0, u1.Addr, oltAmt("1000000000000"), s.memo())}, "release", "send")
		s.empty(3)
	case "oddfields":
		// well-signed transactions whose optional or free-form fields are EMPTY or odd: what a handler or a store
		// fills in for a missing value (an id, a name, a memo, a uri) must be the same on every node and every run
		v0, v1, v2 := w.Vals[0], w.Vals[1], w.Vals[2]
		s.empty(5)
		s.block([][]byte{
			txAllegation(v0, "", v1.Val.Addr, 6, s.memo()), // no request id
			txDomainCreate(u0, "odd.ol", oltAmt("1002000000000000000000"), ""),
			txSend(u1, u2.Addr, oltAmt("1000000000000"), ""),
			txPropCreate(u2, "", governance.ProposalTypeGeneral, oltAmt("1000000000"), 30, 0, s.memo()),
		}, "allegation empty-id", "domain create empty-memo", "send empty-memo", "prop create empty-id")
		s.block([][]byte{
			txAllegationVote(v0, "", 1, s.memo()), txAllegationVote(v2, "", 1, s.memo()),
		}, "allegation vote empty-id", "allegation vote empty-id")
		s.empty(3)
		s.block([][]byte{txRelease(v1, s.memo()), txSend(u0, u1.Addr, oltAmt("1000000000000"), s.memo())}, "release", "send")
		s.empty(2)
	case "releasecycle":
		// a validator is convicted, its release time passes (a block two days later), and it is released only some
		// blocks after that: in between, its RELEASE is valid but not yet delivered (what a mempool holds)
		v0, v1, v2 := w.Vals[0], w.Vals[1], w.Vals[2]
		s.empty(5)
		s.block([][]byte{txAllegation(v0, "rc", v1.Val.Addr, 6, s.memo())}, "allegation rc")
		s.block([][]byte{txAllegationVote(v0, "rc", 1, s.memo()), txAllegationVote(v2, "rc", 1, s.memo())}, "allegation vote", "allegation vote")
		s.empty(2)
		s.block([][]byte{txRelease(v1, s.memo())}, "release early")
		s.h.Blocks = append(s.h.Blocks, BlockIn{Absent: map[int]bool{}, DT: 2*86400 + 30})
		s.h.Descr = append(s.h.Descr, []string{})
		s.block([][]byte{txSend(u0, u1.Addr, oltAmt("1000000000000"), s.memo())}, "send")
		s.empty(1)
		s.block([][]byte{txRelease(v1, s.memo()), txSend(u1, u2.Addr, oltAmt("1000000000000"), s.memo())}, "release", "send")
		s.empty(2)
		s.block([][]byte{txStake(v1, oltAmt("10"), s.memo()), txSend(u0, u1.Addr, oltAmt("1000000000000"), s.memo())}, "stake", "send")
		s.empty(3)
	case "govstaking":
		// two configuration updates of the STAKING options finalised a few blocks apart (what a process remembers
		// from the first one — a height, a copy — must not shape how the second one is written), with staking traffic
		mkCfg := func(u Key, id, update string) []byte {
			return mkTx(action.PROPOSAL_CREATE, govact.CreateProposal{ProposalID: propID(id), ProposalType: governance.ProposalTypeConfigUpdate, Headline: "h", Description: "d " + id,
				Proposer: u.Addr, InitialFunding: oltAmt("1000000000"), FundingDeadline: 200, FundingGoal: amt("10000000000"), VotingDeadline: 10200, PassPercentage: 51, ConfigUpdate: update}, GAS, s.memo(), u)
		}
		votes := func(id string) [][]byte {
			txs := [][]byte{}
			for _, v := range w.Vals {
				txs = append(txs, txPropVote(v, id, governance.OPIN_POSITIVE, s.memo()))
			}
			return txs
		}
		s.empty(2)
		s.block([][]byte{mkCfg(u0, "gs1", "stakingOptions.topValidatorCount:9"), mkCfg(u1, "gs2", "stakingOptions.maturityTime:150000"),
			mkCfg(u2, "gs3", "stakingOptions.minSelfDelegationAmount:600000")}, "prop create cfg", "prop create cfg", "prop create cfg")
		s.block([][]byte{txPropFund(u1, "gs1", oltAmt("9000000000"), s.memo()), txPropFund(u2, "gs2", oltAmt("9000000000"), s.memo()),
			txPropFund(u0, "gs3", oltAmt("9000000000"), s.memo())}, "prop fund", "prop fund", "prop fund")
		s.block(votes("gs1"), "prop vote")
		s.block([][]byte{txUnstake(w.Vals[1], oltAmt("1000"), s.memo())}, "unstake")
		s.empty(2)
		s.block(votes("gs2"), "prop vote")
		s.block([][]byte{txUnstake(w.Vals[2], oltAmt("1000"), s.memo())}, "unstake")
		s.empty(2)
		s.block(votes("gs3"), "prop vote")
		s.empty(3)
		s.block([][]byte{txUnstake(w.Vals[1], oltAmt("500"), s.memo()), txStake(w.Extra[0], oltAmt("2000000"), s.memo())}, "unstake", "stake")
		s.empty(2)
	case "govexpire":
		s.empty(2)
		s.block([][]byte{txPropCreate(u0, "exp1", governance.ProposalTypeGeneral, oltAmt("1000000000"), 7, 0, s.memo()),
			txPropCreate(u1, "exp2", governance.ProposalTypeCodeChange, oltAmt("2000000000"), 6, 0, s.memo())}, "prop create", "prop create")
		s.block([][]byte{txPropFund(u1, "exp1", oltAmt("9000000000"), s.memo())}, "prop fund")
		s.block([][]byte{txPropVote(w.Vals[0], "exp1", governance.OPIN_POSITIVE, s.memo())}, "prop vote")
		s.empty(3)
		s.block([][]byte{txPropWithdraw(u1, "exp2", oltAmt("2000000000"), u1.Addr, s.memo())}, "prop withdraw")
		s.empty(12) // past the voting deadline: expiry queued and executed
		s.block([][]byte{txPropWithdraw(u1, "exp1", oltAmt("5"), u1.Addr, s.memo()), txPropWithdraw(u1, "exp2", oltAmt("2000000000"), u1.Addr, s.memo())}, "prop withdraw", "prop withdraw")
		s.empty(2)
	case "stakecycle":
		e0 := w.Extra[0]
		v1 := w.Vals[1]
		s.block([][]byte{txStake(e0, oltAmt("2000000"), s.memo()), txDelegate(u0, oltAmt("250000000000000000"), s.memo())}, "stake", "delegate")
		s.empty(2)
		s.block([][]byte{txUnstake(v1, oltAmt("1000"), s.memo()), txUndelegate(u0, oltAmt("1000000000"), s.memo())}, "unstake", "undelegate")
		s.empty(1)
		s.block([][]byte{txUnstake(e0, oltAmt("500"), s.memo()), txWithdraw(v1, oltAmt("1000"), s.memo())}, "unstake", "withdraw early")
		s.empty(2)
		s.block([][]byte{txWithdraw(v1, oltAmt("1000"), s.memo()), txDelegWithdrawRewards(u0, oltAmt("7"), s.memo())}, "withdraw", "deleg withdraw rewards")
		s.empty(2)
		s.block([][]byte{txWithdraw(e0, oltAmt("500"), s.memo()), txWithdrawReward(v1, oltAmt("1000"), s.memo())}, "withdraw", "withdraw validator reward")
		s.empty(4)
	case "olvmmix":
		// native and OLVM transactions touching the same accounts inside one block, with a
		// failing OLVM transaction (nonce ahead) in front, a reverting creation, and re-funding
		e0, e1 := w.Eth[0], w.Eth[1]
		a0, a1 := e0.Addr, e1.Addr
		s.block([][]byte{txOLVM(e0, &a1, 0, "1000000000000", 30000, nil), txSend(u0, a0, oltAmt("7000000000000"), s.memo())}, "olvm transfer", "send")
		s.block([][]byte{
			txOLVM(e0, &a1, 5, "1000000000000", 30000, nil), // nonce ahead: fails after loading the sender
			txSend(u1, a0, oltAmt("500000000000000000000"), s.memo()),
			txOLVM(e0, &u2.Addr, 1, "2000000000000", 30000, nil),
			txOLVM(e1, nil, 0, "0", 200000, c17InitRevert),
			txSend(u2, a1, oltAmt("3000000000000"), s.memo()),
			txOLVM(e1, &a0, 1, "4000000000000", 30000, nil),
		}, "olvmgap nonce ahead", "send", "olvm transfer", "olvmcreate reverting", "send", "olvm transfer")
		s.empty(1)
		s.block([][]byte{txOLVM(e1, nil, 2, "0", 200000, c17InitStore), txOLVM(e0, &a1, 2, "1", 20000, nil), txOLVM(e0, &a1, 2, "1", 30000, nil)}, "olvmcreate", "olvm lowgas", "olvm transfer")
		s.empty(2)
	case "ethlock":
		// an ETH lock whose finality is reported by the witnesses one after the other (the node of a
		// replica is, or is not, one of them), the mint, a redeem of part of it and its reports
		s.empty(2)
		wits := append([]ValSpec{}, w.Vals...)
		sort.Slice(wits, func(i, j int) bool { return bytes.Compare(wits[i].Val.Addr, wits[j].Val.Addr) < 0 })
		report := func(ethTx []byte, locker Key) {
			var tn ethchaindrv2.TrackerName
			tn.SetBytes(ethcommon.BytesToHash(ethTx).Bytes())
			for i, v := range wits {
				m := &acteth.ReportFinality{TrackerName: tn, Locker: locker.Addr, ValidatorAddress: v.Val.Addr, VoteIndex: int64(i), Success: true}
				s.block([][]byte{mkTx(action.ETH_REPORT_FINALITY_MINT, m, GAS, s.memo(), v.Val), txSend(u1, u2.Addr, oltAmt("1000"), s.memo())}, fmt.Sprintf("ethreport witness %d", i), "send")
				s.empty(1)
			}
		}
		lock := c15LockBytes(big.NewInt(500), c15Contract, c15LockData, 1, c15S(1))
		s.block([][]byte{mkTx(action.ETH_LOCK, acteth.Lock{Locker: u0.Addr, ETHTxn: lock}, GAS, s.memo(), u0)}, "ethlock")
		s.empty(1)
		report(lock, u0)
		s.empty(2)
		redeem := c15RedeemBytes(big.NewInt(200), 2)
		s.block([][]byte{mkTx(action.ETH_REDEEM, acteth.Redeem{Owner: u0.Addr, To: ethcommon.BytesToAddress(u0.Addr), ETHTxn: redeem}, GAS, s.memo(), u0),
			mkTx(action.ETH_LOCK, acteth.Lock{Locker: u1.Addr, ETHTxn: lock}, GAS, s.memo(), u1)}, "ethredeem", "ethlock duplicate")
		s.empty(1)
		report(redeem, u0)
		s.empty(3)
	case "bidflow":
		// the bid external app: conversations about ONS domains and the example asset through every
		// transition — counter offer, further offer, accept / reject by either side, cancel, the public
		// expire transaction, and expiry through the block hooks (queued at BeginBlock, internal
		// transaction at EndBlock), with refused transactions of every kind in between
		u3, u4 := w.Users[3], w.Users[4]
		o := func(x string) action.Amount { return oltAmt(x + "000000000000000000") }
		dprice := oltAmt("1002000000000000000000")
		s.empty(2)
		// height 3
		s.block([][]byte{txDomainCreate(u0, "bf1.ol", dprice, s.memo()), txDomainCreate(u0, "bf2.ol", dprice, s.memo()),
			txDomainCreate(u0, "bf3.ol", dprice, s.memo()), txDomainCreate(u1, "bf4.ol", dprice, s.memo())}, "domain create", "domain create", "domain create", "domain create")
		c := bidflowConvs(w)
		near := bidBlockTime(11) + 1 // passes between the blocks 11 and 12
		// height 4: eight conversations, and refused attempts
		s.block([][]byte{
			txBidCreate(u1, u0.Addr, "bf1.ol", bidOns, o("5"), bidFar, s.memo()),
			txBidCreate(u2, u0.Addr, "bf1.ol", bidOns, o("3"), bidFar, s.memo()),
			txBidCreate(u3, u0.Addr, "bf2.ol", bidOns, o("4"), bidFar, s.memo()),
			txBidCreate(u2, u1.Addr, "bf4.ol", bidOns, o("6"), bidFar, s.memo()),
			txBidCreate(u4, u0.Addr, "bf3.ol", bidOns, o("2"), near, s.memo()),
			txBidCreate(u3, u0.Addr, "thing", bidExample, o("2"), near, s.memo()),
			txBidCreate(u3, u0.Addr, "bf1.ol", bidOns, o("1"), bidFar, s.memo()),
			txBidCreate(u4, u0.Addr, "thing2", bidExample, o("1"), near, s.memo()),
			txBidCreate(u1, u0.Addr, "bf1.ol", bidOns, o("6"), bidFar, s.memo()),                                 // the same conversation again
			txBidCreate(u1, u0.Addr, "bf2.ol", bidOns, o("6"), bidBlockTime(3), s.memo()),                        // deadline in the past
			txBidCreate(u1, u0.Addr, "nosuch.ol", bidOns, o("6"), bidFar, s.memo()),                              // no such domain
			txBidCreate(u1, u2.Addr, "bf2.ol", bidOns, o("6"), bidFar, s.memo()),                                 // not the owner
			txBidCreate(u1, u0.Addr, "bf3.ol", bidOns, oltAmt("9000000000000000000000000000"), bidFar, s.memo()), // more than the bidder has
		}, "bidcreate c1", "bidcreate c2", "bidcreate c3", "bidcreate c4", "bidcreate c5 near", "bidcreate c6 example near", "bidcreate c7", "bidcreate c8 example near",
			"bidcreate duplicate", "bidcreate past", "bidcreate nodomain", "bidcreate notowner", "bidcreate toomuch")
		// height 5: counter offers
		s.block([][]byte{
			txBidCounter(u0, c[1], o("9"), s.memo()), txBidCounter(u0, c[2], o("8"), s.memo()), txBidCounter(u0, c[6], o("9"), s.memo()),
			txBidCounter(u2, c[3], o("9"), s.memo()),          // not the owner
			txBidCounter(u0, c[3], o("3"), s.memo()),          // not above the bid
			txBidOwnerDecision(u0, c[1], bidAccept, s.memo()), // no bid offer is active any more
			txBidCreate(u3, u0.Addr, "bf2.ol", bidOns, o("4"), bidFar, s.memo()), // c3 is active in the committed state
			txSend(u2, u1.Addr, oltAmt("1000000000000"), s.memo()),
		}, "bidcounter c1", "bidcounter c2", "bidcounter c6", "bidcounter notowner", "bidcounter low", "bidownerdecision nobid", "bidcreate duplicate-committed", "send")
		// height 6: further offers
		s.block([][]byte{
			txBidOffer(u1, c[1], o("7"), s.memo()),
			txBidOffer(u2, c[2], o("8"), s.memo()),             // not below the counter offer
			txBidOffer(u3, c[3], o("5"), s.memo()),             // no counter offer to answer
			txBidBidderDecision(u1, c[1], bidAccept, s.memo()), // no counter offer is active any more
		}, "bidoffer c1", "bidoffer high", "bidoffer nocounter", "bidbidderdecision nocounter")
		// height 7
		s.block([][]byte{txBidCounter(u0, c[1], o("8"), s.memo()), txBidBidderDecision(u2, c[2], bidReject, s.memo()), txSend(u0, u1.Addr, oltAmt("1000000000000"), s.memo())},
			"bidcounter c1", "bidbidderdecision reject c2", "send")
		// height 8: the bidder accepts (bf1.ol changes hands)
		s.block([][]byte{
			txBidBidderDecision(u1, c[1], 3, s.memo()),         // no such decision
			txBidBidderDecision(u2, c[1], bidAccept, s.memo()), // not the bidder
			txBidBidderDecision(u1, c[1], bidAccept, s.memo()),
			txBidBidderDecision(u2, c[2], bidReject, s.memo()), // closed (rejected)
			txBidBidderDecision(u1, c[1], bidAccept, s.memo()), // closed (succeeded)
		}, "bidbidderdecision badvalue", "bidbidderdecision notbidder", "bidbidderdecision accept c1", "bidbidderdecision closed", "bidbidderdecision closed")
		// height 9: the owner accepts (bf2.ol changes hands) and rejects; bf1.ol has another owner now
		s.block([][]byte{
			txBidOwnerDecision(u0, c[3], 0, s.memo()),
			txBidOwnerDecision(u0, c[3], bidAccept, s.memo()),
			txBidOwnerDecision(u1, c[4], bidReject, s.memo()),
			txBidOwnerDecision(u0, c[7], bidAccept, s.memo()),                    // the asset is no longer the owner's
			txBidCreate(u2, u1.Addr, "bf4.ol", bidOns, o("2"), bidFar, s.memo()), // a new conversation after the rejected one (c9)
			txDomainUpdate(u1, "bf1.ol", u1.Addr, true, s.memo()),
			txBidCreate(u3, u1.Addr, "bf4.ol", bidOns, o("1"), bidFar, s.memo()), // c11
		}, "bidownerdecision badvalue", "bidownerdecision accept c3", "bidownerdecision reject c4", "bidownerdecision staleasset", "bidcreate c9", "domain update", "bidcreate c11")
		// height 10: cancel, and the public expire transaction on a conversation that has not expired
		s.block([][]byte{
			txBidCancel(u4, c[7], s.memo()), // not the bidder
			txBidCancel(u3, c[7], s.memo()),
			txBidCancel(u3, c[7], s.memo()), // closed
			txBidExpire(u4, c[9], s.memo()),
			txBidCounter(u1, c[9], o("9"), s.memo()), // expired
		}, "bidcancel notbidder", "bidcancel c7", "bidcancel closed", "bidexpire public c9", "bidcounter expired")
		// height 11: the last bid transaction before the block in which conversations expire CLOSES one (the
		// conversation store object, shared by all connections, was last pointed at the store of cancelled ones)
		s.block([][]byte{txBidCancel(u3, c[11], s.memo())}, "bidcancel c11")
		// height 12: c5, c6 and c8 are past their deadline: queued at BeginBlock, expired at EndBlock; c8 is
		// expired by a public transaction of this very block first (the internal one then fails)
		s.block([][]byte{
			txBidCancel(u4, c[5], s.memo()),                    // past the deadline
			txBidCounter(u0, c[5], o("9"), s.memo()),           // past the deadline
			txBidBidderDecision(u3, c[6], bidAccept, s.memo()), // past the deadline
			txBidExpire(u2, c[8], s.memo()),
			txSend(u1, u2.Addr, oltAmt("1000000000000"), s.memo()),
		}, "bidcancel late", "bidcounter late", "bidbidderdecision late", "bidexpire public c8", "send")
		s.empty(1)
		// height 14: everything is closed; the unlocked amounts can be spent
		s.block([][]byte{
			txBidCancel(u4, c[5], s.memo()), txBidExpire(u2, c[6], s.memo()),
			txBidCreate(u4, u0.Addr, "bf3.ol", bidOns, o("3"), bidFar, s.memo()), // a new conversation about the same asset (c10)
			txSend(u4, u0.Addr, o("900000"), s.memo()),
		}, "bidcancel closed", "bidexpire closed", "bidcreate c10", "send")
		s.empty(2)
	default:
		panic("unknown scenario " + name)
	}
	return s.h
}

// bidflowConvs: the ids of the conversations of scenario "bidflow" (index = the number in its descriptions)
func bidflowConvs(w *World) []string {
	u0, u1, u2, u3, u4 := w.Users[0], w.Users[1], w.Users[2], w.Users[3], w.Users[4]
	return []string{"",
		bidConvID(u0.Addr, "bf1.ol", u1.Addr, 4), bidConvID(u0.Addr, "bf1.ol", u2.Addr, 4), bidConvID(u0.Addr, "bf2.ol", u3.Addr, 4),
		bidConvID(u1.Addr, "bf4.ol", u2.Addr, 4), bidConvID(u0.Addr, "bf3.ol", u4.Addr, 4), bidConvID(u0.Addr, "thing", u3.Addr, 4),
		bidConvID(u0.Addr, "bf1.ol", u3.Addr, 4), bidConvID(u0.Addr, "thing2", u4.Addr, 4), bidConvID(u1.Addr, "bf4.ol", u2.Addr, 9),
		bidConvID(u0.Addr, "bf3.ol", u4.Addr, 14), bidConvID(u1.Addr, "bf4.ol", u3.Addr, 9)}
}

func init() { subcmds["scenario"] = scenarioMain }

// scenario: run one directed history and print what happened (development aid)
func scenarioMain(args []string) int {
	fs := flag.NewFlagSet("scenario", flag.ExitOnError)
	name := fs.String("name", "govupdate", "scenario")
	keys := fs.String("keys", "", "print committed keys with this prefix at the end")
	list := fs.Bool("list", false, "print the scenario names")
	cfgkeys := fs.Bool("cfgkeys", false, "print the keys of the governance update functions registered in the application")
	fs.Parse(args)
	if *cfgkeys {
		ks := []string{}
		for k := range action.NewGovUpdate().GovernanceUpdateFunction {
			ks = append(ks, k)
		}
		sort.Strings(ks)
		for _, k := range ks {
			say("%s\n", k)
		}
		return 0
	}
	if *list {
		for _, n := range scenarioNames {
			say("%s\n", n)
		}
		return 0
	}
	w := NewWorld(3, 5, 2)
	h := scenarioHistory(*name, w)
	rep := NewReplica(genesisVariant(w, scenarioGenesis(*name)), ReplicaOpts{NodeVal: w.Vals[0].Val})
	defer rep.Close()
	rep.InitChain()
	for i := range h.Blocks {
		res := rep.RunBlock(&h.Blocks[i])
		for j, t := range res.Txs {
			lg := t.Log
			if len(lg) > 140 {
				lg = lg[:140]
			}
			say("h%d tx%d %-28s code=%d gas=%d %s\n", res.Height, j, h.Descr[i][j], t.Code, t.GasUsed, lg)
		}
		if len(res.Updates) > 0 {
			say("h%d updates %v\n", res.Height, res.Updates)
		}
	}
	say("tmerror: %q\n", rep.TMError)
	if *keys != "" {
		d := rep.Dump()
		for _, k := range sortedKeys(d) {
			if len(k) >= len(*keys) && k[:len(*keys)] == *keys {
				v := d[k]
				if len(v) > 400 {
					v = v[:400]
				}
				say("%q = %q\n", k, v)
			}
		}
	}
	return 0
}
