package main

// Directed histories: multi-step situations the random generator reaches too rarely
// (a configuration-update proposal that passes and is finalised; two allegation requests
// decided in the same block; a proposal that expires; unstake → maturity → withdraw).

import (
	"bytes"
	"flag"
	"fmt"
	"math/big"
	"sort"

	ethcommon "github.com/ethereum/go-ethereum/common"

	acteth "github.com/Oneledger/protocol/action/eth"
	ethchaindrv2 "github.com/Oneledger/protocol/chains/ethereum"

	"github.com/Oneledger/protocol/action"
	govact "github.com/Oneledger/protocol/action/governance"
	"github.com/Oneledger/protocol/data/governance"
)

func txPropCreateCfg(u Key, id string, update string, funding action.Amount, fundDL int64, memo string) []byte {
	return mkTx(action.PROPOSAL_CREATE, govact.CreateProposal{ProposalID: propID(id), ProposalType: governance.ProposalTypeConfigUpdate, Headline: "h", Description: "d " + id, Proposer: u.Addr,
		InitialFunding: funding, FundingDeadline: fundDL, FundingGoal: amt("10000000000"), VotingDeadline: fundDL + 12, PassPercentage: 51, ConfigUpdate: update}, GAS, memo, u)
}

type scBuilder struct {
	h *History
	n int
}

func (s *scBuilder) memo() string { s.n++; return fmt.Sprintf("sc%d", s.n) }
func (s *scBuilder) block(txs [][]byte, descr ...string) {
	s.h.Blocks = append(s.h.Blocks, BlockIn{Txs: txs, Absent: map[int]bool{}})
	d := make([]string, len(txs))
	copy(d, descr)
	for i := range d {
		if d[i] == "" {
			d[i] = "scenario"
		}
	}
	s.h.Descr = append(s.h.Descr, d)
}
func (s *scBuilder) empty(n int) {
	for i := 0; i < n; i++ {
		s.block(nil)
	}
}

var scenarioNames = []string{"govupdate", "alleg2", "govexpire", "stakecycle", "olvmmix", "ethlock"}

// the genesis variant a scenario needs
func scenarioGenesis(name string) string {
	if name == "ethlock" {
		return "eth"
	}
	return "default"
}

func scenarioHistory(name string, w *World) *History {
	s := &scBuilder{h: &History{Name: name}}
	GAS = 1000000
	u0, u1, u2 := w.Users[0], w.Users[1], w.Users[2]
	switch name {
	case "govupdate":
		s.empty(2) // validators are recorded as active from the end of block 2
		// create two config-update proposals and a general one
		s.block([][]byte{
			txPropCreateCfg(u0, "cfgfee", "feeOption.minFeeDecimal:8", oltAmt("1000000000"), 10, s.memo()),
			txPropCreateCfg(u1, "cfgons", "onsOptions.perBlockFees:200000000000000", oltAmt("1000000000"), 10, s.memo()),
			txPropCreate(u2, "gen1", governance.ProposalTypeGeneral, oltAmt("1000000000"), 10, 0, s.memo()),
		}, "prop create cfgfee", "prop create cfgons", "prop create gen1")
		// block 2: fund to the goal -> voting
		s.block([][]byte{
			txPropFund(u1, "cfgfee", oltAmt("9000000000"), s.memo()),
			txPropFund(u2, "cfgons", oltAmt("9000000000"), s.memo()),
			txPropFund(u0, "gen1", oltAmt("9000000000"), s.memo()),
			txDomainCreate(u0, "before.ol", oltAmt("1002000000000000000000"), s.memo()),
		}, "prop fund", "prop fund", "prop fund", "domain create")
		// block 3: all validators vote yes on the config updates, no on the general one
		txs := [][]byte{}
		for _, v := range w.Vals {
			txs = append(txs, txPropVote(v, "cfgfee", governance.OPIN_POSITIVE, s.memo()))
			txs = append(txs, txPropVote(v, "cfgons", governance.OPIN_POSITIVE, s.memo()))
			txs = append(txs, txPropVote(v, "gen1", governance.OPIN_NEGATIVE, s.memo()))
		}
		s.block(txs, "prop vote")
		s.empty(2) // finalisation is queued at BeginBlock and executed at EndBlock
		// activity that depends on the new options
		s.block([][]byte{
			txDomainCreate(u1, "after.ol", oltAmt("1002000000000000000000"), s.memo()),
			txSend(u0, u1.Addr, oltAmt("1000000000000"), s.memo()),
			txDomainRenew(u0, "before.ol", oltAmt("100000000000000000"), s.memo()),
		}, "domain create", "send", "domain renew")
		s.empty(2)
		s.block([][]byte{txSend(u1, u2.Addr, oltAmt("5000000000000"), s.memo())}, "send")
		s.empty(1)
	case "alleg2":
		v0, v1, v2 := w.Vals[0], w.Vals[1], w.Vals[2]
		s.empty(5) // past blockVotesDiff
		s.block([][]byte{
			txAllegation(v0, "ra", v1.Val.Addr, 6, s.memo()),
			txAllegation(v0, "rb", v2.Val.Addr, 6, s.memo()),
		}, "allegation ra", "allegation rb")
		s.block([][]byte{
			txAllegationVote(v0, "ra", 1, s.memo()), txAllegationVote(v2, "ra", 1, s.memo()),
			txAllegationVote(v0, "rb", 1, s.memo()), txAllegationVote(v1, "rb", 1, s.memo()),
		}, "allegation vote", "allegation vote", "allegation vote", "allegation vote")
		s.empty(2)
		s.block([][]byte{txUnstake(v1, oltAmt("10"), s.memo()), txStake(v2, oltAmt("10"), s.memo()), txRelease(v1, s.memo())}, "unstake frozen", "stake frozen", "release")
		s.empty(3)
		s.block([][]byte{txRelease(v2, s.memo()), txSend(u0, u1.Addr, oltAmt("1000000000000"), s.memo())}, "release", "send")
		s.empty(3)
	case "govexpire":
		s.empty(2)
		s.block([][]byte{txPropCreate(u0, "exp1", governance.ProposalTypeGeneral, oltAmt("1000000000"), 7, 0, s.memo()),
			txPropCreate(u1, "exp2", governance.ProposalTypeCodeChange, oltAmt("2000000000"), 6, 0, s.memo())}, "prop create", "prop create")
		s.block([][]byte{txPropFund(u1, "exp1", oltAmt("9000000000"), s.memo())}, "prop fund")
		s.block([][]byte{txPropVote(w.Vals[0], "exp1", governance.OPIN_POSITIVE, s.memo())}, "prop vote")
		s.empty(3)
		s.block([][]byte{txPropWithdraw(u1, "exp2", oltAmt("2000000000"), u1.Addr, s.memo())}, "prop withdraw")
		s.empty(12) // past the voting deadline: expiry queued and executed
		s.block([][]byte{txPropWithdraw(u1, "exp1", oltAmt("5"), u1.Addr, s.memo()), txPropWithdraw(u1, "exp2", oltAmt("2000000000"), u1.Addr, s.memo())}, "prop withdraw", "prop withdraw")
		s.empty(2)
	case "stakecycle":
		e0 := w.Extra[0]
		v1 := w.Vals[1]
		s.block([][]byte{txStake(e0, oltAmt("2000000"), s.memo()), txDelegate(u0, oltAmt("250000000000000000"), s.memo())}, "stake", "delegate")
		s.empty(2)
		s.block([][]byte{txUnstake(v1, oltAmt("1000"), s.memo()), txUndelegate(u0, oltAmt("1000000000"), s.memo())}, "unstake", "undelegate")
		s.empty(1)
		s.block([][]byte{txUnstake(e0, oltAmt("500"), s.memo()), txWithdraw(v1, oltAmt("1000"), s.memo())}, "unstake", "withdraw early")
		s.empty(2)
		s.block([][]byte{txWithdraw(v1, oltAmt("1000"), s.memo()), txDelegWithdrawRewards(u0, oltAmt("7"), s.memo())}, "withdraw", "deleg withdraw rewards")
		s.empty(2)
		s.block([][]byte{txWithdraw(e0, oltAmt("500"), s.memo()), txWithdrawReward(v1, oltAmt("1000"), s.memo())}, "withdraw", "withdraw validator reward")
		s.empty(4)
	case "olvmmix":
		// native and OLVM transactions touching the same accounts inside one block, with a
		// failing OLVM transaction (nonce ahead) in front, a reverting creation, and re-funding
		e0, e1 := w.Eth[0], w.Eth[1]
		a0, a1 := e0.Addr, e1.Addr
		s.block([][]byte{txOLVM(e0, &a1, 0, "1000000000000", 30000, nil), txSend(u0, a0, oltAmt("7000000000000"), s.memo())}, "olvm transfer", "send")
		s.block([][]byte{
			txOLVM(e0, &a1, 5, "1000000000000", 30000, nil), // nonce ahead: fails after loading the sender
			txSend(u1, a0, oltAmt("500000000000000000000"), s.memo()),
			txOLVM(e0, &u2.Addr, 1, "2000000000000", 30000, nil),
			txOLVM(e1, nil, 0, "0", 200000, c17InitRevert),
			txSend(u2, a1, oltAmt("3000000000000"), s.memo()),
			txOLVM(e1, &a0, 1, "4000000000000", 30000, nil),
		}, "olvmgap nonce ahead", "send", "olvm transfer", "olvmcreate reverting", "send", "olvm transfer")
		s.empty(1)
		s.block([][]byte{txOLVM(e1, nil, 2, "0", 200000, c17InitStore), txOLVM(e0, &a1, 2, "1", 20000, nil), txOLVM(e0, &a1, 2, "1", 30000, nil)}, "olvmcreate", "olvm lowgas", "olvm transfer")
		s.empty(2)
	case "ethlock":
		// an ETH lock whose finality is reported by the witnesses one after the other (the node of a
		// replica is, or is not, one of them), the mint, a redeem of part of it and its reports
		s.empty(2)
		wits := append([]ValSpec{}, w.Vals...)
		sort.Slice(wits, func(i, j int) bool { return bytes.Compare(wits[i].Val.Addr, wits[j].Val.Addr) < 0 })
		report := func(ethTx []byte, locker Key) {
			var tn ethchaindrv2.TrackerName
			tn.SetBytes(ethcommon.BytesToHash(ethTx).Bytes())
			for i, v := range wits {
				m := &acteth.ReportFinality{TrackerName: tn, Locker: locker.Addr, ValidatorAddress: v.Val.Addr, VoteIndex: int64(i), Success: true}
				s.block([][]byte{mkTx(action.ETH_REPORT_FINALITY_MINT, m, GAS, s.memo(), v.Val), txSend(u1, u2.Addr, oltAmt("1000"), s.memo())}, fmt.Sprintf("ethreport witness %d", i), "send")
				s.empty(1)
			}
		}
		lock := c15LockBytes(big.NewInt(500), c15Contract, c15LockData, 1, c15S(1))
		s.block([][]byte{mkTx(action.ETH_LOCK, acteth.Lock{Locker: u0.Addr, ETHTxn: lock}, GAS, s.memo(), u0)}, "ethlock")
		s.empty(1)
		report(lock, u0)
		s.empty(2)
		redeem := c15RedeemBytes(big.NewInt(200), 2)
		s.block([][]byte{mkTx(action.ETH_REDEEM, acteth.Redeem{Owner: u0.Addr, To: ethcommon.BytesToAddress(u0.Addr), ETHTxn: redeem}, GAS, s.memo(), u0),
			mkTx(action.ETH_LOCK, acteth.Lock{Locker: u1.Addr, ETHTxn: lock}, GAS, s.memo(), u1)}, "ethredeem", "ethlock duplicate")
		s.empty(1)
		report(redeem, u0)
		s.empty(3)
	default:
		panic("unknown scenario " + name)
	}
	return s.h
}

func init() { subcmds["scenario"] = scenarioMain }

// scenario: run one directed history and print what happened (development aid)
func scenarioMain(args []string) int {
	fs := flag.NewFlagSet("scenario", flag.ExitOnError)
	name := fs.String("name", "govupdate", "scenario")
	keys := fs.String("keys", "", "print committed keys with this prefix at the end")
	fs.Parse(args)
	w := NewWorld(3, 5, 2)
	h := scenarioHistory(*name, w)
	rep := NewReplica(genesisVariant(w, scenarioGenesis(*name)), ReplicaOpts{NodeVal: w.Vals[0].Val})
	defer rep.Close()
	rep.InitChain()
	for i := range h.Blocks {
		res := rep.RunBlock(&h.Blocks[i])
		for j, t := range res.Txs {
			lg := t.Log
			if len(lg) > 140 {
				lg = lg[:140]
			}
			say("h%d tx%d %-28s code=%d gas=%d %s\n", res.Height, j, h.Descr[i][j], t.Code, t.GasUsed, lg)
		}
		if len(res.Updates) > 0 {
			say("h%d updates %v\n", res.Height, res.Updates)
		}
	}
	say("tmerror: %q\n", rep.TMError)
	if *keys != "" {
		d := rep.Dump()
		for _, k := range sortedKeys(d) {
			if len(k) >= len(*keys) && k[:len(*keys)] == *keys {
				v := d[k]
				if len(v) > 400 {
					v = v[:400]
				}
				say("%q = %q\n", k, v)
			}
		}
	}
	return 0
}
