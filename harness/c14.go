package main

// c14: governance proposal lifecycle and funds.  Whole-application runs (Replica) of generated
// governance histories; per transaction ok/fail, per block the decoded proposal / vote / fund
// records, balances and fee pool; written as Coq cases for coq/theories/GovCheck.v.

import (
	"encoding/hex"
	"encoding/json"
	"flag"
	"fmt"
	"math/big"
	"math/rand"
	"os"
	"path/filepath"
	"sort"
	"strings"

	"github.com/Oneledger/protocol/action"
	govact "github.com/Oneledger/protocol/action/governance"
	"github.com/Oneledger/protocol/consensus"
	"github.com/Oneledger/protocol/data/balance"
	"github.com/Oneledger/protocol/data/evidence"
	"github.com/Oneledger/protocol/data/governance"
	"github.com/Oneledger/protocol/data/keys"
	"github.com/Oneledger/protocol/identity"
	"github.com/Oneledger/protocol/storage"
)

func init() { subcmds["c14"] = c14Main }

// genesis voting powers of the validators of the next run (nil = three validators of nearly equal power); validator 0
// stakes 1000 more in the warm-up block
var c14ValPowers []int64

func c14WithPowers(p []int64, f func() *c14Case) *c14Case {
	old := c14ValPowers
	c14ValPowers = p
	defer func() { c14ValPowers = old }()
	return f()
}

// currency named in the amount of the next create / fund / withdraw transaction
var c14Cur = "OLT"

func c14IsHex(id string) bool {
	for _, c := range []byte(id) {
		if !((c >= '0' && c <= '9') || (c >= 'a' && c <= 'f') || (c >= 'A' && c <= 'F')) {
			return false
		}
	}
	return true
}

func c14Amount(v string) action.Amount { return curAmt(c14Cur, v) }
func c14CurCode() int {
	switch c14Cur {
	case "OLT":
		return 0
	case "ETH":
		return 1
	case "":
		return 3
	}
	return 2
}

type c14World struct {
	w     *World
	accts []keys.Address // account index -> address
	names []string
	idx   map[string]int
}

const (
	c14NUsers = 6
	c14NVals  = 3
)

func c14NewWorld() *c14World {
	nv := c14NVals
	if c14ValPowers != nil {
		nv = len(c14ValPowers)
	}
	w := NewWorld(nv, c14NUsers, 1)
	for i := range c14ValPowers {
		w.Vals[i].Power = c14ValPowers[i]
	}
	cw := &c14World{w: w, idx: map[string]int{}}
	add := func(n string, a keys.Address) {
		cw.idx[a.String()] = len(cw.accts)
		cw.accts = append(cw.accts, a)
		cw.names = append(cw.names, n)
	}
	for i, u := range w.Users {
		add(fmt.Sprintf("user%d", i), u.Addr)
	}
	add("poor", w.Poor[0].Addr)
	for i, v := range w.Vals {
		add(fmt.Sprintf("stake%d", i), v.Stake.Addr)
	}
	for i, v := range w.Vals {
		add(fmt.Sprintf("val%d", i), v.Val.Addr)
	}
	add("bounty", keys.Address("oneledgerBountyProgram"))
	add("exec", keys.Address("executionCost"))
	add("xstake", w.Extra[0].Stake.Addr)
	add("xval", w.Extra[0].Val.Addr)
	return cw
}

func (cw *c14World) bountyIdx() int { return cw.idx[keys.Address("oneledgerBountyProgram").String()] }
func (cw *c14World) execIdx() int   { return cw.idx[keys.Address("executionCost").String()] }

var c14VDelta = map[int]int64{0: 3, 1: 4, 2: 5}
var c14FundDL = map[int]int64{0: 10, 1: 10, 2: 10}
var c14Pass = map[int]int{0: 51, 1: 60, 2: 67}
var c14Types = []governance.ProposalType{governance.ProposalTypeConfigUpdate, governance.ProposalTypeCodeChange, governance.ProposalTypeGeneral}

func (cw *c14World) genesis() *GenesisSpec {
	g := cw.w.Genesis()
	g.Customize = func(st *consensus.AppState) {
		d0 := governance.ProposalFundDistribution{Validators: 18, FeePool: 18, Burn: 18, ExecutionCost: 18, BountyPool: 10, ProposerReward: 18}
		d1 := governance.ProposalFundDistribution{Validators: 30.5, FeePool: 9.5, Burn: 20, ExecutionCost: 10, BountyPool: 20, ProposerReward: 10}
		d2 := governance.ProposalFundDistribution{Validators: 12.5, FeePool: 37.5, Burn: 0, ExecutionCost: 25, BountyPool: 12.5, ProposerReward: 12.5}
		mk := func(t int, p, f governance.ProposalFundDistribution) governance.ProposalOption {
			return governance.ProposalOption{InitialFunding: amt("1000000000"), FundingGoal: amt("10000000000"), FundingDeadline: c14FundDL[t], VotingDeadline: c14VDelta[t],
				PassPercentage: c14Pass[t], PassedFundDistribution: p, FailedFundDistribution: f, ProposalExecutionCost: "executionCost"}
		}
		st.Governance.StakingOptions.TopValidatorCount = 8
		// two users really own a registered non-OLT currency
		for _, u := range cw.w.Users[:2] {
			st.Balances = append(st.Balances, consensus.BalanceState{Address: u.Addr, Currency: "ETH", Amount: *amt("50000000000")})
		}
		st.Governance.PropOptions = governance.ProposalOptionSet{ConfigUpdate: mk(0, d0, d1), CodeChange: mk(1, d1, d2), General: mk(2, d2, d0), BountyProgramAddr: "oneledgerBountyProgram"}
	}
	return g
}

type c14Env struct {
	Opts    [3]c14Opts
	Active  [][2]int64 // account index, power
	Vals    []int
	Bounty  int
	Exec    int
	Keep    [][2]int
	CfgFail []int // ids held by the finalize-failed store after the step: their update function reported an error
}
type c14Opts struct {
	Init, Goal   string
	VDelta, Pass int64
	DPass, DFail [5]int64
}

type c14Op struct {
	Kind     string
	H        int64
	ID       int
	Ty       int
	A        int
	Amt      string
	Fdl, Vdl int64
	Goal     string
	Pass     int64
	CfgValid bool
	Opin     int
	Ben      int
	Env      int // index into the case's env table, -1 = none
	Payer    int
	Fee      string
	Ok       bool
	Descr    string
	Cur      int      // currency of the amount: 0 OLT, 1 ETH (registered), 2 unknown name, 3 empty
	Bals     []string // reload: balances of the new genesis per account index
}

type c14PObs struct {
	Stores, Status, Outcome, Type, Proposer int64
	Fdl, Vdl                                int64
	Goal                                    string
	Pass                                    int64
	Total                                   string
	Indiv                                   []string
	Votes                                   [][2]int64
}
type c14Obs struct {
	H       int64
	Props   []*c14PObs
	Bal     []string
	Pool    string
	Anom    bool
	Applied []bool
	Reload  bool
	Flows   [][2]string // per proposal: OLT paid in, OLT refunded (measured from OLT balance deltas)
}

type c14Case struct {
	Name  string
	NP    int
	Init  []string
	Pool  string
	Envs  []string // Coq terms
	Ops   []c14Op
	Obs   []c14Obs
	Notes map[string]interface{}
}

func c14Dist(d governance.ProposalFundDistribution) [5]int64 {
	// the expression of getPercentageCoin: int64(percentage * 10000)
	f := func(p float64) int64 { return int64(p * 10000) }
	return [5]int64{f(d.Validators), f(d.ProposerReward), f(d.BountyPool), f(d.ExecutionCost), f(d.Burn)}
}

type c14Run struct {
	cw       *c14World
	rep      *Replica
	c        *c14Case
	envIdx   map[string]int
	pids     []string // proposal index -> hex id
	nonce    int
	pubFin   bool              // a public PROPOSAL_FINALIZE succeeded in the current block
	nextID   string            // proposal id of the next create (empty = the usual sha256 hex id)
	lastID   string            // id used by the last create
	prod     bool              // genesis with production-range proposal options (option updates validate)
	cfg      map[int][2]string // config proposal index -> update key, value
	keyOwner map[string]int    // update key -> index of the last proposal created with it
	applied  map[int]bool      // config proposals whose value has been seen in force
	flowIn   map[int]*big.Int  // proposal index -> OLT paid in (measured)
	flowRef  map[int]*big.Int  // proposal index -> OLT refunded (measured)
}

func (r *c14Run) env() int { return r.intern(r.envRaw()) }

func (r *c14Run) envRaw() c14Env {
	st := r.rep.A.VerifDeliver()
	gs := governance.NewStore("g", st)
	po, err := gs.GetProposalOptions()
	must(err)
	e := c14Env{Bounty: r.cw.idx[keys.Address(po.BountyProgramAddr).String()], Exec: r.cw.idx[keys.Address(po.ConfigUpdate.ProposalExecutionCost).String()]}
	for i, o := range []governance.ProposalOption{po.ConfigUpdate, po.CodeChange, po.General} {
		e.Opts[i] = c14Opts{o.InitialFunding.String(), o.FundingGoal.String(), o.VotingDeadline, int64(o.PassPercentage), c14Dist(o.PassedFundDistribution), c14Dist(o.FailedFundDistribution)}
	}
	vs := identity.NewValidatorStore("v", "purged", st)
	es := evidence.NewEvidenceStore("es", st)
	all, err := vs.GetValidatorSet()
	must(err)
	for _, v := range all {
		e.Vals = append(e.Vals, r.acct(v.Address))
	}
	act, err := vs.GetActiveValidatorList(es)
	must(err)
	for _, v := range act {
		e.Active = append(e.Active, [2]int64{int64(r.acct(v.Address)), v.Power})
	}
	return e
}

// records of finalised proposals that are (still) present: what DeleteAllFunds did not reach
func (r *c14Run) survivors(view map[string]string) [][2]int {
	out := [][2]int{}
	for pi, id := range r.pids {
		if _, ok := view["propFinalized"+id]; !ok {
			continue
		}
		for ai := range r.cw.accts {
			if _, ok := view["propFunds_i_"+id+"_"+r.cw.accts[ai].String()]; ok {
				out = append(out, [2]int{pi, ai})
			}
		}
	}
	return out
}

func (r *c14Run) intern(e c14Env) int {
	s := c14CoqEnv(e)
	if i, ok := r.envIdx[s]; ok {
		return i
	}
	r.envIdx[s] = len(r.c.Envs)
	r.c.Envs = append(r.c.Envs, s)
	return len(r.c.Envs) - 1
}

func (r *c14Run) acct(a keys.Address) int {
	i, ok := r.cw.idx[a.String()]
	if !ok {
		panic("untracked account " + a.String())
	}
	return i
}

func c14Z(s string) string {
	if strings.HasPrefix(s, "-") {
		return "(" + s + ")"
	}
	return s
}
func c14Zi(i int64) string { return c14Z(fmt.Sprint(i)) }

func c14CoqEnv(e c14Env) string {
	opt := func(o c14Opts) string {
		d := func(x [5]int64) string {
			return fmt.Sprintf("(mkDist %s %s %s %s %s)", c14Zi(x[0]), c14Zi(x[1]), c14Zi(x[2]), c14Zi(x[3]), c14Zi(x[4]))
		}
		return fmt.Sprintf("(mkOpts %s %s %s %s %s %s)", c14Z(o.Init), c14Z(o.Goal), c14Zi(o.VDelta), c14Zi(o.Pass), d(o.DPass), d(o.DFail))
	}
	act := []string{}
	for _, a := range e.Active {
		act = append(act, fmt.Sprintf("(%d%%N, %s)", a[0], c14Zi(a[1])))
	}
	vals := []string{}
	for _, v := range e.Vals {
		vals = append(vals, fmt.Sprintf("%d%%N", v))
	}
	cf := []string{}
	for _, i := range e.CfgFail {
		cf = append(cf, fmt.Sprintf("%d%%N", i))
	}
	return fmt.Sprintf("mkEnv %s %s %s [%s] [%s] %d%%N %d%%N [%s]", opt(e.Opts[0]), opt(e.Opts[1]), opt(e.Opts[2]), strings.Join(act, "; "), strings.Join(vals, "; "), e.Bounty, e.Exec, strings.Join(cf, "; "))
}

func jsonAmt(v string) string {
	var s string
	if err := json.Unmarshal([]byte(v), &s); err != nil {
		return "0"
	}
	return s
}

const c14CfgBase = 100000000000000 // onsOptions.perBlockFees value of proposal i = base + 1 + i

func (r *c14Run) observe(m map[string]string) c14Obs {
	o := c14Obs{H: r.rep.H}
	na := len(r.cw.accts)
	prefixes := []string{"propActive", "propPassed", "propFailed", "propFinalized", "propFinalizeFailed"}
	for _, id := range r.pids {
		var po *c14PObs
		for bi, pf := range prefixes {
			v, ok := m[pf+id]
			if !ok {
				continue
			}
			if po == nil {
				var p governance.Proposal
				must(json.Unmarshal([]byte(v), &p))
				po = &c14PObs{Status: int64(p.Status) - 0x23, Type: int64(p.Type) - 0x20, Proposer: int64(r.acct(p.Proposer)),
					Fdl: p.FundingDeadline, Vdl: p.VotingDeadline, Goal: p.FundingGoal.String(), Pass: int64(p.PassPercentage)}
				switch p.Outcome {
				case governance.ProposalOutcomeInProgress:
					po.Outcome = 0
				case governance.ProposalOutcomeInsufficientFunds:
					po.Outcome = 1
				case governance.ProposalOutcomeInsufficientVotes:
					po.Outcome = 2
				case governance.ProposalOutcomeCompletedNo:
					po.Outcome = 3
				case governance.ProposalOutcomeCancelled:
					po.Outcome = 4
				case governance.ProposalOutcomeCompletedYes:
					po.Outcome = 5
				default:
					po.Outcome = 99
				}
			}
			po.Stores |= 1 << uint(bi)
		}
		if po != nil {
			if po.Stores&(po.Stores-1) != 0 {
				o.Anom = true
			}
			po.Total = "0"
			if v, ok := m["propFunds_t_"+id]; ok {
				po.Total = jsonAmt(v)
			}
			for ai := 0; ai < na; ai++ {
				iv := "-1"
				if v, ok := m["propFunds_i_"+id+"_"+r.cw.accts[ai].String()]; ok {
					iv = jsonAmt(v)
				}
				po.Indiv = append(po.Indiv, iv)
				vv := [2]int64{-1, -1}
				if v, ok := m["propVotes_"+id+"_"+string(r.cw.accts[ai])]; ok {
					var pv governance.ProposalVote
					must(json.Unmarshal([]byte(v), &pv))
					vv = [2]int64{pv.Power, int64(pv.Opinion)}
				}
				po.Votes = append(po.Votes, vv)
			}
		}
		o.Props = append(o.Props, po)
	}
	for ai := 0; ai < na; ai++ {
		b := "0"
		if v, ok := m["b_"+r.cw.accts[ai].String()+"_OLT"]; ok {
			b = jsonAmt(v)
		}
		o.Bal = append(o.Bal, b)
	}
	pool := new(big.Int)
	for k, v := range m {
		if strings.HasPrefix(k, "f_") {
			x, ok := new(big.Int).SetString(jsonAmt(v), 10)
			if ok {
				pool.Add(pool, x)
			}
		}
	}
	o.Pool = pool.String()
	// a configuration proposal counts as applied once its value has been seen in force for its key
	for i, kv := range r.cfg {
		if r.optValue(kv[0]) == kv[1] {
			r.applied[i] = true
		}
	}
	for i := range r.pids {
		o.Applied = append(o.Applied, r.applied[i])
		fi, fr := r.flowIn[i], r.flowRef[i]
		if fi == nil {
			fi = new(big.Int)
		}
		if fr == nil {
			fr = new(big.Int)
		}
		o.Flows = append(o.Flows, [2]string{fi.String(), fr.String()})
	}
	return o
}

var c14TypeKeys = []string{"configUpdate", "codeChange", "general"}

// the value currently in force for a governance update key ("" = unknown key)
func (r *c14Run) optValue(key string) string {
	gs := governance.NewStore("g", r.rep.A.VerifDeliver())
	if strings.HasPrefix(key, "onsOptions.") {
		oo, err := gs.GetONSOptions()
		if err != nil {
			return ""
		}
		switch key {
		case "onsOptions.perBlockFees":
			return oo.PerBlockFees.String()
		case "onsOptions.baseDomainPrice":
			return oo.BaseDomainPrice.String()
		}
		return ""
	}
	po, err := gs.GetProposalOptions()
	if err != nil {
		return ""
	}
	for ti, o := range []governance.ProposalOption{po.ConfigUpdate, po.CodeChange, po.General} {
		pre := "propOptions." + c14TypeKeys[ti] + "."
		if !strings.HasPrefix(key, pre) {
			continue
		}
		switch strings.TrimPrefix(key, pre) {
		case "fundingGoal":
			return o.FundingGoal.String()
		case "initialFunding":
			return o.InitialFunding.String()
		case "votingDeadline":
			return fmt.Sprint(o.VotingDeadline)
		case "fundingDeadline":
			return fmt.Sprint(o.FundingDeadline)
		case "passPercentage":
			return fmt.Sprint(o.PassPercentage)
		}
	}
	return ""
}

// a key may be used by a new configuration proposal only when its previous user can no longer be finalised
// (two pending updates of one key finalised in one block would hide the first application from the observation)
func (r *c14Run) keyFree(key string, prev *c14Obs) bool {
	i, ok := r.keyOwner[key]
	if !ok {
		return true
	}
	if prev == nil || i >= len(prev.Props) || prev.Props[i] == nil {
		return false
	}
	p := prev.Props[i]
	return p.Stores >= 8 || (p.Stores == 4 && (p.Outcome == 1 || p.Outcome == 2 || p.Outcome == 4))
}

// a valid (always inside the ranges of ValidateProposal, whatever the other options are) value for an update key
func c14UpdateValue(rnd *rand.Rand, key string, idx int) string {
	parts := strings.Split(key, ".")
	if parts[0] == "onsOptions" {
		if parts[1] == "perBlockFees" {
			return fmt.Sprint(c14CfgBase + 1 + idx)
		}
		return fmt.Sprintf("10000000000000000000%02d", idx%100+1)
	}
	ty, f := parts[1], parts[2]
	switch f {
	case "fundingGoal":
		return fmt.Sprint([]int64{5000000000, 20000000000, 4000000000}[rnd.Intn(3)] + int64(idx))
	case "initialFunding":
		return fmt.Sprint([]int64{1000000100, 1400000000, 2000000000}[rnd.Intn(3)] + int64(idx))
	case "votingDeadline":
		switch ty {
		case "configUpdate":
			return fmt.Sprint([]int64{10001, 20000}[rnd.Intn(2)] + int64(idx))
		case "codeChange":
			return fmt.Sprint(150001 + idx)
		}
		return fmt.Sprint(75001 + idx)
	case "fundingDeadline":
		if ty == "general" {
			return fmt.Sprint(75001 + idx)
		}
		return fmt.Sprint(10001 + idx)
	}
	return fmt.Sprint(52 + (idx*7+rnd.Intn(28))%28)
}

func (r *c14Run) memo() string { r.nonce++; return fmt.Sprintf("c14-%s-%d", r.c.Name, r.nonce) }

// deliver a transaction and record the model operation
func (r *c14Run) deliver(op c14Op, tx []byte, feeKind bool) c14Op {
	e := r.envRaw()
	op.Cur = 0
	measured := op.Kind == "create" || op.Kind == "fund" || op.Kind == "withdraw"
	who := op.Payer
	if op.Kind == "withdraw" {
		who = op.Ben
	}
	var before *big.Int
	if measured {
		op.Cur = c14CurCode()
		if op.Cur == 0 && op.Kind == "create" && !c14IsHex(r.lastID) {
			op.Cur = 4 // malformed proposal id
		}
		before = r.olt(who)
	}
	res := r.rep.DeliverTx(tx)
	op.Ok = res.Code == 0
	if measured && op.Ok {
		// OLT actually paid into / out of the proposal, from the OLT balance of the payer / beneficiary
		d := new(big.Int).Sub(r.olt(who), before)
		if who == op.Payer {
			d.Add(d, new(big.Int).Mul(big.NewInt(res.GasUsed), big.NewInt(1000000000))) // the fee is not a contribution
		}
		m := r.flowRef
		if op.Kind != "withdraw" {
			m, d = r.flowIn, d.Neg(d)
		}
		if m[op.ID] == nil {
			m[op.ID] = new(big.Int)
		}
		m[op.ID].Add(m[op.ID], d)
	}
	if op.Kind == "finalize" {
		e.CfgFail = r.finFailed(r.rep.View())
	}
	op.Env = r.intern(e)
	op.Fee = "0"
	if op.Ok && feeKind {
		op.Fee = new(big.Int).Mul(big.NewInt(res.GasUsed), big.NewInt(1000000000)).String()
	}
	r.c.Ops = append(r.c.Ops, op)
	return op
}

// the outcome of the configuration update function is an input of the model: the ids whose record sits in the
// finalize-failed store after the step are those whose update reported an error
func (r *c14Run) finFailed(view map[string]string) []int {
	out := []int{}
	for pi, id := range r.pids {
		if _, ok := view["propFinalizeFailed"+id]; ok {
			out = append(out, pi)
		}
	}
	return out
}

// PROPOSAL_CREATE that reuses the id of an existing proposal (must be refused whatever the proposal's state)
func (r *c14Run) doRecreate(id, ty, proposer int, amount string, fdl, vdl int64, goal string, pass int64, cfg string, cfgValid bool) bool {
	u := r.userKey(proposer)
	r.lastID = r.pids[id]
	cp := govact.CreateProposal{ProposalID: governance.ProposalID(r.pids[id]), ProposalType: c14Types[ty], Headline: "h", Description: "again", Proposer: u.Addr,
		InitialFunding: c14Amount(amount), FundingDeadline: fdl, FundingGoal: amt(goal), VotingDeadline: vdl, PassPercentage: int(pass), ConfigUpdate: cfg}
	tx := mkTx(action.PROPOSAL_CREATE, cp, GAS, r.memo(), u)
	op := r.deliver(c14Op{Kind: "create", ID: id, Ty: ty, A: proposer, Amt: amount, Fdl: fdl, Vdl: vdl, Goal: goal, Pass: pass, CfgValid: cfgValid, Payer: proposer,
		Descr: fmt.Sprintf("RE-CREATE the id of p%d: type %d by %s amount %s fdl %d vdl %d", id, ty, r.cw.names[proposer], amount, fdl, vdl)}, tx, true)
	return op.Ok
}

// a re-creation attempt with parameters that a fresh id would be accepted with (live options of a general proposal)
func (r *c14Run) recreateLive(id, proposer int, h int64) bool {
	po, err := governance.NewStore("g", r.rep.A.VerifDeliver()).GetProposalOptions()
	must(err)
	o := po.General
	return r.doRecreate(id, 2, proposer, o.InitialFunding.String(), h+3, h+3+o.VotingDeadline, o.FundingGoal.String(), int64(o.PassPercentage), "", true)
}

// OLT balance of a tracked account in the deliver state (what the next transaction sees)
func (r *c14Run) olt(ai int) *big.Int {
	x := new(big.Int)
	v, err := r.rep.A.VerifDeliver().Get(storage.StoreKey("b_" + r.cw.accts[ai].String() + "_OLT"))
	if err == nil && len(v) > 0 {
		x.SetString(jsonAmt(string(v)), 10)
	}
	return x
}

func (r *c14Run) balOf(view map[string]string, ai int) *big.Int {
	x := new(big.Int)
	if v, ok := view["b_"+r.cw.accts[ai].String()+"_OLT"]; ok {
		x.SetString(jsonAmt(v), 10)
	}
	return x
}

type c14Gen struct {
	rnd     *rand.Rand
	prev    *c14Obs // observation at the end of the previous block
	created int
}

var c14Amts = []string{"1000000000", "4000000000", "9000000000", "10000000000", "1", "2500000000", "12000000000", "9000000000", "8000000000"}

func (r *c14Run) userKey(ai int) Key {
	if ai < c14NUsers {
		return r.cw.w.Users[ai]
	}
	if ai == c14NUsers {
		return r.cw.w.Poor[0]
	}
	for i, v := range r.cw.w.Vals {
		if r.cw.accts[ai].String() == v.Stake.Addr.String() {
			return r.cw.w.Vals[i].Stake
		}
	}
	return r.cw.w.Extra[0].Stake
}

func (r *c14Run) doCreate(ty, proposer int, amount string, fdl, vdl int64, goal string, pass int64, cfg string, cfgValid bool) {
	id := len(r.pids)
	hexid := string(propID(fmt.Sprintf("c14-%s-%d", r.c.Name, id)))
	if r.nextID != "" {
		hexid, r.nextID = r.nextID, ""
	}
	r.lastID = hexid
	u := r.userKey(proposer)
	cp := govact.CreateProposal{ProposalID: governance.ProposalID(hexid), ProposalType: c14Types[ty], Headline: "h", Description: "d", Proposer: u.Addr,
		InitialFunding: c14Amount(amount), FundingDeadline: fdl, FundingGoal: amt(goal), VotingDeadline: vdl, PassPercentage: int(pass), ConfigUpdate: cfg}
	tx := mkTx(action.PROPOSAL_CREATE, cp, GAS, r.memo(), u)
	op := r.deliver(c14Op{Kind: "create", ID: id, Ty: ty, A: proposer, Amt: amount, Fdl: fdl, Vdl: vdl, Goal: goal, Pass: pass, CfgValid: cfgValid, Payer: proposer,
		Descr: fmt.Sprintf("create p%d type %d by %s amount %s fdl %d vdl %d cfg %q", id, ty, r.cw.names[proposer], amount, fdl, vdl, cfg)}, tx, true)
	if op.Ok {
		r.pids = append(r.pids, hexid)
		if kv := strings.SplitN(cfg, ":", 2); ty == 0 && len(kv) == 2 {
			r.cfg[id] = [2]string{kv[0], kv[1]}
			r.keyOwner[kv[0]] = id
		}
	} else {
		// the id was not consumed; forget the failed attempt's index by renaming it: the model op keeps index `id`,
		// which stays absent in both worlds until a later create succeeds under a different hex id
		r.pids = append(r.pids, hexid)
	}
}

func (r *c14Run) doFund(id, funder int, amount string) {
	u := r.userKey(funder)
	tx := txPropFundRaw(u, r.pids[id], c14Amount(amount), r.memo())
	r.deliver(c14Op{Kind: "fund", ID: id, A: funder, Amt: amount, Payer: funder, Descr: fmt.Sprintf("fund p%d by %s %s", id, r.cw.names[funder], amount)}, tx, true)
}

func txPropFundRaw(u Key, hexid string, a action.Amount, memo string) []byte {
	return mkTx(action.PROPOSAL_FUND, govact.FundProposal{ProposalId: governance.ProposalID(hexid), FunderAddress: u.Addr, FundValue: a}, GAS, memo, u)
}

func (r *c14Run) doVote(id, valAcct, opin int) {
	// the voter: a validator (its stake key signs first and pays) or any other account posing as one
	var vs ValSpec
	payer := valAcct
	found := false
	for i, v := range r.cw.w.Vals {
		if r.cw.accts[valAcct].String() == v.Val.Addr.String() {
			vs, payer, found = r.cw.w.Vals[i], r.acct(v.Stake.Addr), true
		}
	}
	if !found && r.cw.accts[valAcct].String() == r.cw.w.Extra[0].Val.Addr.String() {
		vs, payer, found = r.cw.w.Extra[0], r.acct(r.cw.w.Extra[0].Stake.Addr), true
	}
	if !found {
		k := r.userKey(valAcct)
		vs = ValSpec{Val: k, Stake: k}
	}
	tx := mkTx(action.PROPOSAL_VOTE, &govact.VoteProposal{ProposalID: governance.ProposalID(r.pids[id]), Address: vs.Stake.Addr, ValidatorAddress: vs.Val.Addr, Opinion: governance.VoteOpinion(opin)}, GAS, r.memo(), vs.Stake, vs.Val)
	r.deliver(c14Op{Kind: "vote", ID: id, A: valAcct, Opin: opin, Payer: payer, Descr: fmt.Sprintf("vote p%d by %s opinion %d", id, r.cw.names[valAcct], opin)}, tx, true)
}

func (r *c14Run) doCancel(id, who int) {
	u := r.userKey(who)
	tx := mkTx(action.PROPOSAL_CANCEL, &govact.CancelProposal{ProposalId: governance.ProposalID(r.pids[id]), Proposer: u.Addr, Reason: "r"}, GAS, r.memo(), u)
	r.deliver(c14Op{Kind: "cancel", ID: id, A: who, Payer: who, Descr: fmt.Sprintf("cancel p%d by %s", id, r.cw.names[who])}, tx, true)
}

func (r *c14Run) doWithdraw(id, funder int, amount string, ben int) {
	u := r.userKey(funder)
	tx := mkTx(action.PROPOSAL_WITHDRAW_FUNDS, govact.WithdrawFunds{ProposalID: governance.ProposalID(r.pids[id]), Funder: u.Addr, WithdrawValue: c14Amount(amount), Beneficiary: r.cw.accts[ben]}, GAS, r.memo(), u)
	r.deliver(c14Op{Kind: "withdraw", ID: id, A: funder, Amt: amount, Ben: ben, Payer: funder, Descr: fmt.Sprintf("withdraw p%d funder %s %s to %s", id, r.cw.names[funder], amount, r.cw.names[ben])}, tx, true)
}

func (r *c14Run) doExpire(id, who int, check bool) (uint32, bool) {
	u := r.userKey(who)
	tx := mkTx(action.EXPIRE_VOTES, govact.ExpireVotes{ProposalID: governance.ProposalID(r.pids[id]), ValidatorAddress: u.Addr}, GAS, r.memo(), u)
	var cc uint32 = 999
	if check {
		cc = r.rep.CheckTx(tx).Code
	}
	op := r.deliver(c14Op{Kind: "expire", ID: id, A: who, Payer: who, Descr: fmt.Sprintf("PUBLIC expire_votes p%d by %s", id, r.cw.names[who])}, tx, false)
	return cc, op.Ok
}

func (r *c14Run) doFinalize(id, who int) {
	u := r.userKey(who)
	tx := mkTx(action.PROPOSAL_FINALIZE, govact.FinalizeProposal{ProposalID: governance.ProposalID(r.pids[id]), ValidatorAddress: u.Addr}, GAS, r.memo(), u)
	op := r.deliver(c14Op{Kind: "finalize", ID: id, A: who, Payer: who, Descr: fmt.Sprintf("PUBLIC finalize p%d by %s", id, r.cw.names[who])}, tx, false)
	if op.Ok {
		r.pubFin = true
	}
}

// a staking transaction (validator-set change): recorded as a balance adjustment of the payer
func (r *c14Run) doStake(v ValSpec, amount string, unstake bool) {
	payer := r.acct(v.Stake.Addr)
	before := r.balOf(r.rep.View(), payer)
	var tx []byte
	if unstake {
		tx = txUnstake(v, oltAmt(amount), r.memo())
	} else {
		tx = txStake(v, oltAmt(amount), r.memo())
	}
	env := r.env()
	res := r.rep.DeliverTx(tx)
	after := r.balOf(r.rep.View(), payer)
	fee := new(big.Int)
	if res.Code == 0 {
		fee.Mul(big.NewInt(res.GasUsed), big.NewInt(1000000000))
	}
	d := new(big.Int).Sub(after, before)
	d.Add(d, fee)
	r.c.Ops = append(r.c.Ops, c14Op{Kind: "adjust", A: payer, Amt: d.String(), Env: env, Payer: payer, Fee: fee.String(), Ok: true,
		Descr: fmt.Sprintf("stake change by %s amount %s unstake=%v code %d", r.cw.names[payer], amount, unstake, res.Code)})
}

// create on the production-range genesis: parameters follow the LIVE options (which finalised configuration
// proposals change), sometimes the genesis ones; configuration proposals update proposal options of any type
func (r *c14Run) randomCreateProd(g *c14Gen, h int64) {
	rnd := g.rnd
	gs := governance.NewStore("g", r.rep.A.VerifDeliver())
	po, err := gs.GetProposalOptions()
	must(err)
	ty := rnd.Intn(3)
	if rnd.Intn(2) == 0 {
		ty = 0
	}
	o := []governance.ProposalOption{po.ConfigUpdate, po.CodeChange, po.General}[ty]
	init, goal, vd, pass := o.InitialFunding.String(), o.FundingGoal.String(), o.VotingDeadline, int64(o.PassPercentage)
	if rnd.Intn(6) == 0 { // the values of the genesis: refused once the option has been changed
		init, goal, vd, pass = "1000000000", "10000000000", c14VDelta[ty], int64(c14Pass[ty])
	}
	amount := init
	switch rnd.Intn(8) {
	case 0:
		x, _ := new(big.Int).SetString(init, 10)
		amount = x.Sub(x, big.NewInt(1)).String()
	case 1:
		amount = goal
	case 2, 3:
		x, _ := new(big.Int).SetString(init, 10)
		amount = x.Add(x, big.NewInt(1000000000)).String()
	}
	fdl := h + 1 + int64(rnd.Intn(6))
	if rnd.Intn(12) == 0 {
		fdl = h
	}
	vdl := fdl + vd
	cfg, valid := "", true
	if ty == 0 {
		keys := []string{"onsOptions.perBlockFees", "onsOptions.baseDomainPrice"}
		for _, t := range c14TypeKeys {
			for _, f := range []string{"fundingGoal", "fundingGoal", "votingDeadline", "fundingDeadline", "initialFunding", "initialFunding", "passPercentage"} {
				keys = append(keys, "propOptions."+t+"."+f)
			}
		}
		key := keys[rnd.Intn(len(keys))]
		for try := 0; try < 20 && !r.keyFree(key, g.prev); try++ {
			key = keys[rnd.Intn(len(keys))]
		}
		val := c14UpdateValue(rnd, key, len(r.pids))
		if !r.keyFree(key, g.prev) || val == r.optValue(key) {
			ty = 2
			o = po.General
			init, goal, vd, pass = o.InitialFunding.String(), o.FundingGoal.String(), o.VotingDeadline, int64(o.PassPercentage)
			amount, vdl = init, fdl+vd
		} else {
			cfg = key + ":" + val
			// funding goal >= 3 x initial funding is checked against the options in force NOW (creation) and again at
			// the finalisation: two updates that are each valid now can contradict each other later (finalize-failed)
			if parts := strings.Split(key, "."); len(parts) == 3 && (parts[2] == "fundingGoal" || parts[2] == "initialFunding") {
				x, _ := new(big.Int).SetString(val, 10)
				other := "fundingGoal"
				if parts[2] == "fundingGoal" {
					other = "initialFunding"
				}
				y, _ := new(big.Int).SetString(r.optValue(parts[0]+"."+parts[1]+"."+other), 10)
				if parts[2] == "fundingGoal" {
					valid = x.Cmp(new(big.Int).Mul(y, big.NewInt(3))) >= 0
				} else {
					valid = y.Cmp(new(big.Int).Mul(x, big.NewInt(3))) >= 0
				}
			}
			switch rnd.Intn(10) {
			case 0:
				cfg, valid = "propOptions.general.passPercentage:90", false
			case 1:
				cfg, valid = "propOptions.codeChange.fundingGoal:1", false
			}
		}
	}
	r.doCreate(ty, c14Pick(rnd, []int{0, 1, 2, 3, 4, 5, 6}), amount, fdl, vdl, goal, pass, cfg, valid)
}

func c14Pick(rnd *rand.Rand, xs []int) int { return xs[rnd.Intn(len(xs))] }

// one random governance transaction, biased by the stage of the proposals at the previous block end
func (r *c14Run) randomOp(g *c14Gen, h int64) {
	rnd := g.rnd
	np := len(r.pids)
	users := []int{0, 1, 2, 3, 4, 5, 6} // 6 = poor
	anyID := func(pred func(p *c14PObs) bool) int {
		c := []int{}
		if g.prev != nil {
			for i, p := range g.prev.Props {
				if p != nil && pred(p) {
					c = append(c, i)
				}
			}
		}
		if len(c) == 0 || rnd.Intn(12) == 0 {
			if np == 0 {
				return -1
			}
			return rnd.Intn(np)
		}
		return c[rnd.Intn(len(c))]
	}
	k := rnd.Intn(100)
	if rnd.Intn(20) == 0 && k < 84 {
		// the amount of this create / fund / withdraw is denominated in another currency (users 0, 1 own ETH)
		cur := []string{"ETH", "ETH", "XYZ", ""}[rnd.Intn(4)]
		old := c14Cur
		c14Cur = cur
		defer func() { c14Cur = old }()
		if cur == "ETH" && rnd.Intn(2) == 0 {
			users = []int{0, 1}
		}
	}
	switch {
	case (k < 12 || np == 0) && r.prod:
		r.randomCreateProd(g, h)
	case k < 12 || np == 0:
		ty := rnd.Intn(3)
		proposer := c14Pick(rnd, users)
		amount := []string{"1000000000", "2000000000", "5000000000", "999999999", "10000000000", "9999999999"}[rnd.Intn(6)]
		if rnd.Intn(4) != 0 {
			amount = []string{"1000000000", "2000000000", "5000000000"}[rnd.Intn(3)]
		}
		fdl := h + 1 + int64(rnd.Intn(5))
		if rnd.Intn(10) == 0 {
			fdl = h - int64(rnd.Intn(2))
		}
		vdl := fdl + c14VDelta[ty]
		if rnd.Intn(12) == 0 {
			vdl++
		}
		pass := int64(c14Pass[ty])
		if rnd.Intn(14) == 0 {
			pass = 50
		}
		goal := "10000000000"
		if rnd.Intn(14) == 0 {
			goal = "9000000000"
		}
		cfg, valid := "", true
		if ty == 0 {
			key := []string{"onsOptions.perBlockFees", "onsOptions.baseDomainPrice"}[rnd.Intn(2)]
			if !r.keyFree(key, g.prev) {
				ty = 1 + rnd.Intn(2)
				vdl = fdl + c14VDelta[ty]
				pass = int64(c14Pass[ty])
			} else {
				cfg = key + ":" + c14UpdateValue(rnd, key, len(r.pids))
			}
			switch rnd.Intn(8) {
			case 0:
				if ty == 0 {
					cfg, valid = "onsOptions.perBlockFees:0", false
				}
			case 1:
				if ty == 0 {
					cfg, valid = "nosuch.key:5", false
				}
			}
		}
		if rnd.Intn(30) == 0 {
			r.nextID = []string{strings.Repeat("a", 20) + "_" + strings.Repeat("b", 43), "~" + strings.Repeat("c", 63), strings.Repeat("g", 64)}[rnd.Intn(3)]
		}
		r.doCreate(ty, proposer, amount, fdl, vdl, goal, pass, cfg, valid)
	case k < 32:
		id := anyID(func(p *c14PObs) bool { return p.Stores == 1 && p.Status == 0 })
		if id < 0 {
			return
		}
		famt := c14Amts[rnd.Intn(len(c14Amts))]
		if g.prev != nil && id < len(g.prev.Props) && g.prev.Props[id] != nil && rnd.Intn(3) == 0 {
			pg, _ := new(big.Int).SetString(g.prev.Props[id].Goal, 10)
			pt, _ := new(big.Int).SetString(g.prev.Props[id].Total, 10)
			if d := new(big.Int).Sub(pg, pt); d.Sign() > 0 {
				famt = d.String() // exactly up to the goal recorded in the proposal
			}
		}
		if rnd.Intn(40) == 0 {
			famt = "-" + famt // Validate does not look at the sign
		}
		r.doFund(id, c14Pick(rnd, users), famt)
	case k < 62:
		id := anyID(func(p *c14PObs) bool { return p.Stores == 1 && p.Status == 1 })
		if id < 0 {
			return
		}
		voters := []int{}
		for _, vv := range r.cw.w.Vals {
			voters = append(voters, r.acct(vv.Val.Addr))
		}
		v := c14Pick(rnd, voters)
		switch rnd.Intn(16) {
		case 0:
			v = r.acct(r.cw.w.Extra[0].Val.Addr)
		case 1:
			v = rnd.Intn(c14NUsers)
		}
		opin := 1 + rnd.Intn(3)
		if rnd.Intn(3) == 0 {
			opin = 1
		}
		if rnd.Intn(20) == 0 {
			opin = 0
		}
		r.doVote(id, v, opin)
	case k < 68:
		id := anyID(func(p *c14PObs) bool { return p.Stores == 1 && p.Status == 0 })
		if id < 0 {
			return
		}
		who := c14Pick(rnd, users)
		if g.prev != nil && id < len(g.prev.Props) && g.prev.Props[id] != nil && rnd.Intn(3) != 0 {
			who = int(g.prev.Props[id].Proposer)
		}
		r.doCancel(id, who)
	case k < 84:
		id := anyID(func(p *c14PObs) bool {
			return p.Outcome == 4 || p.Outcome == 1 || (p.Stores == 1 && p.Status == 0 && p.Fdl < h)
		})
		if id < 0 {
			return
		}
		funder := c14Pick(rnd, users)
		amount := c14Amts[rnd.Intn(len(c14Amts))]
		if g.prev != nil && id < len(g.prev.Props) && g.prev.Props[id] != nil {
			fs := []int{}
			for ai, v := range g.prev.Props[id].Indiv {
				if v != "-1" && ai < 7 {
					fs = append(fs, ai)
				}
			}
			if len(fs) > 0 && rnd.Intn(5) != 0 {
				funder = c14Pick(rnd, fs)
				switch rnd.Intn(4) {
				case 0, 1:
					amount = g.prev.Props[id].Indiv[funder]
				case 2:
					x, _ := new(big.Int).SetString(g.prev.Props[id].Indiv[funder], 10)
					amount = x.Div(x, big.NewInt(2)).String()
				}
			}
		}
		if rnd.Intn(40) == 0 {
			amount = "-3"
		}
		ben := funder
		if rnd.Intn(4) == 0 {
			ben = c14Pick(rnd, users)
		}
		r.doWithdraw(id, funder, amount, ben)
	case k < 86:
		id := anyID(func(p *c14PObs) bool { return p.Stores == 1 })
		if id < 0 {
			return
		}
		r.doExpire(id, c14Pick(rnd, users), false)
	case k >= 90 && k < 94:
		// the id of an existing proposal (any state, terminal ones preferred) is submitted again
		id := anyID(func(p *c14PObs) bool { return p.Stores == 16 })
		if id < 0 || g.prev == nil || id >= len(g.prev.Props) || g.prev.Props[id] == nil {
			return
		}
		r.recreateLive(id, c14Pick(rnd, users), h)
	case k < 94:
		id := anyID(func(p *c14PObs) bool { return p.Stores == 2 || p.Stores == 4 })
		if id < 0 {
			return
		}
		r.doFinalize(id, c14Pick(rnd, users))
	default:
		switch rnd.Intn(3) {
		case 0:
			r.doStake(r.cw.w.Extra[0], []string{"1500", "2000000", "3500000"}[rnd.Intn(3)], false)
		case 1:
			r.doStake(r.cw.w.Vals[rnd.Intn(len(r.cw.w.Vals))], []string{"700", "1000000"}[rnd.Intn(2)], false)
		case 2:
			r.doStake(r.cw.w.Vals[rnd.Intn(len(r.cw.w.Vals))], []string{"500", "1000"}[rnd.Intn(2)], true)
		}
	}
}

func (r *c14Run) beginBlock() int64 {
	r.rep.BeginBlock(&BlockIn{Absent: map[int]bool{}})
	r.pubFin = false
	r.c.Ops = append(r.c.Ops, c14Op{Kind: "begin", H: r.rep.H, Env: -1, Ok: true, Fee: "0"})
	return r.rep.H
}

func (r *c14Run) endBlock() *c14Obs {
	e := r.envRaw()
	r.rep.EndBlock()
	r.rep.Commit()
	dump := r.rep.Dump()
	e.CfgFail = r.finFailed(dump)
	r.c.Ops = append(r.c.Ops, c14Op{Kind: "end", Env: r.intern(e), Ok: true, Fee: "0"})
	o := r.observe(dump)
	r.c.Obs = append(r.c.Obs, o)
	return &o
}

// what olfullnode save_state writes for the governance proposals (cmd/olfullnode/save_state.go DumpGovProposalsToFile,
// package main, not importable: the same loop over the same store API on the COMMITTED state)
func (r *c14Run) exportProposals() ([]governance.GovProposal, int64) {
	st := storage.NewState(r.rep.A.VerifChainState())
	pm := governance.NewProposalMasterStore(
		governance.NewProposalStore("propActive", "propPassed", "propFailed", "propFinalized", "propFinalizeFailed", st),
		governance.NewProposalFundStore("propFunds", st), governance.NewProposalVoteStore("propVotes", st))
	out := []governance.GovProposal{}
	version := pm.Proposal.GetState().Version()
	for _, state := range []governance.ProposalState{governance.ProposalStateActive, governance.ProposalStatePassed, governance.ProposalStateFailed,
		governance.ProposalStateFinalized, governance.ProposalStateFinalizeFailed} {
		pm.Proposal.WithPrefixType(state)
		pm.Proposal.Iterate(func(id governance.ProposalID, proposal *governance.Proposal) bool {
			if state == governance.ProposalStateActive {
				proposal.FundingDeadline = proposal.FundingDeadline - version
				proposal.VotingDeadline = proposal.VotingDeadline - version
				if proposal.FundingDeadline < 0 {
					proposal.FundingDeadline = 0
				}
				if proposal.VotingDeadline < 0 {
					proposal.VotingDeadline = 0
				}
			}
			out = append(out, governance.GovProposal{Prop: *proposal, ProposalVotes: pm.GetProposalVotes(proposal.ProposalID),
				ProposalFunds: pm.GetProposalFunds(proposal.ProposalID), State: state})
			return false
		})
	}
	return out, version
}

// relaunch: export the governance state as save_state does, put it (with the options in force and the balances of the
// tracked accounts) into a new genesis document (a JSON round trip), start a fresh chain from it (InitChain ->
// setupState -> LoadProposals) and go on there
func (r *c14Run) relaunch() {
	props, version := r.exportProposals()
	gs := governance.NewStore("g", r.rep.A.VerifDeliver())
	po, err := gs.GetProposalOptions()
	must(err)
	oo, err := gs.GetONSOptions()
	must(err)
	dump := r.rep.Dump()
	bals := []consensus.BalanceState{{Address: keys.Address("rewardpool"), Currency: "OLT", Amount: *OLT.NewCoinFromInt(1000000).Amount}}
	for ai := range r.cw.accts {
		if v, ok := dump["b_"+r.cw.accts[ai].String()+"_OLT"]; ok {
			a, _ := balance.NewAmountFromString(jsonAmt(v), 10)
			bals = append(bals, consensus.BalanceState{Address: r.cw.accts[ai], Currency: "OLT", Amount: *a})
		}
		if v, ok := dump["b_"+r.cw.accts[ai].String()+"_ETH"]; ok {
			a, _ := balance.NewAmountFromString(jsonAmt(v), 10)
			bals = append(bals, consensus.BalanceState{Address: r.cw.accts[ai], Currency: "ETH", Amount: *a})
		}
	}
	spec := r.cw.genesis()
	base := spec.Customize
	spec.Customize = func(st *consensus.AppState) {
		base(st)
		st.Governance.PropOptions = *po
		st.Governance.ONSOptions = *oo
		st.Balances = bals
		st.Proposals = props
	}
	old := r.rep
	r.rep = NewReplica(spec, ReplicaOpts{NodeVal: r.cw.w.Vals[0].Val})
	r.rep.InitChain()
	old.Close()
	o := r.observe(r.rep.View())
	o.Reload = true
	r.c.Ops = append(r.c.Ops, c14Op{Kind: "reload", H: version, Amt: o.Pool, Bals: o.Bal, Env: -1, Ok: true, Fee: "0",
		Descr: fmt.Sprintf("RELAUNCH from the state exported at version %d (%d proposals)", version, len(props))})
	r.c.Obs = append(r.c.Obs, o)
	r.c.Notes["relaunches"] = 1
	// the new chain needs its validator status records again (see c14NewRun)
	r.beginBlock()
	r.doStake(r.cw.w.Vals[0], "1000", false)
	r.endBlock()
	r.beginBlock()
	r.endBlock()
}

func c14NewRun(name string) *c14Run {
	cw := c14NewWorld()
	rep := NewReplica(cw.genesis(), ReplicaOpts{NodeVal: cw.w.Vals[0].Val})
	rep.InitChain()
	r := &c14Run{cw: cw, rep: rep, c: &c14Case{Name: name, Notes: map[string]interface{}{}}, envIdx: map[string]int{}, cfg: map[int][2]string{}, keyOwner: map[string]int{}, applied: map[int]bool{}, flowIn: map[int]*big.Int{}, flowRef: map[int]*big.Int{}}
	o := r.observe(rep.View())
	r.c.Init, r.c.Pool = o.Bal, o.Pool
	// warm-up: the validator status records (active flags) that the voting snapshot reads are only
	// written by EndBlock after a staking transaction; make one so that there are active validators
	r.beginBlock()
	r.doStake(cw.w.Vals[0], "1000", false)
	r.endBlock()
	r.beginBlock()
	r.endBlock()
	return r
}

func (r *c14Run) finish() *c14Case {
	r.c.NP = len(r.pids)
	// pad the observations made before later proposals existed
	for i := range r.c.Obs {
		for len(r.c.Obs[i].Props) < r.c.NP {
			r.c.Obs[i].Props = append(r.c.Obs[i].Props, nil)
		}
		for len(r.c.Obs[i].Applied) < r.c.NP {
			r.c.Obs[i].Applied = append(r.c.Obs[i].Applied, false)
		}
		for len(r.c.Obs[i].Flows) < r.c.NP {
			r.c.Obs[i].Flows = append(r.c.Obs[i].Flows, [2]string{"0", "0"})
		}
	}
	r.rep.Close()
	return r.c
}

var c14ProdVDelta = map[int]int64{0: 10000, 1: 150000, 2: 75000}
var c14ProdFundDL = map[int]int64{0: 10000, 1: 10000, 2: 75000}

// run f with the production-range option values ValidateProposal demands (so that proposal-option updates validate)
func c14WithProd(f func() *c14Case) *c14Case {
	oldV, oldF := c14VDelta, c14FundDL
	c14VDelta, c14FundDL = c14ProdVDelta, c14ProdFundDL
	defer func() { c14VDelta, c14FundDL = oldV, oldF }()
	return f()
}

// voting powers (sum 10^7 after validator 0's warm-up stake of 1000) that put single validators and small coalitions
// exactly on and next to the thresholds 33/34, 40/41, 49/51, 60, 67 per cent
var c14PowerSets = [][]int64{
	nil,
	{3349000, 3300000, 3350000},
	{3299000, 700000, 1000000, 1500000, 1500000, 2000000},
	{3999000, 1000000, 900000, 1100000, 490000, 510000, 2000000},
	{3349000, 3000000, 3650000},
}

func c14Random(seed int64, ci int, nblocks int) *c14Case {
	return c14WithPowers(c14PowerSets[(ci/2)%len(c14PowerSets)], func() *c14Case { return c14RandomP(seed, ci, nblocks) })
}

func c14RandomP(seed int64, ci int, nblocks int) *c14Case {
	if ci%3 == 2 {
		return c14WithProd(func() *c14Case { return c14RandomOn(seed, ci, nblocks, true) })
	}
	return c14RandomOn(seed, ci, nblocks, false)
}

func c14RandomOn(seed int64, ci int, nblocks int, prod bool) *c14Case {
	rnd := rand.New(rand.NewSource(seed*1000003 + int64(ci)))
	r := c14NewRun(fmt.Sprintf("r%d_%d", seed, ci))
	r.prod = prod
	g := &c14Gen{rnd: rnd}
	relaunchAt := -1
	if ci%2 == 1 && nblocks > 16 {
		relaunchAt = 7 + rnd.Intn(nblocks-14) // export + import somewhere in the middle of every second history
	}
	for b := 0; b < nblocks; b++ {
		h := r.beginBlock()
		n := rnd.Intn(5)
		if b < 4 {
			n = 2 + rnd.Intn(3)
		}
		if prod && b == 2 && ci%2 == 0 {
			// two updates of one type that are each valid now but contradict each other (goal >= 3 x initial funding):
			// whichever is finalised second ends in the finalize-failed store
			t := c14TypeKeys[rnd.Intn(3)]
			for i, cfg := range []string{"propOptions." + t + ".fundingGoal:" + fmt.Sprint(4000000000+len(r.pids)), "propOptions." + t + ".initialFunding:" + fmt.Sprint(2000000001+len(r.pids))} {
				if key := strings.SplitN(cfg, ":", 2)[0]; r.keyFree(key, g.prev) {
					fdl := h + 2 + int64(i) + int64(rnd.Intn(3))
					r.doCreate(0, rnd.Intn(c14NUsers), "1000000000", fdl, fdl+c14VDelta[0], "10000000000", int64(c14Pass[0]), cfg, true)
				}
			}
		}
		if prod && g.prev != nil {
			// shepherd the configuration proposals towards finalisation, so that options change while the other
			// proposals are in their funding / voting stage
			for i, p := range g.prev.Props {
				if p == nil || p.Type != 0 || p.Stores != 1 {
					continue
				}
				if p.Status == 0 && p.Fdl >= h && rnd.Intn(2) == 0 {
					pg, _ := new(big.Int).SetString(p.Goal, 10)
					pt, _ := new(big.Int).SetString(p.Total, 10)
					if d := new(big.Int).Sub(pg, pt); d.Sign() > 0 {
						r.doFund(i, rnd.Intn(c14NUsers), d.String())
					}
				} else if p.Status == 1 && rnd.Intn(3) != 0 {
					r.doVote(i, r.acct(r.cw.w.Vals[0].Val.Addr), 1)
					r.doVote(i, r.acct(r.cw.w.Vals[1].Val.Addr), 1)
				}
			}
		}
		for i := 0; i < n; i++ {
			r.randomOp(g, h)
		}
		g.prev = r.endBlock()
		if b == relaunchAt {
			r.relaunch()
			g.prev = &r.c.Obs[len(r.c.Obs)-1]
		}
	}
	return r.finish()
}

// E11: an unrelated account sends EXPIRE_VOTES for a proposal in its funding stage, long before any deadline
func c14ScriptE11() *c14Case {
	r := c14NewRun("e11")
	h := r.beginBlock()
	r.doCreate(2, 0, "2000000000", h+8, h+8+c14VDelta[2], "10000000000", int64(c14Pass[2]), "", true)
	r.endBlock()
	r.beginBlock()
	cc, ok := r.doExpire(0, 4, true)
	o := r.endBlock()
	r.c.Notes["e11_checktx_code"] = cc
	r.c.Notes["e11_deliver_ok"] = ok
	r.c.Notes["e11_moved_to_failed"] = o.Props[0] != nil && o.Props[0].Stores == 4 && o.Props[0].Outcome == 2
	// funds stay locked until the funding deadline has passed; then they can be withdrawn
	r.beginBlock()
	r.doWithdraw(0, 0, "2000000000", 0)
	r.endBlock()
	for r.rep.H < h+9 {
		r.beginBlock()
		r.endBlock()
	}
	r.beginBlock()
	r.doWithdraw(0, 0, "2000000000", 0)
	r.endBlock()
	return r.finish()
}

// probe: a negative contribution (Validate checks the currency of a fund / withdraw amount, not its sign)
func c14ScriptNegative() *c14Case {
	r := c14NewRun("negfund")
	h := r.beginBlock()
	r.doCreate(2, 1, "5000000000", h+4, h+4+c14VDelta[2], "10000000000", int64(c14Pass[2]), "", true)
	r.endBlock()
	r.beginBlock()
	u := r.userKey(2)
	tx := txPropFundRaw(u, r.pids[0], oltAmt("-5000000000"), r.memo())
	r.c.Notes["negfund_checktx_code"] = r.rep.CheckTx(tx).Code
	r.doFund(0, 2, "-5000000000")
	r.c.Notes["negfund_deliver_ok"] = r.c.Ops[len(r.c.Ops)-1].Ok
	r.endBlock()
	r.beginBlock()
	r.doCancel(0, 1)
	r.endBlock()
	r.beginBlock()
	r.doWithdraw(0, 1, "5000000000", 1)
	r.c.Notes["negfund_refund_ok"] = r.c.Ops[len(r.c.Ops)-1].Ok
	r.doWithdraw(0, 2, "-1", 2)
	r.c.Notes["negwithdraw_ok"] = r.c.Ops[len(r.c.Ops)-1].Ok
	r.endBlock()
	return r.finish()
}

// probe: the vote handler tallies with the CURRENT option percentage, finalisation with the proposal's own
func c14ScriptDrift() *c14Case {
	// option values inside the ranges ValidateProposal demands, so that a proposal-option update validates
	oldV, oldF := c14VDelta, c14FundDL
	c14VDelta, c14FundDL = c14ProdVDelta, c14ProdFundDL
	defer func() { c14VDelta, c14FundDL = oldV, oldF }()
	r := c14NewRun("drift")
	v0, v1, v2 := r.acct(r.cw.w.Vals[0].Val.Addr), r.acct(r.cw.w.Vals[1].Val.Addr), r.acct(r.cw.w.Vals[2].Val.Addr)
	h := r.beginBlock()
	r.doCreate(0, 1, "1000000000", h+3, h+3+c14VDelta[0], "10000000000", int64(c14Pass[0]), "propOptions.configUpdate.passPercentage:80", true)
	r.endBlock()
	r.beginBlock()
	r.doFund(0, 2, "9000000000")
	r.doCreate(0, 3, "1000000000", h+4, h+4+c14VDelta[0], "10000000000", int64(c14Pass[0]), fmt.Sprintf("onsOptions.perBlockFees:%d", c14CfgBase+1+1), true)
	r.endBlock()
	r.beginBlock()
	r.doVote(0, v0, 1)
	r.doVote(0, v1, 1)
	r.doFund(1, 4, "9000000000")
	r.endBlock()
	r.beginBlock() // p0 is finalised at this EndBlock: configUpdate.passPercentage becomes 80
	r.endBlock()
	r.beginBlock()
	r.doVote(1, v0, 1)
	r.doVote(1, v1, 1)
	r.doVote(1, v2, 2) // yes 2/3 < 80%, 1-no = 2/3 < 80%: FAILED under the new option
	r.endBlock()
	var last *c14Obs
	for i := 0; i < 2; i++ {
		r.beginBlock()
		last = r.endBlock()
	}
	p1 := last.Props[1]
	r.c.Notes["drift_p1_outcome_yes"] = p1 != nil && p1.Outcome == 5
	r.c.Notes["drift_p1_two_stores"] = last.Anom
	r.c.Notes["drift_applied"] = len(last.Applied) > 1 && last.Applied[0] && last.Applied[1]
	return r.finish()
}

// pass a configuration proposal (index id, already created by user 1 with 1e9) through funding, voting and the
// automatic finalisation; returns after the block in which it was finalised
func (r *c14Run) passConfig(id int) {
	v0, v1 := r.acct(r.cw.w.Vals[0].Val.Addr), r.acct(r.cw.w.Vals[1].Val.Addr)
	r.beginBlock()
	r.doFund(id, 2, "9000000000")
	r.endBlock()
	r.beginBlock()
	r.doVote(id, v0, 1)
	r.doVote(id, v1, 1)
	r.endBlock()
	r.beginBlock()
	r.endBlock()
}

// the funding-goal option of a type is changed by a finalised configuration proposal while another proposal of that
// type is in its funding stage: the other proposal keeps the goal RECORDED in it (raised: it must still start voting
// when its recorded goal is met; lowered: it must not start voting below its recorded goal)
func c14ScriptGoal(raised bool) func() *c14Case {
	return func() *c14Case {
		return c14WithProd(func() *c14Case {
			name, val := "goallow", "5000000000"
			if raised {
				name, val = "goalup", "20000000000"
			}
			r := c14NewRun(name)
			r.prod = true
			h := r.beginBlock()
			r.doCreate(0, 1, "1000000000", h+3, h+3+c14VDelta[0], "10000000000", int64(c14Pass[0]), "propOptions.general.fundingGoal:"+val, true)
			r.doCreate(2, 3, "1000000000", h+9, h+9+c14VDelta[2], "10000000000", int64(c14Pass[2]), "", true) // p1: general, recorded goal 1e10
			r.endBlock()
			r.passConfig(0) // general.fundingGoal is now val
			r.beginBlock()
			r.doFund(1, 4, "5000000000") // total 6e9: above the lowered option, below the recorded goal
			r.endBlock()
			r.beginBlock()
			r.doFund(1, 5, "4000000000")                                                                        // total 1e10 = recorded goal, below the raised option
			r.doCreate(2, 4, "1000000000", r.rep.H+5, r.rep.H+5+c14VDelta[2], val, int64(c14Pass[2]), "", true) // a new one follows the option
			r.doCreate(2, 4, "1000000000", r.rep.H+5, r.rep.H+5+c14VDelta[2], "10000000000", int64(c14Pass[2]), "", true)
			o := r.endBlock()
			r.c.Notes[name+"_p1_voting"] = o.Props[1] != nil && o.Props[1].Status == 1
			r.beginBlock()
			r.doVote(1, r.acct(r.cw.w.Vals[0].Val.Addr), 1)
			r.doWithdraw(1, 4, "5000000000", 4)
			r.endBlock()
			for r.rep.H < h+11 {
				r.beginBlock()
				r.endBlock()
			}
			r.beginBlock()
			r.doWithdraw(1, 4, "5000000000", 4) // after the funding deadline: still refused, the recorded goal was met
			r.doFund(1, 5, "1")
			o = r.endBlock()
			r.c.Notes[name+"_p1_final_stage_ok"] = o.Props[1] != nil && o.Props[1].Stores == 1 && o.Props[1].Status == 1 && o.Props[1].Total == "10000000000"
			return r.finish()
		})
	}
}

// votingDeadline, fundingDeadline, initialFunding and passPercentage of a type changed while proposals of that type are
// in their funding / voting stage
func c14ScriptOptions() *c14Case {
	return c14WithProd(func() *c14Case {
		r := c14NewRun("optmix")
		r.prod = true
		v0, v1, v2 := r.acct(r.cw.w.Vals[0].Val.Addr), r.acct(r.cw.w.Vals[1].Val.Addr), r.acct(r.cw.w.Vals[2].Val.Addr)
		h := r.beginBlock()
		keys := []string{"propOptions.codeChange.votingDeadline:150777", "propOptions.codeChange.passPercentage:80",
			"propOptions.codeChange.initialFunding:1400000000", "propOptions.codeChange.fundingDeadline:10777"}
		for i, k := range keys {
			r.doCreate(0, 1, "1000000000", h+3+int64(i), h+3+int64(i)+c14VDelta[0], "10000000000", int64(c14Pass[0]), k, true)
		}
		r.doCreate(1, 3, "1000000000", h+12, h+12+c14VDelta[1], "10000000000", int64(c14Pass[1]), "", true) // p4: funding while the options change
		r.doCreate(1, 3, "9000000000", h+12, h+12+c14VDelta[1], "10000000000", int64(c14Pass[1]), "", true) // p5
		r.endBlock()
		r.beginBlock()
		for i := range keys {
			r.doFund(i, 2, "9000000000")
		}
		r.doFund(5, 4, "1000000000") // p5 starts voting under the genesis options (deadline = h + 150000)
		r.endBlock()
		r.beginBlock()
		for i := range keys {
			r.doVote(i, v0, 1)
			r.doVote(i, v1, 1)
		}
		r.doVote(5, v0, 1)
		r.endBlock()
		r.beginBlock() // the four updates are applied at this EndBlock
		r.endBlock()
		r.beginBlock()
		r.doFund(4, 5, "9000000000")                                                             // p4 starts voting now: deadline = height + the NEW option (150777)
		r.doVote(5, v1, 1)                                                                       // p5: yes 2/3 = 66% >= its own 60% although the option is 80 now: passes
		r.doCreate(1, 4, "1000000000", r.rep.H+4, r.rep.H+4+150777, "10000000000", 80, "", true) // initial funding now 1.4e9: refused
		r.doCreate(1, 4, "1400000000", r.rep.H+4, r.rep.H+4+150777, "10000000000", 80, "", true) // accepted
		r.doCreate(1, 4, "1400000000", r.rep.H+4, r.rep.H+4+150000, "10000000000", 60, "", true) // genesis values: refused
		r.endBlock()
		r.beginBlock()
		r.doVote(4, v0, 1)
		r.doVote(4, v1, 1)
		r.doVote(4, v2, 2)
		r.endBlock()
		for i := 0; i < 2; i++ {
			r.beginBlock()
			r.endBlock()
		}
		return r.finish()
	})
}

// two configuration updates that are each valid when created contradict each other (a funding goal must be >= 3 x the
// initial funding): the one finalised second fails its validation -> FINALIZE-FAILED with its funds still recorded.
// Then the id of a proposal in EVERY state (funding, voting, passed, failed, finalized, finalize-failed) is submitted
// again: all must be refused; the finalize-failed proposal never leaves its state
func c14ScriptFinFail() *c14Case {
	return c14WithProd(func() *c14Case {
		r := c14NewRun("finfail")
		r.prod = true
		v0, v1 := r.acct(r.cw.w.Vals[0].Val.Addr), r.acct(r.cw.w.Vals[1].Val.Addr)
		h := r.beginBlock()
		mk := func(ty, who int, cfg string) {
			r.doCreate(ty, who, "1000000000", h+6, h+6+c14VDelta[ty], "10000000000", int64(c14Pass[ty]), cfg, true)
		}
		mk(0, 1, "propOptions.configUpdate.fundingGoal:4000000000")    // p0 = A
		mk(0, 1, "propOptions.configUpdate.initialFunding:2000000000") // p1 = B: valid now (1e10 >= 6e9), not after A
		mk(2, 3, "")                                                   // p2 stays in funding
		mk(2, 3, "")                                                   // p3 goes to voting
		mk(2, 4, "")                                                   // p4 is cancelled
		mk(1, 4, "")                                                   // p5 passes and is finalised
		r.endBlock()
		r.beginBlock()
		for _, i := range []int{0, 1, 3, 5} {
			r.doFund(i, 2, "9000000000")
		}
		r.doCancel(4, 4)
		r.endBlock()
		r.beginBlock()
		r.doVote(0, v0, 1)
		r.doVote(0, v1, 1)
		r.endBlock()
		r.beginBlock() // A is finalised at this EndBlock: configUpdate.fundingGoal = 4e9
		r.doVote(1, v0, 1)
		r.doVote(1, v1, 1)
		r.doVote(5, v0, 1)
		r.doVote(5, v1, 1)
		r.endBlock()
		hh := r.beginBlock() // B and p5 sit in the passed store until this EndBlock
		anyOk := false
		for _, i := range []int{2, 3, 1, 5, 4, 0} {
			anyOk = r.recreateLive(i, 5, hh) || anyOk
		}
		o := r.endBlock()
		r.c.Notes["finfail_reached"] = o.Props[1] != nil && o.Props[1].Stores == 16 && o.Props[1].Total == "10000000000"
		hh = r.beginBlock()
		for _, i := range []int{1, 5} {
			anyOk = r.recreateLive(i, 5, hh) || anyOk
		}
		anyOk = r.doRecreate(1, 0, 1, "1000000000", hh+3, hh+3+c14VDelta[0], "4000000000", int64(c14Pass[0]), "onsOptions.perBlockFees:100000000000777", true) || anyOk
		r.doFund(1, 2, "1")
		r.doWithdraw(1, 2, "9000000000", 2)
		r.doFinalize(1, 3)
		o = r.endBlock()
		r.c.Notes["finfail_recreate_accepted"] = anyOk
		r.c.Notes["finfail_still_terminal"] = o.Props[1] != nil && o.Props[1].Stores == 16 && o.Props[1].Total == "10000000000"
		r.beginBlock()
		r.endBlock()
		return r.finish()
	})
}

// export / import: proposals in every state (funding, voting with partial votes, passed and voted-down but not yet
// finalised, cancelled, finalized) are exported the way save_state does and imported by a fresh chain; the history goes on
// there: the waiting proposals are finalised according to their recorded votes, one more vote decides the partial one
func c14ScriptRelaunch() *c14Case {
	return c14WithProd(func() *c14Case {
		r := c14NewRun("relaunch")
		r.prod = true
		v0, v1, v2 := r.acct(r.cw.w.Vals[0].Val.Addr), r.acct(r.cw.w.Vals[1].Val.Addr), r.acct(r.cw.w.Vals[2].Val.Addr)
		h := r.beginBlock()
		mk := func(ty, who int, cfg string) {
			r.doCreate(ty, who, "1000000000", h+9, h+9+c14VDelta[ty], "10000000000", int64(c14Pass[ty]), cfg, true)
		}
		mk(2, 1, "")                                                                    // p0 general (67%): two yes votes before the export (66.6%: undecided), the third after the import
		mk(1, 2, "")                                                                    // p1 codeChange: passed, waiting for its finalisation at the export
		mk(2, 3, "")                                                                    // p2 general: still being funded
		mk(2, 4, "")                                                                    // p3 cancelled
		mk(0, 1, fmt.Sprintf("onsOptions.perBlockFees:%d", c14CfgBase+5))               // p4 finalised before the export
		mk(1, 2, "")                                                                    // p5 codeChange: voted down, waiting for its finalisation at the export
		mk(0, 3, fmt.Sprintf("onsOptions.baseDomainPrice:10000000000000000000%02d", 7)) // p6 config: passed, waiting; applied after the import
		r.endBlock()
		r.beginBlock()
		for _, i := range []int{0, 1, 4, 5, 6} {
			r.doFund(i, 2, "9000000000")
		}
		r.doFund(2, 5, "3000000000")
		r.doCancel(3, 4)
		r.endBlock()
		r.beginBlock()
		r.doVote(4, v0, 1)
		r.doVote(4, v1, 1)
		r.endBlock()
		r.beginBlock() // p4 finalised
		r.endBlock()
		r.beginBlock()
		r.doVote(0, v0, 1)
		r.doVote(0, v1, 1)
		r.doVote(1, v0, 1)
		r.doVote(1, v2, 1)
		r.doVote(5, v1, 2)
		r.doVote(5, v2, 2)
		r.doVote(6, v0, 1)
		r.doVote(6, v1, 1)
		r.doWithdraw(3, 4, "400000000", 4)
		r.endBlock()
		r.relaunch() // p1, p5, p6 are finalised by the new chain in its first blocks, from their imported votes
		last := &r.c.Obs[len(r.c.Obs)-1]
		ok := func(i int, stores, outcome int64) bool {
			return last.Props[i] != nil && last.Props[i].Stores == stores && last.Props[i].Outcome == outcome
		}
		r.c.Notes["relaunch_waiting_finalised"] = ok(1, 8, 5) && ok(5, 8, 3) && ok(6, 8, 5) && len(last.Applied) > 6 && last.Applied[6]
		hh := r.beginBlock()
		r.doVote(0, v2, 1) // third yes: 100% >= 67%
		r.doFund(2, 5, "6000000000")
		r.doWithdraw(3, 4, "600000000", 4)
		r.recreateLive(4, 5, hh)
		o := r.endBlock()
		r.c.Notes["relaunch_partial_votes_kept"] = o.Props[0] != nil && o.Props[0].Stores == 2 && o.Props[0].Outcome == 5
		for i := 0; i < 2; i++ {
			r.beginBlock()
			r.endBlock()
		}
		return r.finish()
	})
}

func c14WithCur(cur string, f func()) {
	old := c14Cur
	c14Cur = cur
	defer func() { c14Cur = old }()
	f()
}

// amounts denominated in another currency: ETH (registered; users 0 and 1 really own 5e10 of it, user 3 owns none), an
// unknown name, the empty string — for create, fund and withdraw.  Everything must be refused without any effect: the
// fund store is denominated in OLT
func c14ScriptCurrency() *c14Case {
	r := c14NewRun("currency")
	h := r.beginBlock()
	r.doCreate(2, 2, "2000000000", h+6, h+6+c14VDelta[2], "10000000000", int64(c14Pass[2]), "", true) // p0 in OLT
	r.doCreate(2, 2, "2000000000", h+6, h+6+c14VDelta[2], "10000000000", int64(c14Pass[2]), "", true) // p1 in OLT, cancelled below
	anyOk := false
	last := func() bool { return r.c.Ops[len(r.c.Ops)-1].Ok }
	for _, cur := range []string{"ETH", "XYZ", ""} {
		for _, who := range []int{0, 3} { // owner of ETH, non-owner
			c14WithCur(cur, func() {
				r.doCreate(2, who, "2000000000", h+6, h+6+c14VDelta[2], "10000000000", int64(c14Pass[2]), "", true)
				anyOk = anyOk || last()
				r.doFund(0, who, "3000000000")
				anyOk = anyOk || last()
			})
		}
	}
	r.doCancel(1, 2)
	r.endBlock()
	r.beginBlock()
	for _, cur := range []string{"ETH", "XYZ", ""} {
		c14WithCur(cur, func() {
			r.doWithdraw(1, 2, "1000000000", 0) // the funder asks for the refund in another currency
			anyOk = anyOk || last()
		})
	}
	c14WithCur("ETH", func() {
		r.doFund(0, 1, "8000000000") // would bring p0 to its goal
		anyOk = anyOk || last()
	})
	r.doWithdraw(1, 2, "2000000000", 2)
	o := r.endBlock()
	r.c.Notes["currency_non_olt_accepted"] = anyOk
	r.c.Notes["currency_p0_untouched"] = o.Props[0] != nil && o.Props[0].Total == "2000000000" && o.Props[0].Status == 0
	r.beginBlock()
	r.endBlock()
	return r.finish()
}

// tallies at and around the thresholds: three validators with powers 3350000 / 3300000 / 3350000 (total 10^7) and a
// 67% proposal: a NO of exactly 33% leaves 67% reachable (undecided; the remaining two YES then pass it), a NO of 33.5%
// makes a pass impossible (failed)
func c14ScriptTally() *c14Case {
	return c14WithPowers([]int64{3349000, 3300000, 3350000}, func() *c14Case {
		r := c14NewRun("tally")
		v0, v1, v2 := r.acct(r.cw.w.Vals[0].Val.Addr), r.acct(r.cw.w.Vals[1].Val.Addr), r.acct(r.cw.w.Vals[2].Val.Addr)
		h := r.beginBlock()
		for i := 0; i < 3; i++ {
			r.doCreate(2, 1, "1000000000", h+4, h+4+c14VDelta[2], "10000000000", int64(c14Pass[2]), "", true)
		}
		r.endBlock()
		r.beginBlock()
		for i := 0; i < 3; i++ {
			r.doFund(i, 2, "9000000000")
		}
		r.endBlock()
		r.beginBlock()
		r.doVote(0, v1, 2) // NO = exactly 33%: 67% can still be reached
		r.doVote(1, v0, 2) // NO = 33.5%: at most 66.5% can be reached
		r.doVote(2, v0, 1)
		r.doVote(2, v2, 1) // YES = exactly 67%
		o := r.endBlock()
		r.c.Notes["tally_exact33_undecided"] = o.Props[0] != nil && o.Props[0].Stores == 1 && o.Props[0].Status == 1
		r.c.Notes["tally_33p5_failed"] = o.Props[1] != nil && o.Props[1].Stores == 4 && o.Props[1].Outcome == 3
		r.c.Notes["tally_exact67_passed"] = o.Props[2] != nil && o.Props[2].Stores == 2 && o.Props[2].Outcome == 5
		r.beginBlock()
		r.doVote(0, v0, 1)
		r.doVote(0, v2, 1) // 67% YES: passes
		o = r.endBlock()
		r.c.Notes["tally_exact33_then_passes"] = o.Props[0] != nil && o.Props[0].Outcome == 5
		for i := 0; i < 2; i++ {
			r.beginBlock()
			r.endBlock()
		}
		return r.finish()
	})
}

// proposal ids that are 64 characters long but not hexadecimal: one containing '_' (the fund store splits its keys on
// '_'), one starting with '~' (outside every store scan range)
func c14ScriptBadID() *c14Case {
	r := c14NewRun("badid")
	v0, v1 := r.acct(r.cw.w.Vals[0].Val.Addr), r.acct(r.cw.w.Vals[1].Val.Addr)
	idU := strings.Repeat("a", 30) + "_" + strings.Repeat("b", 33)
	idU2 := strings.Repeat("c", 10) + "_" + strings.Repeat("d", 53)
	idT := "~" + strings.Repeat("e", 63)
	h := r.beginBlock()
	for i, id := range []string{idU, idU2, idT} {
		r.nextID = id
		ty := []int{2, 1, 1}[i] // the two that are voted on are codeChange proposals (60%)
		r.doCreate(ty, 1, "2000000000", h+5, h+5+c14VDelta[ty], "10000000000", int64(c14Pass[ty]), "", true)
	}
	created := r.c.Ops[len(r.c.Ops)-1].Ok || r.c.Ops[len(r.c.Ops)-2].Ok || r.c.Ops[len(r.c.Ops)-3].Ok
	r.c.Notes["badid_created"] = created
	r.endBlock()
	r.beginBlock()
	r.doFund(0, 2, "3000000000")
	r.doFund(1, 2, "8000000000")
	r.doFund(2, 2, "8000000000")
	r.doCancel(0, 1)
	r.endBlock()
	r.beginBlock()
	r.doWithdraw(0, 2, "3000000000", 2) // cancelled: the funder must get the contribution back
	r.c.Notes["badid_refund_ok"] = r.c.Ops[len(r.c.Ops)-1].Ok
	for _, i := range []int{1, 2} {
		r.doVote(i, v0, 1)
		r.doVote(i, v1, 1)
	}
	r.endBlock()
	var o *c14Obs
	for i := 0; i < 3; i++ {
		r.beginBlock()
		o = r.endBlock()
	}
	fin := func(i int) bool { return len(o.Props) > i && o.Props[i] != nil && o.Props[i].Stores == 8 }
	r.c.Notes["badid_finalised"] = fin(1) && fin(2)
	r.c.Notes["badid_records_left"] = len(r.survivors(r.rep.Dump()))
	return r.finish()
}

// a proposal that reaches its goal but not enough votes expires after its voting deadline; what happens to its funds?
func c14ScriptExpired() *c14Case {
	r := c14NewRun("expired")
	v0 := r.acct(r.cw.w.Vals[0].Val.Addr)
	h := r.beginBlock()
	r.doCreate(2, 1, "2000000000", h+3, h+3+c14VDelta[2], "10000000000", int64(c14Pass[2]), "", true)
	r.endBlock()
	r.beginBlock()
	r.doFund(0, 2, "8000000000")
	r.endBlock()
	r.beginBlock()
	r.doVote(0, v0, 1)
	r.endBlock()
	var o *c14Obs
	for r.rep.H < h+1+c14VDelta[2]+3 {
		r.beginBlock()
		o = r.endBlock()
	}
	r.c.Notes["expired_reached"] = o.Props[0] != nil && o.Props[0].Stores == 4 && o.Props[0].Outcome == 2
	r.beginBlock()
	r.doWithdraw(0, 2, "8000000000", 2)
	wok := r.c.Ops[len(r.c.Ops)-1].Ok
	r.doFinalize(0, 3)
	fok := r.c.Ops[len(r.c.Ops)-1].Ok
	o = r.endBlock()
	r.c.Notes["expired_funds_locked"] = !wok && !fok && o.Props[0].Total == "10000000000" && o.Props[0].Stores == 4
	for i := 0; i < 2; i++ {
		r.beginBlock()
		r.endBlock()
	}
	return r.finish()
}

// a full honest life: create, fund to the goal, vote yes, automatic finalisation (config update applied), and a failing one
func c14ScriptLife() *c14Case {
	r := c14NewRun("life")
	h := r.beginBlock()
	r.doCreate(0, 1, "1000000000", h+3, h+3+c14VDelta[0], "10000000000", int64(c14Pass[0]), fmt.Sprintf("onsOptions.perBlockFees:%d", c14CfgBase+1), true)
	r.doCreate(1, 2, "5000000000", h+2, h+2+c14VDelta[1], "10000000000", int64(c14Pass[1]), "", true)
	r.doCreate(2, 3, "1000000000", h+2, h+2+c14VDelta[2], "10000000000", int64(c14Pass[2]), "", true)
	r.endBlock()
	r.beginBlock()
	r.doFund(0, 2, "9000000000")
	r.doFund(1, 3, "4000000000")
	r.doFund(1, 4, "2500000000")
	r.doFund(2, 5, "1")
	r.endBlock()
	r.beginBlock()
	v0, v1, v2 := r.acct(r.cw.w.Vals[0].Val.Addr), r.acct(r.cw.w.Vals[1].Val.Addr), r.acct(r.cw.w.Vals[2].Val.Addr)
	r.doVote(0, v0, 1)
	r.doVote(1, v0, 2)
	r.doVote(0, v1, 1)
	r.doVote(1, v1, 2)
	r.doVote(1, v2, 3)
	r.endBlock()
	for i := 0; i < 3; i++ {
		r.beginBlock()
		if i == 1 {
			r.doWithdraw(2, 3, "1000000000", 3)
			r.doWithdraw(2, 5, "1", 0)
			r.doFinalize(0, 5)
			// p0 was finalised after p1 in the same EndBlock: its funder records survived; a zero withdrawal now succeeds
			r.doWithdraw(0, 2, "0", 2)
			r.c.Notes["stale_zero_withdraw_ok"] = r.c.Ops[len(r.c.Ops)-1].Ok
			r.doWithdraw(0, 2, "1", 2)
			r.doWithdraw(1, 3, "0", 3)
		}
		o := r.endBlock()
		if i == 1 {
			r.c.Notes["stale_survivors"] = len(r.survivors(r.rep.Dump()))
			r.c.Notes["stale_two_stores"] = o.Anom
		}
	}
	return r.finish()
}

func c14CoqOp(o c14Op) string {
	var op string
	switch o.Kind {
	case "begin":
		op = fmt.Sprintf("OBegin %s", c14Zi(o.H))
	case "end":
		op = "OEnd"
	case "create":
		op = fmt.Sprintf("OCreate %d%%N %s %d%%N %s %s %s %s %s %v", o.ID, []string{"TConfig", "TCode", "TGeneral"}[o.Ty], o.A, c14Z(o.Amt), c14Zi(o.Fdl), c14Zi(o.Vdl), c14Z(o.Goal), c14Zi(o.Pass), o.CfgValid)
	case "fund":
		op = fmt.Sprintf("OFund %d%%N %d%%N %s", o.ID, o.A, c14Z(o.Amt))
	case "vote":
		op = fmt.Sprintf("OVote %d%%N %d%%N %s", o.ID, o.A, []string{"OpUnknown", "OpYes", "OpNo", "OpGiveup"}[o.Opin])
	case "cancel":
		op = fmt.Sprintf("OCancel %d%%N %d%%N", o.ID, o.A)
	case "withdraw":
		op = fmt.Sprintf("OWithdraw %d%%N %d%%N %s %d%%N", o.ID, o.A, c14Z(o.Amt), o.Ben)
	case "expire":
		op = fmt.Sprintf("OExpire %d%%N", o.ID)
	case "finalize":
		op = fmt.Sprintf("OFinalize %d%%N", o.ID)
	case "adjust":
		op = fmt.Sprintf("OAdjust %d%%N %s", o.A, c14Z(o.Amt))
	case "reload":
		bs := []string{}
		for i, b := range o.Bals {
			bs = append(bs, fmt.Sprintf("(%d%%N, %s)", i, c14Z(b)))
		}
		return fmt.Sprintf("HReload %s [%s] %s", c14Zi(o.H), strings.Join(bs, "; "), c14Z(o.Amt))
	}
	env := "e0"
	if o.Env >= 0 {
		env = fmt.Sprintf("e%d", o.Env)
	}
	return fmt.Sprintf("HOp (mkTx (%s) %s %d%%N %s %d%%N)", op, env, o.Payer, c14Z(o.Fee), o.Cur)
}

func c14Bools(bs []bool) string {
	x := []string{}
	for _, b := range bs {
		x = append(x, fmt.Sprint(b))
	}
	return "[" + strings.Join(x, "; ") + "]"
}

func c14CoqObs(o c14Obs) string {
	ps := []string{}
	for _, p := range o.Props {
		if p == nil {
			ps = append(ps, "None")
			continue
		}
		iv := []string{}
		for _, v := range p.Indiv {
			iv = append(iv, c14Z(v))
		}
		vv := []string{}
		for _, v := range p.Votes {
			vv = append(vv, fmt.Sprintf("(%s, %s)", c14Zi(v[0]), c14Zi(v[1])))
		}
		ps = append(ps, fmt.Sprintf("Some (mkPO %d %d %d %d %d %s %s %s %s %s [%s] [%s])", p.Stores, p.Status, p.Outcome, p.Type, p.Proposer,
			c14Zi(p.Fdl), c14Zi(p.Vdl), c14Z(p.Goal), c14Zi(p.Pass), c14Z(p.Total), strings.Join(iv, "; "), strings.Join(vv, "; ")))
	}
	fl := []string{}
	for _, f := range o.Flows {
		fl = append(fl, fmt.Sprintf("(%s, %s)", c14Z(f[0]), c14Z(f[1])))
	}
	bs := []string{}
	for _, b := range o.Bal {
		bs = append(bs, c14Z(b))
	}
	return fmt.Sprintf("mkSO %s [%s] [%s] %s %v %s %v [%s]", c14Zi(o.H), strings.Join(ps, "; "), strings.Join(bs, "; "), c14Z(o.Pool), o.Anom, c14Bools(o.Applied), o.Reload, strings.Join(fl, "; "))
}

func c14WriteCoq(path string, cases []*c14Case, na int) {
	var sb strings.Builder
	sb.WriteString("From stdpp Require Import gmap list.\nFrom Coq Require Import ZArith.\nFrom OL Require Import theories.Gov theories.GovCheck.\nLocal Open Scope Z_scope.\n")
	names := []string{}
	for ci, c := range cases {
		sb.WriteString(fmt.Sprintf("Module C%d.\n", ci))
		if len(c.Envs) == 0 {
			sb.WriteString("Definition e0 : env := mkEnv (mkOpts 0 0 0 0 (mkDist 0 0 0 0 0) (mkDist 0 0 0 0 0)) (mkOpts 0 0 0 0 (mkDist 0 0 0 0 0) (mkDist 0 0 0 0 0)) (mkOpts 0 0 0 0 (mkDist 0 0 0 0 0) (mkDist 0 0 0 0 0)) [] [] 0%N 0%N [].\n")
		}
		for i, e := range c.Envs {
			sb.WriteString(fmt.Sprintf("Definition e%d : env := %s.\n", i, e))
		}
		ops, oks, obs := []string{}, []string{}, []string{}
		for _, o := range c.Ops {
			ops = append(ops, c14CoqOp(o))
			oks = append(oks, fmt.Sprint(o.Ok))
		}
		for _, o := range c.Obs {
			obs = append(obs, c14CoqObs(o))
		}
		ini := []string{}
		for _, b := range c.Init {
			ini = append(ini, c14Z(b))
		}
		sb.WriteString(fmt.Sprintf("Definition c : gcase := mkCase %d %d [%s] %s\n [%s]\n [%s]\n [%s].\nEnd C%d.\n", c.NP, len(c.Init), strings.Join(ini, "; "), c14Z(c.Pool),
			strings.Join(ops, ";\n  "), strings.Join(oks, "; "), strings.Join(obs, ";\n  "), ci))
		names = append(names, fmt.Sprintf("C%d.c", ci))
	}
	sb.WriteString("Definition cases : list gcase := [" + strings.Join(names, "; ") + "].\n")
	sb.WriteString("Definition MM := Eval vm_compute in mismatches 0 cases.\nPrint MM.\n")
	sb.WriteString("Definition MON := Eval vm_compute in monitors 0 cases.\nPrint MON.\n")
	must(os.WriteFile(path, []byte(sb.String()), 0644))
}

type c14Report struct {
	Files      []string               `json:"files"`
	Cases      int                    `json:"cases"`
	Blocks     int                    `json:"blocks"`
	Steps      int                    `json:"steps"`
	Proposals  int                    `json:"proposals"`
	OpHist     map[string]int         `json:"op_histogram"`
	OkHist     map[string]int         `json:"ok_histogram"`
	StageHist  map[string]int         `json:"final_stage_histogram"`
	Distinct   int                    `json:"distinct_cases"`
	Notes      map[string]interface{} `json:"notes"`
	Samples    []string               `json:"samples"`
	ShardOf    []int                  `json:"shard_of"`    // case -> file index
	ShardFirst []int                  `json:"shard_first"` // file index -> first case
}

func c14Main(args []string) int {
	fs := flag.NewFlagSet("c14", flag.ExitOnError)
	seed := fs.Int64("seed", 1, "PRNG seed")
	n := fs.Int("n", 12, "number of random histories")
	nb := fs.Int("blocks", 26, "blocks per history")
	outDir := fs.String("out", ".", "output directory")
	shard := fs.Int("shard", 4, "cases per Coq file")
	only := fs.Int("only", -1, "run only this case index")
	fs.Parse(args)

	cases := []*c14Case{}
	builders := []func() *c14Case{c14ScriptE11, c14ScriptLife, c14ScriptNegative, c14ScriptDrift, c14ScriptGoal(true), c14ScriptGoal(false), c14ScriptOptions, c14ScriptFinFail, c14ScriptRelaunch, c14ScriptCurrency, c14ScriptTally, c14ScriptBadID, c14ScriptExpired}
	for i := 0; i < *n; i++ {
		ci := i
		builders = append(builders, func() *c14Case { return c14Random(*seed, ci, *nb) })
	}
	for i, b := range builders {
		if *only >= 0 && i != *only {
			continue
		}
		cases = append(cases, b())
	}
	na := len(c14NewWorld().accts)
	rep := c14Report{OpHist: map[string]int{}, OkHist: map[string]int{}, StageHist: map[string]int{}, Notes: map[string]interface{}{}}
	seen := map[string]bool{}
	for _, c := range cases {
		rep.Cases++
		rep.Steps += len(c.Ops)
		rep.Blocks += len(c.Obs)
		rep.Proposals += c.NP
		var sb strings.Builder
		for _, o := range c.Ops {
			rep.OpHist[o.Kind]++
			if o.Kind != "begin" && o.Kind != "end" {
				rep.OkHist[fmt.Sprintf("%s:%v", o.Kind, o.Ok)]++
			}
			sb.WriteString(c14CoqOp(o))
		}
		seen[sb.String()] = true
		if len(c.Obs) > 0 {
			for _, p := range c.Obs[len(c.Obs)-1].Props {
				if p == nil {
					rep.StageHist["never-created"]++
				} else {
					rep.StageHist[fmt.Sprintf("stores=%d status=%d outcome=%d", p.Stores, p.Status, p.Outcome)]++
				}
			}
		}
		for k, v := range c.Notes {
			rep.Notes[k] = v
		}
	}
	rep.Distinct = len(seen)
	for i := 0; i < len(cases); i += *shard {
		j := i + *shard
		if j > len(cases) {
			j = len(cases)
		}
		f := filepath.Join(*outDir, fmt.Sprintf("c14_cases_%d.v", len(rep.Files)))
		c14WriteCoq(f, cases[i:j], na)
		rep.ShardFirst = append(rep.ShardFirst, i)
		for k := i; k < j; k++ {
			rep.ShardOf = append(rep.ShardOf, len(rep.Files))
		}
		rep.Files = append(rep.Files, f)
	}
	for i, c := range cases {
		if i < 3 {
			d := []string{}
			for _, o := range c.Ops {
				if o.Descr != "" {
					d = append(d, fmt.Sprintf("%s -> ok=%v", o.Descr, o.Ok))
				}
			}
			if len(d) > 12 {
				d = d[:12]
			}
			rep.Samples = append(rep.Samples, c.Name+": "+strings.Join(d, " | "))
		}
	}
	bz, _ := json.Marshal(cases)
	must(os.WriteFile(filepath.Join(*outDir, "c14_cases.json"), bz, 0644))
	bz, _ = json.MarshalIndent(rep, "", " ")
	must(os.WriteFile(filepath.Join(*outDir, "c14_report.json"), bz, 0644))
	ks := []string{}
	for k := range rep.OkHist {
		ks = append(ks, k)
	}
	sort.Strings(ks)
	say("c14: %d cases, %d blocks, %d steps, %d proposals; notes %v\n", rep.Cases, rep.Blocks, rep.Steps, rep.Proposals, rep.Notes)
	for _, k := range ks {
		say("  %s %d\n", k, rep.OkHist[k])
	}
	_ = hex.EncodeToString
	return 0
}
