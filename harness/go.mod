module verifharness

go 1.23

require (
	github.com/Oneledger/protocol v0.0.0
	github.com/tendermint/tm-db v0.5.1
)

require (
	github.com/ChainSafe/go-schnorrkel v0.0.0-20200102211924-4bcbc698314f // indirect
	github.com/Oneledger/toml v0.4.1 // indirect
	github.com/btcsuite/btcd v0.20.1-beta // indirect
	github.com/cosmos/go-bip39 v0.0.0-20180819234021-555e2067c45d // indirect
	github.com/davecgh/go-spew v1.1.1 // indirect
	github.com/go-kit/kit v0.10.0 // indirect
	github.com/go-logfmt/logfmt v0.5.0 // indirect
	github.com/gogo/protobuf v1.3.1 // indirect
	github.com/golang/protobuf v1.4.3 // indirect
	github.com/golang/snappy v0.0.3 // indirect
	github.com/google/btree v1.0.0 // indirect
	github.com/google/uuid v1.1.5 // indirect
	github.com/gtank/merlin v0.1.1-0.20191105220539-8318aed1a79f // indirect
	github.com/gtank/ristretto255 v0.1.2 // indirect
	github.com/mimoo/StrobeGo v0.0.0-20181016162300-f8f6d4d2b643 // indirect
	github.com/pkg/errors v0.9.1 // indirect
	github.com/syndtr/goleveldb v1.0.1-0.20210305035536-64b5b1c73954 // indirect
	github.com/tendermint/go-amino v0.14.1 // indirect
	github.com/tendermint/iavl v0.13.3 // indirect
	github.com/tendermint/tendermint v0.33.3 // indirect
	github.com/vmihailenco/msgpack v4.0.4+incompatible // indirect
	golang.org/x/crypto v0.0.0-20210322153248-0c34fe9e7dc2 // indirect
	golang.org/x/net v0.0.0-20210805182204-aaa1db679c0d // indirect
	golang.org/x/sys v0.0.0-20210816183151-1e6c022a8912 // indirect
	golang.org/x/text v0.3.6 // indirect
	google.golang.org/genproto v0.0.0-20200108215221-bd8f9a0ef82f // indirect
	google.golang.org/grpc v1.28.0 // indirect
	google.golang.org/protobuf v1.23.0 // indirect
)

replace github.com/Oneledger/protocol => /repo
