module verifharness

go 1.23

require (
	github.com/Oneledger/protocol v0.0.0
	github.com/ethereum/go-ethereum v1.10.8
	github.com/tendermint/tendermint v0.33.3
	github.com/tendermint/tm-db v0.5.1
)

require (
	github.com/ChainSafe/go-schnorrkel v0.0.0-20200102211924-4bcbc698314f // indirect
	github.com/Oneledger/toml v0.4.1 // indirect
	github.com/VictoriaMetrics/fastcache v1.6.0 // indirect
	github.com/beorn7/perks v1.0.1 // indirect
	github.com/blockcypher/gobcy v1.3.1 // indirect
	github.com/btcsuite/btcd v0.20.1-beta // indirect
	github.com/btcsuite/btclog v0.0.0-20170628155309-84c8d2346e9f // indirect
	github.com/btcsuite/btcutil v0.0.0-20190425235716-9e5f4b9a998d // indirect
	github.com/btcsuite/go-socks v0.0.0-20170105172521-4720035b7bfd // indirect
	github.com/btcsuite/websocket v0.0.0-20150119174127-31079b680792 // indirect
	github.com/cespare/xxhash/v2 v2.1.1 // indirect
	github.com/cosmos/go-bip39 v0.0.0-20180819234021-555e2067c45d // indirect
	github.com/davecgh/go-spew v1.1.1 // indirect
	github.com/deckarep/golang-set v1.7.1 // indirect
	github.com/fjl/memsize v0.0.0-20190710130421-bcb5799ab5e5 // indirect
	github.com/gballet/go-libpcsclite v0.0.0-20190607065134-2772fd86a8ff // indirect
	github.com/go-kit/kit v0.10.0 // indirect
	github.com/go-logfmt/logfmt v0.5.0 // indirect
	github.com/go-stack/stack v1.8.0 // indirect
	github.com/gogo/protobuf v1.3.1 // indirect
	github.com/golang/protobuf v1.4.3 // indirect
	github.com/golang/snappy v0.0.3 // indirect
	github.com/google/btree v1.0.0 // indirect
	github.com/google/go-cmp v0.5.4 // indirect
	github.com/google/uuid v1.1.5 // indirect
	github.com/gorilla/websocket v1.4.2 // indirect
	github.com/gtank/merlin v0.1.1-0.20191105220539-8318aed1a79f // indirect
	github.com/gtank/ristretto255 v0.1.2 // indirect
	github.com/hashicorp/golang-lru v0.5.5-0.20210104140557-80c98217689d // indirect
	github.com/holiman/bloomfilter/v2 v2.0.3 // indirect
	github.com/holiman/uint256 v1.2.0 // indirect
	github.com/huin/goupnp v1.0.2 // indirect
	github.com/jackpal/go-nat-pmp v1.0.2-0.20160603034137-1fa385a6f458 // indirect
	github.com/karalabe/usb v0.0.0-20190919080040-51dc0efba356 // indirect
	github.com/libp2p/go-buffer-pool v0.0.2 // indirect
	github.com/mattn/go-colorable v0.1.8 // indirect
	github.com/mattn/go-isatty v0.0.12 // indirect
	github.com/mattn/go-runewidth v0.0.9 // indirect
	github.com/matttproud/golang_protobuf_extensions v1.0.1 // indirect
	github.com/mimoo/StrobeGo v0.0.0-20181016162300-f8f6d4d2b643 // indirect
	github.com/olekukonko/tablewriter v0.0.5 // indirect
	github.com/pkg/errors v0.9.1 // indirect
	github.com/powerman/rpc-codec v1.1.2 // indirect
	github.com/prometheus/client_golang v1.5.0 // indirect
	github.com/prometheus/client_model v0.2.0 // indirect
	github.com/prometheus/common v0.9.1 // indirect
	github.com/prometheus/procfs v0.0.8 // indirect
	github.com/prometheus/tsdb v0.10.0 // indirect
	github.com/rcrowley/go-metrics v0.0.0-20181016184325-3113b8401b8a // indirect
	github.com/rjeczalik/notify v0.9.2 // indirect
	github.com/rs/cors v1.7.0 // indirect
	github.com/shirou/gopsutil v3.21.4-0.20210419000835-c7a38de76ee5+incompatible // indirect
	github.com/status-im/keycard-go v0.0.0-20190424133014-d95853db0f48 // indirect
	github.com/syndtr/goleveldb v1.0.1-0.20210305035536-64b5b1c73954 // indirect
	github.com/tendermint/go-amino v0.14.1 // indirect
	github.com/tendermint/iavl v0.13.3 // indirect
	github.com/tklauser/go-sysconf v0.3.5 // indirect
	github.com/tklauser/numcpus v0.2.2 // indirect
	github.com/vmihailenco/msgpack v4.0.4+incompatible // indirect
	golang.org/x/crypto v0.0.0-20210322153248-0c34fe9e7dc2 // indirect
	golang.org/x/net v0.0.0-20210805182204-aaa1db679c0d // indirect
	golang.org/x/sync v0.0.0-20210220032951-036812b2e83c // indirect
	golang.org/x/sys v0.0.0-20210816183151-1e6c022a8912 // indirect
	golang.org/x/text v0.3.6 // indirect
	google.golang.org/genproto v0.0.0-20200108215221-bd8f9a0ef82f // indirect
	google.golang.org/grpc v1.28.0 // indirect
	google.golang.org/protobuf v1.23.0 // indirect
	gopkg.in/urfave/cli.v1 v1.20.0 // indirect
)

replace github.com/Oneledger/protocol => /repo
