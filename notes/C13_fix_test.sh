#!/bin/bash
# usage: notes/C13_fix_test.sh <trigger>   (run from the framework root; scratch worktree /tmp/repo_c13 of /repo HEAD must exist)
# Applies notes/C13_fix_<trigger>.diff to a clean scratch tree and runs: go build, go test (as is and with the
# date-dependent fixture pinned), ./check C13 against the patched tree, and the honest-chain comparison.
set -u
T=$1; V=$(pwd); S=/tmp/repo_c13; O=/tmp/c13out/fix_$T; mkdir -p $O
export GOFLAGS=-mod=mod GOPROXY=off GOSUMDB=off GOTOOLCHAIN=local
cd $S && git checkout -q . && git apply $V/notes/C13_fix_$T.diff && git diff --stat | tail -1
timeout 900 go build ./data/rewards/ ./app/ && echo "go build ./data/rewards/ ./app/: OK"
echo "go test as is (TestRewardsCumulativeStore_PullRewards depends on time.Now(): fails on the unpatched tree too, same values):"
timeout 900 go test -mod=mod -vet=off -count=1 ./data/rewards/ 2>&1 | grep "^--- \|^ok\|^FAIL\|expected\|actual" | head -5
sed -i "s/tNow := time.Now()/tNow := time.Date(2021, 3, 1, 0, 0, 0, 0, time.UTC)/" data/rewards/store_cumulative_test.go
echo "go test with the fixture start pinned to 2021-03-01 (scratch-only edit):"
timeout 900 go test -mod=mod -vet=off -count=1 ./data/rewards/ 2>&1 | grep "^--- \|^ok\|^FAIL" | head -3
git checkout -q data/rewards/store_cumulative_test.go
cd $V && rm -rf replays
VERIF_REPO=$S ./check C13 > $O/check.log 2>&1; echo "VERIF_REPO=$S ./check C13: exit=$? VIOLATION lines=$(grep -c VIOLATION $O/check.log) KNOWN-FINDING lines:"
grep -o "KNOWN-FINDING.*\[C13[^]]*\]" $O/check.log | grep -o "\[C13[^]]*\]"
python3 -c "
import json;e=json.load(open('evidence/C13.json'));print('outcome codes:',e['coverage']['outcome_codes'],'mismatches outside regions:',e['coverage']['model_mismatches'])"
cp evidence/C13.json $O/evidence_patched.json
# honest chains on the patched build (build/vh was just built against the patched tree)
mkdir -p $O/honest && build/vh c13 -honest -seed 7 -chains 8 -blocks 260 -pcases 0 -qcases 0 -out $O/honest -tag h
python3 - $O <<'PY'
import json,sys
a=json.load(open('/tmp/c13out/honest_base/c13_cases_h.json'))['chains']
b=json.load(open(sys.argv[1]+'/honest/c13_cases_h.json'))['chains']
nb=sum(len(c['Blocks']) for c in a)
same = a==b
print("honest chains (devnet options, cycle 100, ~15 s blocks): %d chains, %d blocks; records identical to the unpatched run (votes, pulled warm/cold, rwz/rwcum/delegRwz deltas, ydist, app hash per block): %s" % (len(a), nb, same))
if not same:
    for ca,cb in zip(a,b):
        for x,y in zip(ca['Blocks'],cb['Blocks']):
            if x!=y:
                print("first difference: chain",ca['Index'],"height",x['H'],{k:(x[k],y[k]) for k in x if x[k]!=y[k]}); sys.exit(0)
PY
