"""Runs hostile inputs through worker processes and records which ones kill the node."""
import json, os, re, subprocess, sys, concurrent.futures as cf


def run_chunk(vh, infile, ids, mode, timeout=600):
    """Run ids in one worker; returns (results: {id: (check, deliver)}, crashes: [(id, stage, rc)])"""
    results, crashes = {}, []
    todo = list(ids)
    while todo:
        p = subprocess.run([vh, "c18", "-run", infile, "-mode", mode, "-ids", ",".join(map(str, todo))],
                           stdout=subprocess.PIPE, stderr=subprocess.DEVNULL, timeout=timeout)
        out = p.stdout.decode("utf-8", "replace")
        if "PROBE-BROKEN" in out:
            raise RuntimeError("the probe transaction fails on a fresh application")
        done, started, checked = [], None, None
        for line in out.splitlines():
            m = re.match(r"RESULT (\d+) check=(\d+) deliver=(\d+) probe=(\w+)", line)
            if m:
                i = int(m.group(1))
                if m.group(4) == "true":
                    results[i] = (int(m.group(2)), int(m.group(3)))
                    done.append(i)
                else:
                    crashes.append((i, "application-closed", p.returncode))
                    done.append(i)
                started = None
                continue
            m = re.match(r"START (\d+)", line)
            if m:
                started, checked = int(m.group(1)), False
            m = re.match(r"CHECKED (\d+)", line)
            if m:
                checked = True
        if started is not None:
            crashes.append((started, "process-exit-in-" + ("DeliverTx/EndBlock" if checked else "CheckTx"), p.returncode))
            done.append(started)
        if not done:
            # the worker died before reporting anything: blame the first input
            crashes.append((todo[0], "process-exit-before-report", p.returncode))
            done.append(todo[0])
        todo = [i for i in todo if i not in set(done)]
    return results, crashes


def run_all(vh, infile, ids, mode="both", chunk=40, workers=14):
    chunks = [ids[i:i + chunk] for i in range(0, len(ids), chunk)]
    results, crashes = {}, []
    with cf.ThreadPoolExecutor(max_workers=workers) as ex:
        for r, c in ex.map(lambda ch: run_chunk(vh, infile, ch, mode), chunks):
            results.update(r)
            crashes += c
    return results, crashes


if __name__ == "__main__":
    vh, infile = sys.argv[1], sys.argv[2]
    ins = json.load(open(infile))
    res, crashes = run_all(vh, infile, [i["ID"] if "ID" in i else i["id"] for i in ins])
    byid = {i["id"]: i for i in ins}
    print(len(res), "survived;", len(crashes), "crashes")
    for i, stage, rc in sorted(crashes):
        print(i, byid[i]["kind"], byid[i]["name"], byid[i]["class"], stage, rc)
