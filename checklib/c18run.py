"""Runs hostile inputs through worker processes and records which ones kill the node."""
import json, os, queue, re, subprocess, sys, threading, concurrent.futures as cf


def run_chunk(vh, infile, ids, mode, stall=45, first=180):
    """Run ids in one worker; returns (results: {id: (check, deliver)}, crashes: [(id, stage, rc)]).
    The worker reports START/CHECKED/RESULT per input; a worker that dies, or that reports nothing for
    `stall` seconds (a node that no longer answers: deadlock, endless loop), is blamed on the input in flight."""
    results, crashes = {}, []
    todo = list(ids)
    while todo:
        p = subprocess.Popen([vh, "c18", "-run", infile, "-mode", mode, "-ids", ",".join(map(str, todo))],
                             stdout=subprocess.PIPE, stderr=subprocess.DEVNULL)
        q = queue.Queue()

        def pump(pipe=p.stdout, q=q):
            for raw in iter(pipe.readline, b""):
                q.put(raw.decode("utf-8", "replace").rstrip("\n"))
            q.put(None)
        threading.Thread(target=pump, daemon=True).start()
        done, started, checked, hung, seen_any = [], None, None, False, False
        while True:
            try:
                line = q.get(timeout=stall if seen_any else first)
            except queue.Empty:
                hung = True
                p.kill()
                break
            if line is None:
                break
            seen_any = True
            if "PROBE-BROKEN" in line:
                p.kill()
                raise RuntimeError("the probe transaction fails on a fresh application")
            m = re.match(r"RESULT (\d+) check=(\d+) deliver=(\d+) probe=(\w+)", line)
            if m:
                i = int(m.group(1))
                if m.group(4) == "true":
                    results[i] = (int(m.group(2)), int(m.group(3)))
                elif m.group(4) == "changed":
                    crashes.append((i, "behaviour-changed: after this input the mempool check refuses a normally priced payment or accepts one below the configured minimal fee", -1))
                else:
                    crashes.append((i, "application-closed", -1))
                done.append(i)
                started = None
                continue
            m = re.match(r"START (\d+)", line)
            if m:
                started, checked = int(m.group(1)), False
            m = re.match(r"CHECKED (\d+)", line)
            if m:
                checked = True
        rc = p.wait()
        where = "DeliverTx/EndBlock/Commit or the following probe" if checked else "CheckTx"
        if started is not None:
            crashes.append((started, ("no-answer-in-" if hung else "process-exit-in-") + where, rc))
            done.append(started)
        elif hung:
            # silent before the first input: the set-up chain itself hangs
            crashes.append((todo[0], "no-answer-before-first-input", rc))
            done.append(todo[0])
        if not done:
            # the worker died before reporting anything: blame the first input
            crashes.append((todo[0], "process-exit-before-report", rc))
            done.append(todo[0])
        todo = [i for i in todo if i not in set(done)]
    return results, crashes


def run_history(vh, name, stall=60, first=180):
    """Run one whole history (scenario name or random:<seed>) in a worker; returns None if the node
    served every block, else (block, what)."""
    p = subprocess.Popen([vh, "c18", "-history", name], stdout=subprocess.PIPE, stderr=subprocess.DEVNULL)
    q = queue.Queue()

    def pump(pipe=p.stdout, q=q):
        for raw in iter(pipe.readline, b""):
            q.put(raw.decode("utf-8", "replace").rstrip("\n"))
        q.put(None)
    threading.Thread(target=pump, daemon=True).start()
    block, done, hung, seen = 0, False, False, False
    while True:
        try:
            line = q.get(timeout=stall if seen else first)
        except queue.Empty:
            hung = True
            p.kill()
            break
        if line is None:
            break
        seen = True
        m = re.match(r"HBLOCK (\d+)", line)
        if m:
            block = int(m.group(1))
        if line.startswith("HDONE"):
            done = True
        if line.startswith("HSTOPPED"):
            p.wait()
            return (block, "application-closed")
    rc = p.wait()
    if done and rc == 0:
        return None
    return (block, "no-answer" if hung else "process-exit-%s" % rc)


def run_all(vh, infile, ids, mode="both", chunk=40, workers=14):
    chunks = [ids[i:i + chunk] for i in range(0, len(ids), chunk)]
    results, crashes = {}, []
    with cf.ThreadPoolExecutor(max_workers=workers) as ex:
        for r, c in ex.map(lambda ch: run_chunk(vh, infile, ch, mode), chunks):
            results.update(r)
            crashes += c
    return results, crashes


if __name__ == "__main__":
    vh, infile = sys.argv[1], sys.argv[2]
    ins = json.load(open(infile))
    res, crashes = run_all(vh, infile, [i["ID"] if "ID" in i else i["id"] for i in ins])
    byid = {i["id"]: i for i in ins}
    print(len(res), "survived;", len(crashes), "crashes")
    for i, stage, rc in sorted(crashes):
        print(i, byid[i]["kind"], byid[i]["name"], byid[i]["class"], stage, rc)
