import importlib, json, os, sys, traceback
sys.path.insert(0, os.path.dirname(os.path.abspath(__file__)))
import common
from common import Ctx, Lock, Broken


def setup():
    with Lock():
        common.build_harness()
        common.run_srcfacts()
        ok, log = common.coq_make()
        print(log[-3000:])
        if not ok:
            return 1
    return 0


def main(argv):
    if len(argv) < 1:
        print("usage: check setup | check <Cxx> [--tier quick|thorough] | check replay <file>")
        return 2
    if argv[0] == "setup":
        return setup()
    tier = os.environ.get("VERIF_TIER", "quick")
    if "--tier" in argv:
        tier = argv[argv.index("--tier") + 1]
    seed = int(os.environ.get("VERIF_SEED", "1") or 1)
    replay = None
    if argv[0] == "replay":
        replay = json.load(open(argv[1]))
        prop = replay["property"]
    else:
        prop = argv[0]
    mod = importlib.import_module(prop.lower())
    ctx = Ctx(prop, tier, seed)
    rc = 0
    try:
        with Lock():
            try:
                if replay is not None:
                    mod.replay(ctx, replay)
                else:
                    mod.run(ctx)
            except Broken as b:
                # a proof obligation / the correspondence broke and the property-specific search
                # (if it ran) produced no failing input
                ctx.violation("broken", {"kind": "obligation-or-correspondence", "what": b.what, "detail": b.detail},
                              no_input=True)
    except Exception:
        traceback.print_exc()
        ctx.violation("internal", {"kind": "internal-error", "detail": traceback.format_exc()}, no_input=True)
    finally:
        try:
            if replay is None:
                ctx.write_evidence(getattr(mod, "ASSUMPTIONS", ()))
        finally:
            ctx.cleanup()
    return 1 if ctx.violations else 0


if __name__ == "__main__":
    sys.exit(main(sys.argv[1:]))
