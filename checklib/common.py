"""Shared machinery of ./check: builds, Coq runs, evidence, known findings."""
import fcntl, hashlib, json, os, re, shutil, subprocess, sys, tempfile, time

VERIF = os.path.dirname(os.path.dirname(os.path.abspath(__file__)))
REPO = os.environ.get("VERIF_REPO", "/repo")
COQ = os.path.join(VERIF, "coq")
BUILD = os.path.join(VERIF, "build")
GOENV = dict(os.environ, GOFLAGS="-mod=mod", GOPROXY="off", GOSUMDB="off", GOTOOLCHAIN="local",
             CGO_ENABLED=os.environ.get("CGO_ENABLED", "1"))

FORBIDDEN = re.compile(r"\b(Admitted|admit|Axiom|Axioms|Parameter|Parameters|Conjecture|Conjectures|"
                       r"Unset\s+Guard|bypass_check|Admit\s+Obligations|Unset\s+Positivity|"
                       r"Unset\s+Universe\s+Checking|native_compute)\b")

TRUSTED_BASE_COMMON = [
    "Coq 8.16.1 kernel via coqc (full .vo build, no -vos/-vok); vm_compute used; native_compute not used",
    "no Axiom/Parameter/Conjecture/Admitted in the development (grep on every run); Print Assumptions output recorded below",
    "hand-written Gallina model of the Go code (modelled, not verified); tied to /repo by the correspondence run of this check "
    "(real code built from the working tree with -tags verif, same inputs through model by vm_compute) and by regenerated source facts",
    "Go harness (drivers, generators, projection of observables), srcfacts translator, this Python orchestrator",
]


class Broken(Exception):
    """A proof obligation or the correspondence no longer checks."""
    def __init__(self, what, detail=""):
        super().__init__(what)
        self.what, self.detail = what, detail


def sh(cmd, cwd=None, timeout=1200, env=None, check=False):
    p = subprocess.run(cmd, cwd=cwd, env=env or os.environ, shell=isinstance(cmd, str),
                       stdout=subprocess.PIPE, stderr=subprocess.STDOUT, timeout=timeout)
    out = p.stdout.decode("utf-8", "replace")
    if check and p.returncode != 0:
        raise RuntimeError("command failed: %s\n%s" % (cmd, out[-4000:]))
    return p.returncode, out


class Lock:
    def __enter__(self):
        os.makedirs(BUILD, exist_ok=True)
        self.f = open(os.path.join(BUILD, ".lock"), "w")
        fcntl.flock(self.f, fcntl.LOCK_EX)
        return self
    def __exit__(self, *a):
        fcntl.flock(self.f, fcntl.LOCK_UN)
        self.f.close()


def repo_source_hash():
    """Content hash of every .go file, go.mod and go.sum of the working tree."""
    h = hashlib.sha256()
    for root, dirs, files in os.walk(REPO):
        dirs[:] = sorted(d for d in dirs if d not in (".git", "vendor", "node_modules"))
        for f in sorted(files):
            if f.endswith(".go") or f in ("go.mod", "go.sum"):
                p = os.path.join(root, f)
                h.update(p.encode())
                try:
                    with open(p, "rb") as fh:
                        h.update(fh.read())
                except OSError:
                    pass
    return h.hexdigest()


def build_harness():
    """Rebuild the harness against /repo's current working tree (go's build cache makes this cheap)."""
    os.makedirs(BUILD, exist_ok=True)
    hdir = os.path.join(VERIF, "harness")
    shutil.copyfile(os.path.join(REPO, "go.sum"), os.path.join(hdir, "go.sum"))
    extra = []
    if REPO != "/repo":
        # a scratch tree (seeded-mutant testing): same module file with the replace redirected
        mod = open(os.path.join(hdir, "go.mod")).read().replace("=> /repo", "=> " + REPO)
        alt = os.path.join(BUILD, "alt.mod")
        open(alt, "w").write(mod)
        shutil.copyfile(os.path.join(REPO, "go.sum"), os.path.join(BUILD, "alt.sum"))
        extra = ["-modfile", alt]
    rc, out = sh(["go", "build"] + extra + ["-tags", "verif", "-ldflags=-checklinkname=0", "-o", os.path.join(BUILD, "vh"), "."],
                 cwd=hdir, env=GOENV, timeout=900)
    if rc != 0:
        raise Broken("harness build against the working tree failed", out[-3000:])
    return os.path.join(BUILD, "vh")


def build_srcfacts():
    sdir = os.path.join(VERIF, "srcfacts")
    if not os.path.exists(os.path.join(sdir, "go.mod")):
        return None
    rc, out = sh(["go", "build", "-o", os.path.join(BUILD, "srcfacts"), "."], cwd=sdir, env=GOENV, timeout=900)
    if rc != 0:
        raise RuntimeError("srcfacts build failed:\n" + out[-3000:])
    return os.path.join(BUILD, "srcfacts")


def run_srcfacts():
    """Regenerate coq/gen/*.v from the current source; files are only rewritten when they change."""
    exe = build_srcfacts()
    if exe is None:
        return
    tmp = tempfile.mkdtemp(prefix="verif_facts_")
    try:
        rc, out = sh([exe, "-repo", REPO, "-out", tmp], timeout=600, env=GOENV)
        if rc != 0:
            raise Broken("srcfacts could not analyse the working tree", out[-3000:])
        for f in sorted(os.listdir(tmp)):
            if not f.endswith(".v"):
                continue
            new = open(os.path.join(tmp, f)).read()
            dst = os.path.join(COQ, "gen", f)
            old = open(dst).read() if os.path.exists(dst) else None
            if old != new:
                with open(dst, "w") as fh:
                    fh.write(new)
    finally:
        shutil.rmtree(tmp, ignore_errors=True)


def coq_makefile():
    mk = os.path.join(COQ, "Makefile")
    cp = os.path.join(COQ, "_CoqProject")
    if not os.path.exists(mk) or os.path.getmtime(mk) < os.path.getmtime(cp):
        sh(["coq_makefile", "-f", "_CoqProject", "-o", "Makefile"], cwd=COQ, check=True)


def coq_make(targets=None, timeout=2400):
    """Full .vo build of the given targets (default: everything).  Returns (ok, log)."""
    coq_makefile()
    cmd = ["make", "-j16"] + (targets or [])
    rc, out = sh(cmd, cwd=COQ, timeout=timeout)
    return rc == 0, out


def coqc_file(path, cwd=None, timeout=1200):
    rc, out = sh(["coqc", "-R", COQ, "OL", "-w", "-notation-overridden,-deprecated-hint-rewrite-without-locality,"
                  "-deprecated-instance-without-locality", path], cwd=cwd or os.path.dirname(path), timeout=timeout)
    return rc == 0, out


def grep_forbidden():
    bad = []
    for sub in ("theories", "proofs", "props", "gen"):
        d = os.path.join(COQ, sub)
        for f in sorted(os.listdir(d)):
            if f.endswith(".v"):
                txt = open(os.path.join(d, f)).read()
                txt = re.sub(r"\(\*.*?\*\)", "", txt, flags=re.S)
                for m in FORBIDDEN.finditer(txt):
                    bad.append("%s/%s: %s" % (sub, f, m.group(0)))
    return bad


def parse_print(out, name):
    """Integers of `Print name.` output `name = [a; b; ...] : list Z` (possibly wrapped)."""
    m = re.search(r"^%s\s*=\s*(.*?)^\s*:\s" % re.escape(name), out, flags=re.S | re.M)
    if not m:
        raise RuntimeError("cannot find %s in Coq output:\n%s" % (name, out[-2000:]))
    body = re.sub(r"%[A-Za-z]+", "", m.group(1))
    return [int(x) for x in re.findall(r"-?\d+", body)]


def count_theorems(props_file):
    txt = open(props_file).read()
    txt = re.sub(r"\(\*.*?\*\)", "", txt, flags=re.S)
    return re.findall(r"^\s*(?:Theorem|Example|Lemma|Corollary)\s+(\w+)", txt, flags=re.M)


def assumptions_of(out):
    """The Print Assumptions blocks of a coqc run, condensed."""
    blocks = []
    cur = None
    for line in out.splitlines():
        if line.startswith("Closed under the global context"):
            blocks.append("Closed under the global context")
            cur = None
        elif line.startswith("Axioms:") or line.startswith("Section Variables:"):
            cur = [line]
            blocks.append(cur)
        elif cur is not None and (line.startswith(" ") or line.strip() == ""):
            if line.strip():
                cur.append(line.strip())
        else:
            cur = None
    return [b if isinstance(b, str) else " ".join(b) for b in blocks]


def load_findings():
    p = os.path.join(VERIF, "KNOWN_FINDINGS.json")
    if not os.path.exists(p):
        return []
    return json.load(open(p))["findings"]


def known(prop, trigger):
    for f in load_findings():
        if f["property"] == prop and f["trigger"] == trigger and f["status"] == "known":
            return f
    return None


class Ctx:
    def __init__(self, prop, tier, seed):
        self.prop, self.tier, self.seed = prop, tier, seed
        self.t0 = time.time()
        self.scratch = tempfile.mkdtemp(prefix="verif_%s_" % prop)
        # everything the harness processes create (replica data directories, copies made for crash variants, go's
        # work directories) goes below the scratch directory, which is removed when the evidence has been written
        os.environ["TMPDIR"] = self.scratch
        self.lines = []          # KNOWN-FINDING / VIOLATION lines
        self.violations = 0
        self.coverage = {}
        self.assumptions = []
        self.printed_known = set()

    def say(self, s):
        print(s, flush=True)

    def known_finding(self, trigger, what):
        f = known(self.prop, trigger)
        if f is None:
            return False
        if trigger not in self.printed_known:
            self.printed_known.add(trigger)
            self.say("KNOWN-FINDING: property=%s %s [%s]" % (self.prop, f.get("what", what), trigger))
        return True

    def replay_path(self, name):
        d = os.path.join(VERIF, "replays")
        os.makedirs(d, exist_ok=True)
        return os.path.join(d, "%s_%s.json" % (self.prop, name))

    def violation(self, name, payload, no_input=False):
        path = self.replay_path(name)
        payload = dict(payload, property=self.prop, seed=self.seed, tier=self.tier)
        with open(path, "w") as fh:
            json.dump(payload, fh, indent=1, default=str)
        self.violations += 1
        self.say("VIOLATION property=%s replay=%s%s" % (self.prop, path, " no-failing-input-found" if no_input else ""))

    def write_evidence(self, extra_assumptions=()):
        cov = dict(self.coverage)
        cov.setdefault("trusted_base", TRUSTED_BASE_COMMON)
        ev = {
            "property_id": self.prop, "tier": self.tier, "seed": self.seed, "level": "proof",
            "coverage": cov,
            "assumptions": list(extra_assumptions) + ["Print Assumptions: " + a for a in sorted(set(self.assumptions))],
            "wall_s": round(time.time() - self.t0, 2),
            "violations": self.violations,
        }
        # evidence describes runs against /repo itself; a run against another tree (VERIF_REPO, used to try
        # seeded changes) leaves the committed evidence alone
        evdir = os.path.join(VERIF, "evidence") if REPO == "/repo" else os.path.join(VERIF, "build", "evidence_alt")
        cov["repo"] = REPO
        os.makedirs(evdir, exist_ok=True)
        with open(os.path.join(evdir, self.prop + ".json"), "w") as fh:
            json.dump(ev, fh, indent=1, default=str)

    def cleanup(self):
        shutil.rmtree(self.scratch, ignore_errors=True)


def coqchk_module(module, timeout=3000):
    """Independent re-check of the compiled module and everything it depends on (coqchk -o),
    cached by the content hash of the .vo set.  Returns the context summary text."""
    h = hashlib.sha256()
    for sub in ("gen", "theories", "proofs", "props"):
        d = os.path.join(COQ, sub)
        for f in sorted(os.listdir(d)):
            if f.endswith(".vo"):
                h.update(f.encode())
                h.update(open(os.path.join(d, f), "rb").read())
    cdir = os.path.join(BUILD, "coqchk")
    os.makedirs(cdir, exist_ok=True)
    cf = os.path.join(cdir, "%s_%s.txt" % (module, h.hexdigest()[:16]))
    if os.path.exists(cf):
        return open(cf).read()
    rc, out = sh(["coqchk", "-silent", "-o", "-R", COQ, "OL", module], cwd=COQ, timeout=timeout)
    if rc != 0:
        raise Broken("coqchk rejects " + module, out[-3000:])
    i = out.find("CONTEXT SUMMARY")
    txt = " ".join((out[i:] if i >= 0 else out).split())
    open(cf, "w").write(txt)
    return txt


def prove(ctx, props_rel, deps_targets=None, extra_targets=()):
    """Steps 1-2 of the protocol: regenerate facts, build the dependencies, re-check the property file.
    Returns the list of theorem names.  Raises Broken when an obligation fails."""
    run_srcfacts()
    props = os.path.join(COQ, props_rel)
    names = count_theorems(props)
    ok, log = coq_make(([props_rel.replace(".v", ".vo")] if deps_targets is None else deps_targets) + list(extra_targets))
    if not ok:
        m = re.search(r'File "([^"]+)", line (\d+)[^\n]*\n(.*)', log, flags=re.S)
        where = "%s line %s" % (m.group(1), m.group(2)) if m else "?"
        raise Broken("proof obligation failed to check: " + where, log[-3000:])
    # always re-run coqc on the property file itself: re-checks the statements against the
    # freshly built dependencies and yields the Print Assumptions text for the evidence
    ok, out = coqc_file(props, cwd=COQ)
    if not ok:
        raise Broken("property file no longer checks: " + props_rel, out[-3000:])
    ctx.assumptions += assumptions_of(out)
    bad = grep_forbidden()
    if bad:
        raise Broken("forbidden construct in the development: " + "; ".join(bad[:5]))
    if ctx.tier == "thorough":
        ctx.coverage["coqchk"] = coqchk_module("OL." + props_rel.replace(".v", "").replace("/", "."))
    ctx.coverage["obligations"] = len(names)
    ctx.coverage["discharged"] = len(names)
    ctx.coverage["theorems"] = names
    ctx.coverage["checker_cmd"] = "make -C coq -j16 %s && coqc -R coq OL coq/%s" % (props_rel.replace(".v", ".vo"), props_rel)
    return names
