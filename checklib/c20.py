"""C20 — domain names: exclusive ownership, owner-only changes, paid transfers."""
import json, os
from concurrent.futures import ThreadPoolExecutor
import common
from common import Broken, sh

ASSUMPTIONS = [
    "the signer of a transaction is the address returned by msg.Signers() (owner / buyer / from field); DeliverTx runs the handler's "
    "Validate first (since /repo d276709), whose signature / signer-set / fee / currency part is ONE boolean input of the model "
    "(t_static_ok; its correctness is C04's property), while the per-kind field checks (name syntax, amount sign, sub-name "
    "exclusions, nil beneficiary on deactivation) are modelled",
    "all ONS amounts that reach a handler are in the base currency OLT (Validate refuses the rest; generated and checked)",
    "a failed handler or fee step leaves no trace (session discarded: C06); the fee (gas used x price) and the charged address "
    "are inputs of the model, gas metering is not modelled; for a failed transaction the model is given the upper bound gas limit x price",
    "governance ONS options: perBlockFees > 0 (ValidateONS enforces >= 1). The options are an input of every model step: the "
    "harness records the options PERSISTED in the deliver state's governance store before every transaction; generated and "
    "directed histories change them through real config-update proposals (create, fund, vote, internal finalisation) and send "
    "PROPOSAL_FINALIZE / PROPOSAL_CREATE to the mempool only (CheckTx) at call boundaries in between",
    "names are modelled as label lists of the EXACT byte strings of the transaction (case-sensitive, as the code keys them); splitting at '.' is a bijection, labels contain no dot; URI scheme validity (net/url) is an input flag",
    "genesis-loaded domains are outside the generated histories (registries start empty)",
]

# monitor classes reported by OnsCheck.monitor_step
CLASSES = {1: "unauthorised-record-change", 3: "expiry-not-the-blocks-bought", 4: "sub-name-invariant-broken",
           5: "failed-transaction-left-a-trace", 6: "two-records-for-one-name",
           7: "name-on-sale-without-its-owners-sell-transaction",
           8: "sub-name-does-not-expire-with-its-parent"}
KNOWN = {11: "C20.purchase_misses_uncommitted_sub"}


def evaluate(ctx, vh, args):
    out_dir = os.path.join(ctx.scratch, "c20")
    os.makedirs(out_dir, exist_ok=True)
    rc, out = sh([vh, "c20", "-out", out_dir] + args, timeout=1500)
    if rc != 0:
        raise Broken("C20 harness run failed", out[-3000:])
    rep = json.load(open(os.path.join(out_dir, "c20_report.json")))
    cases = json.load(open(os.path.join(out_dir, "c20_cases.json")))

    def one(f):
        return f, common.coqc_file(f, cwd=out_dir)
    mm, mv, st = [], [], [0, 0, 0]
    with ThreadPoolExecutor(max_workers=14) as ex:
        for f, (ok, cout) in ex.map(one, rep["files"]):
            if not ok:
                raise Broken("the model could not be evaluated on the recorded traces (cases file does not check): " + f, cout[-3000:])
            a = common.parse_print(cout, "MM")
            mm += [(a[i], a[i + 1]) for i in range(0, len(a), 2)]
            b = common.parse_print(cout, "MV")
            mv += [(b[i], b[i + 1], b[i + 2]) for i in range(0, len(b), 3)]
            s = common.parse_print(cout, "ST")
            st = [x + y for x, y in zip(st, s)]
    return rep, cases, sorted(mm), sorted(mv), st


def payload(case, step, extra):
    steps = case["steps"][: step + 1]
    return dict(extra, scenario=case["scenario"], first_bad_step=step,
                transaction=steps[-1].get("op"), observed_before=(steps[-2]["obs"] if step > 0 else case["init"]),
                observed_after=steps[-1]["obs"], ok=steps[-1].get("ok"), how="./check replay <this file>")


def corpus_expectations(ctx, cases):
    """Replays of fixed findings / corpus cases: the recorded outcomes must hold on the implementation."""
    cp = os.path.join(common.VERIF, "corpus", "C20.json")
    if not os.path.exists(cp):
        return False
    found = False
    for sc in json.load(open(cp))["scenarios"]:
        for ci, c in enumerate(cases):
            if c["scenario"]["label"] != sc["label"]:
                continue
            pos, blk, txi = {}, 0, 0
            for si, st in enumerate(c["steps"]):
                if st.get("end"):
                    blk, txi = blk + 1, 0
                else:
                    pos[(blk, txi)] = si
                    txi += 1
            for (b, x, ok) in sc.get("expect", []):
                si = pos.get((b, x))
                if si is None or bool(c["steps"][si].get("ok")) != ok:
                    found = True
                    ctx.violation("corpus_%s_%d_%d" % (sc["label"], b, x), payload(c, si if si is not None else 0, {
                        "kind": "corpus-expectation-failed", "finding": sc.get("finding"), "expected_ok": ok}))
                    break  # the first failed expectation of a history is the replay; later ones follow from it
    return found


def judge(ctx, cases, mm, mv):
    found = corpus_expectations(ctx, cases)
    for (ci, step, cl) in mv:
        if cl in KNOWN and ctx.known_finding(KNOWN[cl], ""):
            continue
        found = True
        ctx.violation("monitor_%d_%d" % (ci, step), payload(cases[ci], step, {"kind": CLASSES.get(cl, KNOWN.get(cl, str(cl))), "cls": cl}))
        if ctx.violations >= 3:
            break
    if mm and not found:
        ci, step = mm[0]
        raise Broken("correspondence Ons.v vs the real ONS handlers broke (model and implementation differ on outcome, records, "
                     "balances or pool)", json.dumps(payload(cases[ci], step, {"kind": "model-mismatch"}), default=str)[:6000])
    return found


def run(ctx):
    broken = None
    try:
        common.prove(ctx, "props/C20.v")
    except Broken as b:
        broken = b
    vh = common.build_harness()
    if ctx.tier == "thorough":
        args = ["-seed", str(ctx.seed), "-n", "1000", "-blocks", "40", "-chunk", "10"]
    else:
        args = ["-seed", str(ctx.seed), "-n", "120", "-blocks", "30", "-chunk", "5"]
    cp = os.path.join(common.VERIF, "corpus", "C20.json")
    if os.path.exists(cp):
        args += ["-corpus", cp]
    rep, cases, mm, mv, st = evaluate(ctx, vh, args)
    cov = ctx.coverage
    cov.update({
        "evaluations": rep["txs"], "distinct_nontrivial": rep["distinct"],
        "rule": "corpus/C20.json (replay of the fixed finding C20.expiry_blocks_ge_2p63 with expected refusals) + 12 directed histories (uncommitted sub-name vs purchase; look-alike names n/xn/nx/nn/an with sub-names; block count "
                ">= 2^63 refused; expiry and re-purchase; listing -> expiry -> expired-name purchase -> stranger offers the old price, with "
                "its neighbours: listing cancelled before expiry, renewed and bought live once; inputs only Validate rejects; two parents with 3+1 and 2 committed sub-names renewed, then sends to every sub-name past the old expiry height) + seeded random histories over 6 accounts (5 funded, 1 poor), 12 names that are "
                "prefixes/suffixes of each other and sub-/sub-sub-names, 5 invalid names, ~12% of the transactions addressed by a letter-case variant or near-miss spelling of a registered name (trailing / doubled dot, leading / trailing space, cyrillic look-alike, upper-case TLD), 5 option sets, in ~40% of the histories a governance thread changing perBlockFees / baseDomainPrice (mempool-only finalize, ONS transactions before / in the same block as / after the real finalisation); the generator looks at the "
                "observed registry so that ~70% of signers are the current owner and offers straddle the asking/base price; "
                "distinct = distinct (operation, outcome, registry size)",
        "traces_validated_against_impl": rep["cases"], "histories": rep["cases"], "blocks": rep["blocks"],
        "option_changes_observed": rep["option_changes"], "auxiliary_governance_txs_and_checktx": rep["aux_txs"],
        "kind_histogram": rep["kinds"], "outcome_histogram": rep["outcomes"], "max_registry_size": rep["max_registry"],
        "txs_ok": st[1], "txs_changing_a_record": st[2],
        "model_mismatches": len(mm), "monitor_hits": len(mv),
        "monitor_hits_by_class": {str(k): sum(1 for x in mv if x[2] == k) for k in sorted(set(x[2] for x in mv))},
        "samples": rep["samples"],
        "explanation": "theorems of props/C20.v re-checked; Ons.v evaluated by vm_compute on every transaction of every history run on "
                       "the real app through ABCI (outcome, all d_ records, 6 balances, fee pool compared after EVERY transaction); "
                       "monitor = authorisation (incl. who signed the listing a purchase relies on) / payment / expiry / sale-status / sub-name invariants evaluated on the implementation's consecutive "
                       "observed states (independent of the model step)",
    })
    judge(ctx, cases, mm, mv)
    if rep["option_changes"] < 2 and ctx.violations == 0:
        raise Broken("the governance flow of the C20 histories no longer changes the ONS prices (generator broke)", json.dumps(rep["outcomes"]))
    if broken is not None and ctx.violations == 0:
        raise broken


def replay(ctx, rp):
    vh = common.build_harness()
    ok, log = common.coq_make(["theories/OnsCheck.vo"])
    if not ok:
        raise Broken("model does not build", log[-2000:])
    tmp = os.path.join(ctx.scratch, "one.json")
    json.dump([rp["scenario"]], open(tmp, "w"))
    rep, cases, mm, mv, st = evaluate(ctx, vh, ["-n", "0", "-replay", tmp, "-chunk", "1"])
    print("model_mismatches (case, step)", mm, "monitor hits (case, step, class)", mv)
    for s in cases[0]["steps"]:
        if s.get("opts"):
            print("  -- persisted ONS options now: perBlockFees", s["opts"][0], "baseDomainPrice", s["opts"][1])
        elif s.get("aux"):
            print("  (aux)", json.dumps(s["op"])[:110], "ok" if s.get("ok") else "FAIL " + s.get("log", "")[:60])
        elif not s.get("end"):
            print(" ", json.dumps(s["op"]), "h", s.get("h"), "ok" if s.get("ok") else "FAIL " + s.get("log", "")[:70])
        else:
            print("  -- block end; registry:", [(d["name"], "owner", d["owner"], "exp", d["expiry"]) for d in s["obs"]["reg"]])
    judge(ctx, cases, mm, mv)
