"""C01 — replica determinism."""
import json, os
import common, twinlib
from common import Broken

ASSUMPTIONS = [
    "the IAVL root hash is a deterministic function of the sequence of Set/Remove/SaveVersion calls (not modelled); equal tree-call logs give equal hashes",
    "the class of every map-range site and the allow-list of clock/uuid/env/goroutine sites in props/C01.v were assigned by reading the code (audited, trusted); the hash of the loop text pins what was read",
    "Go scheduler effects inside Tendermint (asynchronous tx indexing) and cross-architecture floating point are outside the model",
    "whether a delivered transaction was executed before is asked of the node's Tendermint transaction index: replicas are run with the kv indexer fed at every commit (as a caught-up node), one replica with the null indexer; the divergence of the latter on re-included bytes is the known finding C01.replay_record_is_node_local",
    "node identity varied by the twin runs: validator key, node key, validator/non-validator role, chain-state rotation setting; witness role and job-store content are covered by C15's transition model",
]


def fixed_replays():
    out = []
    for f in common.load_findings():
        if f["property"] == "C01" and f.get("replay"):
            p = os.path.join(common.VERIF, f["replay"])
            if os.path.exists(p):
                out.append((f, json.load(open(p))))
    return out


def trigger_of(c, sig):
    """The replica with Tendermint's null indexer diverges exactly where a block re-includes bytes of an earlier block."""
    d = c.get("divergence") or {}
    if c.get("variant") != "tx-index-off" or not (c.get("hname") or "").endswith("+reincluded"):
        return None
    descr = c.get("descr") or []
    b, t = d.get("block", 0) - 1, d.get("tx", -1)
    if not (0 <= b < len(descr)):
        return None
    if d.get("what") == "txresult":
        # the first difference is the answer to a re-included transaction itself
        if 0 <= t < len(descr[b]) and descr[b][t] == "included again":
            return "C01.replay_record_is_node_local"
        return None
    # same answers, other state (the re-included transaction is answered alike but executed on one node only):
    # the first divergent block must be one that re-includes bytes
    if "included again" in descr[b]:
        return "C01.replay_record_is_node_local"
    return None


def run(ctx):
    broken = None
    try:
        common.prove(ctx, "props/C01.v")
    except Broken as b:
        broken = b
    vh = common.build_harness()
    # corpus first: the histories of earlier findings (fixed ones must now be deterministic)
    corpus_runs = 0
    for f, rp in fixed_replays():
        reps = 6 if ctx.tier == "thorough" else 3
        for k in range(reps):
            tmp = os.path.join(ctx.scratch, "corpus_in.json")
            json.dump({"genesis": rp["genesis"], "vseed": rp.get("vseed", 0), "history": rp["history"]}, open(tmp, "w"))
            rep = twinlib.run_twin(ctx, vh, "c01", 1, 1, extra=["-replay", tmp])
            corpus_runs += rep["comparisons"]
            if f["status"] == "known":
                for c in rep["cases"]:
                    if c.get("divergence"):
                        ctx.known_finding(f["trigger"], f.get("what", ""))
            else:
                twinlib.judge(ctx, rep)
    n, blocks = (30, 60) if ctx.tier == "thorough" else (6, 36)
    rep = twinlib.run_twin(ctx, vh, "c01", n, blocks)
    cov = twinlib.coverage(rep)
    cov["corpus_comparisons"] = corpus_runs
    ctx.coverage.update(cov)
    ctx.coverage["rule"] = ("corpus of earlier findings first; then directed scenario histories and seeded random histories (30+ kinds, three genesis variants incl. "
                            "genesis-loaded maturing stake and pending undelegations) each run on six replicas: the same node three times (Go randomises map iteration per "
                            "run), a non-validator node, another validator's node, a node with a different chain-state rotation; app hashes, validator updates and every "
                            "transaction result compared; non-trivial = history with transactions")
    ctx.coverage["explanation"] = ("theorems of props/C01.v (loop idioms independent of the map-iteration permutation; block transcript a function of block + durable state) "
                                   "+ Facts_Nondet obligations (every map-range / clock / uuid / goroutine site of the consensus packages classified; regenerated) + replica twin runs")
    twinlib.judge(ctx, rep, trigger_of)
    if broken is not None and ctx.violations == 0:
        raise broken


def replay(ctx, rp):
    twinlib.replay(ctx, rp)
