"""C03 — no unauthorised debit: an externally owned account's holdings decrease only with its signature (or its validator's) or a guilty verdict."""
import ledgerlib
from ledgerlib import C03_CLASSES, C03_KNOWN

ASSUMPTIONS = [
    "holdings of an account per currency = its balance, locked / unlocking / withdrawable stake, delegated (deleg_a_) and undelegating "
    "amounts, delegation reward claims and pending reward withdrawals; fee shares and proposal escrow are not part of the statement",
    "externally owned = 20-byte address that is not a pool / protocol account (fee pool, reward pool, delegation pool, bounty program, "
    "execution-cost account, wrapped-supply address) and has no contract record",
    "authority of a step = the accounts that signed the successful transaction, decided WITHOUT the key handlers of the code under "
    "verification: ed25519 / secp256k1 by tendermint's reference implementations (address derived there), ethsecp by go-ethereum, "
    "a btcecsecp (Bitcoin witness) key has no account and gives authority to nobody; independent of Msg.Signers too; the stake address of a validator among them, and at EndBlock the stake address of a validator "
    "that received a BYZANTINE_FAULT freeze record in that step; a failed transaction gives no authority",
    "the per-kind theorems state that the owners an effect function takes from are among the payload fields returned by Signers() "
    "(coq/gen/Facts_Signers.v, regenerated from the source on every run) plus the validator's stake address for the fee of validator "
    "operations; that the signatures really belong to those addresses is C04",
    "OLVM transactions: the authority is the account recovered by go-ethereum's EIP-155 signer from the signature over the embedded "
    "Ethereum transaction (recomputed by the harness, independent of the payload's From and of the handler); accounts with contract "
    "code (keeper record with a non-empty code hash, or code/storage records) are not externally owned - what a contract does with "
    "its own balance is C17's matter",
]

MINE = set(C03_CLASSES)
WHAT = ("theorems of props/C03.v re-checked (incl. the Facts_Signers obligations); monitors (LedgerCheck.v, vm_compute) on the ledgers decoded "
        "from the real application: per step and per block, an externally owned account whose holdings decreased must be in the step's / "
        "block's authority set; BeginBlock / EndBlock hooks give no authority except a guilty verdict; same per-kind correspondence as C02")


def run(ctx):
    ledgerlib.run(ctx, "props/C03.v", MINE, C03_KNOWN, C03_CLASSES, WHAT)


def replay(ctx, rp):
    ledgerlib.replay(ctx, rp, MINE, C03_KNOWN, C03_CLASSES)
