"""C19 — allegations: verdicts follow votes, frozen stays frozen, penalties bounded."""
import glob, json, os
from concurrent.futures import ThreadPoolExecutor
import common
from common import Broken, sh

ASSUMPTIONS = [
    "the theorems are about the executable model coq/theories/Allegation.v (handlers allegation/vote/release, the frozen guards of "
    "stake/unstake/withdraw, CheckMaliciousValidators, the status/active-count part of GetEndBlockUpdate, ExecuteAllegationTracker); "
    "the model is tied to the code by whole-application runs (real app.App through ABCI) compared step by step on every check",
    "inputs of the model that other properties own are universally quantified in the theorems and taken from the real stores in the "
    "correspondence: the validator queue one version back (C10), the cumulative signed-block counts of the missed-votes scan, the "
    "outcome of the non-allegation part of the staking handlers (C11)",
    "the tally is exact integer arithmetic (as the code since /repo d95b5d2); evidence options with positive decimals",
    "penalty = floor(stake*base/dec + 1/2) models big.Float with a 64-bit mantissa exactly when stake*base < 2^63 "
    "(Coq examples compare with a bit-exact big.Float model; validated on the real code by the correspondence)",
    "block times are whole seconds in UTC, so FrozenAt.AddDate(0,0,d) = FrozenAt + d*86400 s",
    "the validator's delegation total st__t_<validator> equals the amount of its single stake address "
    "(MinusFromAddress either fails at its first step or completes); fee payment of the generated transactions succeeds whenever the handler does",
    "request ids of one incarnation: a request id can be reused after the request was decided and deleted; the vote events of the "
    "verdict theorem are those of the same id",
]

TRIGGERS = {2: "C19.guilty_without_validator_record", 3: "C19.stale_votes_counted"}
CODES = {
    1: "an account that is not in the elected validator set opened an allegation",
    2: "a vote was accepted from a validator outside the elected set or frozen, or a second vote of the same validator",
    3: "a stake/unstake/withdraw transaction was accepted for a frozen validator (or one found GUILTY and not released since)",
    4: "a byzantine-fault freeze was released before the configured release time",
    5: "a verdict was reached although the votes do not cross the configured share",
    6: "guilty verdict without a frozen byzantine-fault record",
    7: "the guilty validator's stake was not reduced by exactly the penalty",
    8: "the bounty credited differs from the configured cut of the penalties or exceeds them",
    9: "a frozen byzantine-fault record changed although the validator was not released",
    10: "a frozen validator (or one found GUILTY and not released since) is still active / elected after EndBlock",
    11: "a transaction that names a validator but is not signed by it was executed",
    15: "more than one GUILTY verdict for one accused within one conviction (no release in between)",
    16: "after BeginBlock a validator record's staking amount differs from the total of its delegation records",
    17: "a verdict was reached that the votes of the currently elected validators alone do not carry (votes of validators that left the active set were counted)",
    14: "a validator found GUILTY and not released since voted on an allegation",
    13: "the evidence status (active flag) of a staker differs from its election result: a staker outside the elected set is marked active, or an elected one inactive",
    12: "a request whose votes cross a share is still open after EndBlock (the decision is taken again every block)",
}
CLASSES = {1: "transaction ok/fail", 2: "requests", 3: "tracker", 4: "suspicious-validator records", 5: "validator status records",
           6: "stake totals", 7: "bounty balance", 8: "verdict events"}


def coq_cases(files, cwd):
    def one(f):
        ok, out = common.coqc_file(f, cwd=cwd, timeout=1500)
        if not ok:
            raise Broken("the model could not be evaluated on the recorded traces (cases file does not check)", out[-3000:])
        return (common.parse_print(out, "MM"), common.parse_print(out, "MV"), common.parse_print(out, "ST"))
    with ThreadPoolExecutor(max_workers=12) as ex:
        return list(ex.map(one, files))


def evaluate(ctx, vh, args, sub="c19"):
    out_dir = os.path.join(ctx.scratch, sub)
    os.makedirs(out_dir, exist_ok=True)
    rc, out = sh([vh, "c19", "-out", out_dir] + args, timeout=1800)
    if rc != 0:
        raise Broken("C19 harness run failed", out[-3000:])
    rep = json.load(open(os.path.join(out_dir, "c19_report.json")))
    cases = json.load(open(os.path.join(out_dir, "c19_cases.json")))
    per = rep["Per"]
    mm, mv, st = [], [], [0, 0, 0]
    for fi, (a, b, c) in enumerate(coq_cases(rep["Files"], out_dir)):
        mm += [(a[i] + fi * per, a[i + 1], a[i + 2], a[i + 3]) for i in range(0, len(a), 4)]
        mv += [(b[i] + fi * per, b[i + 1], b[i + 2], b[i + 3]) for i in range(0, len(b), 4)]
        st = [x + y for x, y in zip(st, c)]
    return rep, cases, mm, mv, st


def payload(case, step, **kw):
    steps = case["Steps"]
    d = dict(kw, script=case["Script"], first_bad_step=step, cast=case["Cast"],
             steps=[{"descr": s["Descr"], "ok": s["Ok"]} for s in steps[: step + 1]],
             observed_before=steps[step - 1]["Obs"] if step > 0 else case["Init"],
             observed_after=steps[step]["Obs"] if step < len(steps) else None,
             how="./check replay <this file>")
    return d


def judge(ctx, rep, cases, mm, mv):
    found = False
    hist = {}
    for (ci, step, code, trig) in mv:
        name = TRIGGERS.get(trig)
        hist[name or ("code%d" % code)] = hist.get(name or ("code%d" % code), 0) + 1
        if name and ctx.known_finding(name, CODES.get(code, "")):
            continue
        found = True
        # one replay per kind of failure (the same defect usually fires several monitor codes)
        seen = getattr(ctx, "_c19_codes", set())
        if code not in seen and len(seen) < 5:
            seen.add(code)
            ctx._c19_codes = seen
            ctx.violation("mon_%d_%d_c%d" % (ci, step, code), payload(cases[ci], step, kind=CODES.get(code, "monitor code %d" % code), code=code))
    for e in rep.get("Errors") or []:
        found = True
        if ctx.violations < 4:
            ctx.violation("crash", {"kind": "the application panicked while running a script", "detail": e})
    hard = [m for m in mm if m[3] == 0]
    if hard and not found:
        ci, step, cls, _ = hard[0]
        raise Broken("correspondence Allegation.v vs the real application broke at %s" % CLASSES.get(cls, cls),
                     json.dumps(payload(cases[ci], step, cls=cls))[:20000])
    return found, hist


def run(ctx):
    broken = None
    try:
        common.prove(ctx, "props/C19.v")
    except Broken as b:
        broken = b
    vh = common.build_harness()
    # (C) witness replay: a known finding must still reproduce (monitor fires with its trigger); the replay of a
    # fixed finding is a corpus case on which the property must HOLD (any monitor hit there is an ordinary VIOLATION)
    replays = sorted(glob.glob(os.path.join(common.VERIF, "findings", "C19_*.json")))
    wit = {}
    status = {f["trigger"]: f["status"] for f in common.load_findings() if f["property"] == "C19"}
    for f in replays:
        rp = json.load(open(f))
        tmp = os.path.join(ctx.scratch, "w_" + os.path.basename(f))
        json.dump(rp["scripts"], open(tmp, "w"))
        r_, c_, mm_, mv_, _ = evaluate(ctx, vh, ["-script", tmp], sub="w_" + os.path.basename(f)[:-5])
        if status.get(rp["trigger"]) == "fixed":
            wit[rp["trigger"]] = "fixed: property holds on the replay" if not mv_ and not mm_ else "fixed finding FAILS AGAIN"
        else:
            trigs = sorted({TRIGGERS.get(v[3], "none") for v in mv_})
            wit[rp["trigger"]] = "reproduces" if rp["trigger"] in trigs else "does not reproduce (repaired?)"
        judge(ctx, r_, c_, mm_, mv_)
    if ctx.tier == "thorough":
        args = ["-seed", str(ctx.seed), "-n", "1000", "-blocks", "30", "-per", "20"]
    else:
        args = ["-seed", str(ctx.seed), "-n", "100", "-blocks", "24", "-per", "12"]
    rep, cases, mm, mv, st = evaluate(ctx, vh, args)
    found, hist = judge(ctx, rep, cases, mm, mv)
    cov = ctx.coverage
    cov.update({
        "evaluations": rep["Steps"], "distinct_nontrivial": rep["Cases"],
        "rule": "directed scripts (tally boundaries for 3-6 validators x 5 share settings x yes/no, guilty+frozen+release timing, two verdicts "
                "in one block with a duplicate accusation, missed-votes scan over a guilty validator, early heights, float64 boundary with "
                "10 validators, accused outsider) plus seeded random histories (3-6 genesis validators, a candidate, 2 outsiders; random "
                "evidence options; allegations, yes/no/invalid/duplicate votes, releases, stake/unstake/withdraw, absent signers, "
                "time jumps of 1 s / 1 day / 2 days); distinct = scripts; evaluations = steps compared",
        "traces_validated_against_impl": rep["Cases"], "steps": rep["Steps"],
        "op_histogram": rep["OpHist"], "outcome_histogram": rep["OkHist"], "verdict_histogram": rep["Verdicts"],
        "verdict_steps": st[1], "begin_blocks_with_missed_vote_candidates": st[2],
        "model_mismatches": len([m for m in mm if m[3] == 0]), "model_mismatches_inside_known_regions": len([m for m in mm if m[3] == 1]),
        "monitor_hits": hist, "witness_replay": wit, "harness_wall_ms": rep["WallMs"],
        "samples": rep["Samples"],
        "explanation": "theorems of props/C19.v re-checked; every script is run on a real app.App through BeginBlock/DeliverTx/EndBlock/Commit; "
                       "after every step the deliver state is projected (es__ark/atark/ssvk/vss records, st__t totals, bounty balance, "
                       "allegation_tracker events) and Allegation.v is evaluated by vm_compute on the same operations (model_mismatches must be 0); "
                       "the monitor evaluates the property predicates on the implementation's observations alone",
    })
    if broken is not None and ctx.violations == 0:
        raise broken


def replay(ctx, rp):
    vh = common.build_harness()
    ok, log = common.coq_make(["theories/AllegationCheck.vo"])
    if not ok:
        raise Broken("model does not build", log[-2000:])
    scripts = rp.get("scripts") or [rp["script"]]
    tmp = os.path.join(ctx.scratch, "one.json")
    json.dump(scripts, open(tmp, "w"))
    rep, cases, mm, mv, st = evaluate(ctx, vh, ["-script", tmp])
    print("model_mismatches (case, step, class, in-known-region)", mm)
    print("monitor (case, step, code, trigger)", mv)
    for (ci, step, code, trig) in mv:
        print("  step %d '%s': %s%s" % (step, cases[ci]["Steps"][step]["Descr"], CODES.get(code), " [%s]" % TRIGGERS[trig] if trig in TRIGGERS else ""))
    judge(ctx, rep, cases, mm, mv)
