"""C17 — OLVM transactions keep one ledger and charge exactly the gas used."""
import json, os
from concurrent.futures import ThreadPoolExecutor
import common
from common import Broken, sh

ASSUMPTIONS = [
    "the EVM interpreter proper (go-ethereum core/vm: opcodes, gas tables, precompiles) is an oracle: the theorems hold for EVERY "
    "answer (gas left, refund counter, failure flag, the code's own OLT transfers, self-destructed accounts) with 0 <= gas left <= gas given; "
    "the harness checks on every executed transaction that the implementation's answer lies inside that hypothesis",
    "well-formed inputs: Fee.Gas is an int64, the block gas counter is a Go int (<= 2^63-1), data byte counts are non-negative",
    "the application keeps ONE CommitStateDB per block; its live-object cache is emptied by Finalise after every OLVM transaction, executed or "
    "refused at a pre-check (vm/evm.go Apply), so the EVM reads the ledger through keeper.GetAccount at every transaction; modelled as such and tied "
    "by the correspondence: in-block sequences (OLVM of A failing its pre-check after passing Validate, native credits of A, CheckTx traffic, then "
    "OLVM from/to A) are generated in the directed scenario and in the random stream, and the real keeper and a fresh CommitStateDB are read after "
    "every transaction",
    "internal OLT transfers made by contract code (inner CALL with value, SELFDESTRUCT) are part of the oracle answer; the harness derives them "
    "from the semantics of its own eight tiny programs",
    "negative OLVM gas price / value are outside the generated inputs (Validate refuses them: price < minimum fee, Amount.IsValid); negative native amounts are generated and must be refused",
    "the nonce statements about the sender assume it is not among the accounts that executed SELFDESTRUCT in the transaction (an externally "
    "owned sender has no code; preCheck rejects senders with code)",
    "signature / chain-id checking (EIP-155 recovery, ed25519 verification) is abstracted to one boolean per transaction (signed over this chain's id "
    "by the declared sender), set by the generator that built the signature; Validate's remaining checks are modelled on the ledger",
]

# monitor clause -> text
CLAUSES = {
    1: "an account balance is not pre - [sender](gasUsed*price + value moved) + [recipient] value moved",
    2: "fee pool not credited exactly gasUsed*price",
    3: "sender nonce not raised by exactly one",
    4: "a transaction that was not executed changed the ledger",
    5: "total OLT (accounts + fee pool) changed",
    6: "the EVM view of a balance differs from the native record",
    7: "executed although its nonce is not the account's nonce",
    9: "the nonce of an account other than the sender changed (other than a created contract / a self-destructed account)",
    10: "the same signed transaction was executed a second time",
    8: "executed although Validate refuses it (wrong chain id / signer, price below the minimum fee, negative amount, bad memo, ...)",
}
MISMATCH = {1: "verdict (code) differs", 2: "gas used differs", 3: "ledger after the transaction differs", 4: "CheckTx acceptance differs"}


def known_trigger(clause, trig):
    """No known finding is left for C17 (C17.nonce_gap and C17.selfdestruct_funded are fixed in /repo and
    suppress nothing): every monitor violation is a VIOLATION."""
    return None


def corpus_jobs():
    """findings/C17_*.json: the histories of the repaired findings, replayed on every run, property expected to hold"""
    jobs = []
    d = os.path.join(common.VERIF, "findings")
    for f in sorted(os.listdir(d)):
        if f.startswith("C17_") and f.endswith(".json"):
            rp = json.load(open(os.path.join(d, f)))
            jobs.append(("corpus_" + f[4:-5], rp.get("hseed", rp["seed"]), rp["blocks"], rp.get("txs", 8), rp.get("directed", True)))
    return jobs


def run_harness(ctx, vh, out_dir, jobs):
    """jobs: list of (tag, seed, blocks, txs, directed)"""
    def one(job):
        tag, seed, blocks, txs, directed = job
        args = [vh, "c17", "-out", out_dir, "-seed", str(seed), "-blocks", str(blocks), "-txs", str(txs), "-tag", str(tag)]
        if not directed:
            args.append("-nodirected")
        rc, out = sh(args, timeout=1200)
        if rc != 0:
            raise Broken("C17 harness run failed", out[-3000:])
        rep = json.load(open(os.path.join(out_dir, "c17_report_%s.json" % tag)))
        steps = json.load(open(os.path.join(out_dir, "c17_steps_%s.json" % tag)))
        return job, rep, steps
    with ThreadPoolExecutor(max_workers=8) as ex:
        return list(ex.map(one, jobs))


def evaluate(ctx, runs, out_dir, chunk=120):
    files = []
    for job, rep, steps in runs:
        for k, f in enumerate(rep["Files"]):
            files.append((job, k, f, steps))
    def one(x):
        job, k, f, steps = x
        ok, cout = common.coqc_file(f, cwd=out_dir)
        if not ok:
            raise Broken("the model could not be evaluated on the recorded steps (cases file does not check)", cout[-3000:])
        mm = common.parse_print(cout, "MM")
        pv = common.parse_print(cout, "PV")
        oh = common.parse_print(cout, "OH")[0]
        ck = common.parse_print(cout, "CK")[0]
        return job, k, steps, mm, pv, oh, ck
    with ThreadPoolExecutor(max_workers=14) as ex:
        res = list(ex.map(one, files))
    mms, pvs, oh, ck = [], [], 0, 1
    for job, k, steps, mm, pv, o, c in res:
        base = k * chunk
        mms += [(job, base + mm[i], mm[i + 1], steps[base + mm[i]]) for i in range(0, len(mm), 2)]
        pvs += [(job, base + pv[i], pv[i + 1], pv[i + 2], steps[base + pv[i]]) for i in range(0, len(pv), 3)]
        oh += o
        ck = min(ck, c)
    return mms, pvs, oh, ck


def payload(job, idx, step, extra):
    tag, seed, blocks, txs, directed = job
    keep = {k: step[k] for k in ("Kind", "Class", "From", "To", "Value", "Price", "Gas", "Nonce", "NZ", "Z", "ChainOK", "MemoOK", "Amount", "Dup",
                                   "SenderCode", "Failed", "Int", "Dead", "Code", "GasUsed", "Check", "Pre", "Post", "Views", "Height", "Log", "TxHex")}
    return dict(extra, hseed=seed, blocks=blocks, txs=txs, directed=directed, step=idx, observed=keep,
                how="./check replay <this file>  (re-runs the same seeded history on the real application and judges this step)")


def judge(ctx, mms, pvs, oh, ck):
    found = False
    mm_steps = {(j[0], i) for (j, i, m, s) in mms}
    known_seen = {}
    for job, idx, clause, trig, step in pvs:
        t = known_trigger(clause, trig)
        # inside a trigger region the implementation may behave like the (defective) model — the
        # recorded effect — or satisfy the property; anything else is a violation
        if t and (job[0], idx) not in mm_steps and ctx.known_finding(t, CLAUSES[clause]):
            known_seen[t] = known_seen.get(t, 0) + 1
            continue
        found = True
        if ctx.violations < 5:
            ctx.violation("step_%s_%d_c%d" % (job[0], idx, clause),
                          payload(job, idx, step, {"kind": "property-violated-on-the-implementation", "clause": clause, "what": CLAUSES[clause], "triggers": trig}))
    if not found:
        if ck != 1:
            raise Broken("constants of Olvm.v differ from the running code (refund quotient / TxGas / TxGasContractCreation / data gas / simulation gas limit)")
        if mms:
            job, idx, m, step = mms[0]
            raise Broken("correspondence Olvm.v vs the real application broke: " + MISMATCH.get(m, "?"),
                         json.dumps(payload(job, idx, step, {"mismatch": m})))
        if oh:
            raise Broken("an executed transaction reported a gas figure outside the oracle hypothesis 0 <= gas left <= gas given", str(oh))
    return known_seen


def plan(ctx):
    if ctx.tier == "thorough":
        return [(i, ctx.seed * 1000 + i, 120, 10, i % 4 == 0) for i in range(24)]
    return [(i, ctx.seed * 1000 + i, 30, 8, i == 0) for i in range(8)]


def run(ctx):
    broken = None
    try:
        common.prove(ctx, "props/C17.v")
    except Broken as b:
        broken = b
    vh = common.build_harness()
    out_dir = os.path.join(ctx.scratch, "c17")
    os.makedirs(out_dir, exist_ok=True)
    cjobs = corpus_jobs()
    runs = run_harness(ctx, vh, out_dir, cjobs + plan(ctx))
    mms, pvs, oh, ck = evaluate(ctx, runs, out_dir)
    classes, outcomes, checks = {}, {}, {}
    steps = distinct = views = contracts = 0
    samples = []
    for job, rep, st in runs:
        steps += rep["Steps"]
        distinct += rep["Distinct"]
        views += rep["ViewsRead"]
        contracts += rep["Contracts"]
        for d, src in ((classes, rep["Classes"]), (outcomes, rep["Outcomes"]), (checks, rep["Checks"])):
            for k, v in src.items():
                d[k] = d.get(k, 0) + v
        if len(samples) < 6:
            for s in rep["Samples"][:2]:
                samples.append({k: s[k] for k in ("Kind", "Class", "From", "To", "Value", "Gas", "Price", "Nonce", "Failed", "Code", "GasUsed", "Check")})
    gen = {}
    for k, v in classes.items():
        for part in k.split("|"):
            if part:
                gen[part] = gen.get(part, 0) + v
    ctx.coverage.update({
        "evaluations": steps, "distinct_nontrivial": distinct,
        "rule": "one evaluation = one transaction (OLVM or native SEND) delivered to the real application inside a mixed block history "
                "(CheckTx first for OLVM), with the OLT ledger before/after; distinct = distinct (class, sender, recipient, value, gas, price, nonce, "
                "data size, outcome) tuples; every one is executed by the model (vm_compute) and judged by the Coq-defined monitor",
        "traces_validated_against_impl": steps,
        "generator_classes": dict(sorted(gen.items())), "outcomes": outcomes, "check_vs_deliver": checks,
        "evm_view_reads": views, "contracts_deployed": contracts,
        "creations_at_a_prefunded_address": sum(rep["PrefundedCreate"] for job, rep, st in runs),
        "creations_at_a_prefunded_address_constructor_failed": sum(rep["PrefundedCreateFailed"] for job, rep, st in runs),
        "executed_leaving_sender_at_exactly_zero": sum(rep["SenderZero"] for job, rep, st in runs),
        "zero_value_transfers_to_drained_accounts_with_nonce": sum(rep["ZeroToDrained"] for job, rep, st in runs),
        "replays_of_a_drained_accounts_old_transactions": sum(rep["Classes"].get(k, 0) for job, rep, st in runs for k in rep["Classes"] if "drain-replay" in k),
        "corpus_histories": [j[0] for j in cjobs],
        "model_mismatches": len(mms), "monitor_violations": len(pvs),
        "monitor_violations_by_clause": {str(c): sum(1 for x in pvs if x[2] == c) for c in sorted({x[2] for x in pvs})},
        "oracle_answers_outside_hypothesis": oh, "constants_match": ck == 1,
        "samples": samples,
        "explanation": "theorems of props/C17.v re-checked; Olvm.v evaluated by vm_compute on every recorded transaction of the real app.App "
                       "(verdict, gas used, ledger after, CheckTx acceptance: model_mismatches must be 0); the monitor evaluates the property's "
                       "equalities on the observed deltas and the EVM-vs-native reads; the histories of the two repaired findings "
                       "(findings/C17_*.json) are replayed first as corpus cases and must satisfy the property",
    })
    seen = judge(ctx, mms, pvs, oh, ck)
    ctx.coverage["known_finding_steps"] = seen
    if broken is not None and ctx.violations == 0:
        raise broken


def replay(ctx, rp):
    vh = common.build_harness()
    ok, log = common.coq_make(["theories/OlvmCheck.vo"])
    if not ok:
        raise Broken("model does not build", log[-2000:])
    out_dir = os.path.join(ctx.scratch, "c17")
    os.makedirs(out_dir, exist_ok=True)
    job = (0, rp.get("hseed", rp["seed"]), rp["blocks"], rp.get("txs", 8), rp.get("directed", True))
    runs = run_harness(ctx, vh, out_dir, [job])
    mms, pvs, oh, ck = evaluate(ctx, runs, out_dir)
    want = rp.get("step")
    cls = rp.get("class")
    steps = runs[0][2]
    sel = [i for i, s in enumerate(steps) if (want is not None and i == want) or (cls and s["Class"] == cls)]
    for i in sel:
        s = steps[i]
        print("step", i, s["Class"], "code", s["Code"], "gasUsed", s["GasUsed"], "vmFailed", s["Failed"], "pre", s["Pre"], "post", s["Post"])
    mms = [x for x in mms if x[1] in sel]
    pvs = [x for x in pvs if x[1] in sel]
    print("model_mismatches", [(x[1], x[2]) for x in mms], "monitor violations (step, clause, triggers)", [(x[1], x[2], x[3]) for x in pvs])
    judge(ctx, mms, pvs, 0, ck)
