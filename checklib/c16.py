"""C16 — the EVM state adapter (vm.CommitStateDB) is equivalent to go-ethereum's reference state."""
import json, os
from concurrent.futures import ThreadPoolExecutor
import common
from common import Broken, sh

ASSUMPTIONS = [
    "the EVM interpreter (go-ethereum core/vm, identical on both sides) is a deterministic client that touches state only "
    "through the vm.StateDB interface: covered by C16_any_client for every strategy : list response -> option call; the "
    "interpreter, gas tables and precompiles themselves are not modelled",
    "interface contract respected by the client (the interpreter does): no SubBalance above the balance (CanTransfer is checked "
    "first; the adapter panics where go-ethereum lets the balance go negative), no negative amounts, RevertToSnapshot only to a "
    "live revision, SubRefund not above the counter (both sides panic alike)",
    "bare creations are excluded (class 4 / generator): SubBalance(x,0) or SetState(x,k,0) on a non-existent account, and "
    "CreateAccount not followed by a journalled change on the account (evm.create always sets the nonce next): go-ethereum "
    "v1.10.8 itself is not self-consistent there (an object re-created through resetObjectChange is not marked dirty, so its "
    "cache and its trie disagree); the spec deletes every empty account at Finalise and persists every reset",
    "starting states contain no empty accounts (EIP-161 state) and storage words of existing accounts only; Finalise is always "
    "Finalise(true) as in vm/evm.go Apply",
    "code is identified with its hash (keccak collisions and collisions of keccak(address++slot) storage keys are not modelled)",
    "persistent layer modelled as finite maps (keeper record, native balance record b_<addr>_OLT, contract storage, code) with the "
    "read-your-writes behaviour of storage.State (C09, after fix 34ba69a); gas metering of the store is not modelled (no gas "
    "calculator attached in the harness)",
    "CreateAccount over an EXISTING account is covered by the three-way correspondence only (C16_bisim is proved for all 31 "
    "interface operations, CreateAccount only for accounts that do not exist yet, which is what evm.create does outside an "
    "address collision)",
    "the Finalise case of C16_bisim is proved under a side condition evaluated at run time on the adapter model (class 5, "
    "fin_okb): every live object Finalise does not treat as dirty equals its persisted image, and every non-zero dirty slot of an "
    "object written back has its original value cached; it is computed on every generated Finalise step (never false) but it is not proved to be an invariant",
]

TRIGGERS = {1: "C16.removed_account_residue", 2: "C16.create_over_storage"}   # 3 was C16.stale_dirty_index (fixed 4b2faa6)
OUTSIDE_CONTRACT = 4


def evaluate(ctx, vh, args, sub="c16"):
    out_dir = os.path.join(ctx.scratch, sub)
    os.makedirs(out_dir, exist_ok=True)
    rc, out = sh([vh, sub, "-out", out_dir] + args, timeout=1800)
    if rc != 0:
        raise Broken("C16 harness run (%s) failed" % sub, out[-3000:])
    rep = json.load(open(os.path.join(out_dir, sub + "_report.json")))
    cases = json.load(open(os.path.join(out_dir, sub + "_cases.json")))
    with ThreadPoolExecutor(max_workers=8) as ex:
        results = list(ex.map(lambda f: common.coqc_file(f, cwd=out_dir), rep["files"]))
    mm, sm, pv, ng, cc = [], [], [], 0, []
    evaluate.pg = 0
    for ok, cout in results:
        if not ok:
            raise Broken("the models could not be evaluated on the recorded traces (cases file does not check)", cout[-3000:])
        a = common.parse_print(cout, "MM")
        mm += [(a[i], a[i + 1], a[i + 2]) for i in range(0, len(a), 3)]
        b = common.parse_print(cout, "SM")
        sm += [(b[i], b[i + 1]) for i in range(0, len(b), 2)]
        c = common.parse_print(cout, "PV")
        pv += [(c[i], c[i + 1], c[i + 2]) for i in range(0, len(c), 3)]
        ng += common.parse_print(cout, "NG")[0]
        evaluate.pg += common.parse_print(cout, "PG")[0]
        cc += common.parse_print(cout, "CC")
    return rep, cases, mm, sm, pv, ng, cc


def case_payload(c, step):
    d = {"start": c["Start"], "ops": c["Ops"][: step + 1], "tag": c.get("Tag", ""),
         "adapter_answers": c["Impl"][: step + 1], "reference_answers": c["Ref"][: step + 1], "first_bad_step": step}
    if "Txs" in c:   # a bytecode scenario: the recorded interface calls above, plus the transactions that produced them
        d.update({"kind_of_case": "evm-bytecode-scenario", "codes": c.get("Codes"), "txs": c["Txs"],
                  "adapter_results": c.get("ImplRes"), "reference_results": c.get("RefRes"),
                  "how": "vh c16evm re-generates it from the seed; the recorded interface-call trace replays through ./check replay"})
    return d


def judge(ctx, rep, cases, mm, sm, pv, cc, prefix=""):
    found_input = False
    pv_cases = {ci: (st, cl) for (ci, st, cl) in pv}
    # bytecode scenarios: a transaction-level difference (gas used, error, return data, logs, panic)
    # must come with a state-answer difference inside a known-defect region
    for d in rep.get("tx_differences") or []:
        ci = d.get("case")
        st, cl = pv_cases.get(ci, (0, 0))
        if cl in TRIGGERS and common.known(ctx.prop, TRIGGERS[cl]):
            continue
        found_input = True
        if ctx.violations < 3:
            ctx.violation(prefix + "tx_%s" % ci, dict(case_payload(cases[ci], st), cls=cl, tx_difference=d,
                          kind="transaction-result-differs-from-go-ethereum-state"))
    # (i) vs (ii): the property itself, on the implementations
    for (ci, st, cl) in pv:
        if cl == OUTSIDE_CONTRACT:
            continue
        if cl in TRIGGERS and ctx.known_finding(TRIGGERS[cl], ""):
            continue
        found_input = True
        if ctx.violations < 3:
            ctx.violation(prefix + "diff_%d" % ci, dict(case_payload(cases[ci], st), cls=cl,
                          kind="adapter-answer-differs-from-go-ethereum-state", how="./check replay <this file>"))
    # (i) vs (iii): inside a known-defect region the comparison is one-sided (the implementation may
    # behave like the defective model, or like the reference)
    bad_mm = []
    for (ci, st, cl) in mm:
        if cl in TRIGGERS and ci not in pv_cases:
            continue
        if cl == OUTSIDE_CONTRACT:
            continue
        if cl in TRIGGERS:
            # neither the reference behaviour nor the recorded defective behaviour
            found_input = True
            if ctx.violations < 3:
                ctx.violation(prefix + "region_%d" % ci, dict(case_payload(cases[ci], st), cls=cl,
                              kind="behaviour-inside-known-defect-region-is-neither-reference-nor-recorded-defect"))
            continue
        bad_mm.append((ci, st))
    bad_sm = [(ci, st) for (ci, st) in sm if not (ci < len(cc) and cc[ci] == OUTSIDE_CONTRACT)]
    if not found_input:
        if bad_mm:
            ci, st = bad_mm[0]
            raise Broken("correspondence EvmAdapter.v vs vm.CommitStateDB broke (model and implementation answer differently)",
                         json.dumps(case_payload(cases[ci], st)))
        if bad_sm:
            ci, st = bad_sm[0]
            raise Broken("correspondence EvmSpec.v vs go-ethereum state.StateDB broke (spec and reference answer differently)",
                         json.dumps(case_payload(cases[ci], st)))
    return found_input


def run(ctx):
    broken = None
    try:
        common.prove(ctx, "props/C16.v")
    except Broken as b:
        broken = b
    vh = common.build_harness()
    if ctx.tier == "thorough":
        args = ["-seed", str(ctx.seed), "-n", "4000", "-len", "80"]
    else:
        args = ["-seed", str(ctx.seed), "-n", "600", "-len", "60"]
    corpus = os.path.join(common.VERIF, "corpus", "C16.json")
    if os.path.exists(corpus):
        args += ["-corpus", corpus]
    rep, cases, mm, sm, pv, ng, cc = evaluate(ctx, vh, args)
    cov = ctx.coverage
    cov.update({
        "evaluations": rep["cases"], "distinct_nontrivial": rep["distinct_cases"],
        "rule": "seeded random operation sequences over 6 addresses (incl. the RIPEMD precompile) x 4 slots x 4 codes from random "
                "starting accounts (absent / native-only / keeper account / contract with storage), three generator profiles, "
                "generation driven by the reference side; plus directed sequences for each suspected defect and the corpus; "
                "distinct = distinct operation sequences",
        "traces_validated_against_impl": rep["cases"], "steps": rep["steps"],
        "op_histogram": rep["op_histogram"], "obs_histogram": rep["obs_histogram"], "tag_histogram": rep["tag_histogram"],
        "reverts": rep["reverts"], "max_snapshot_depth": rep["max_snapshot_depth"],
        "adapter_panics": rep["impl_panics"],
        "guarded_cases": ng, "cases_inside_the_scope_of_C16_bisim": evaluate.pg,
        "cases_by_first_class": {str(k): sum(1 for x in cc if x == k) for k in range(6)},
        "adapter_model_mismatches": len(mm), "spec_model_mismatches": len(sm),
        "adapter_vs_reference_differences": len(pv),
        "adapter_vs_reference_by_class": {str(k): sum(1 for x in pv if x[2] == k) for k in range(6)},
        "samples": rep["samples"],
        "explanation": "theorems of props/C16.v re-checked; every generated sequence run on the real vm.CommitStateDB (over a real "
                       "storage.State with keeper, balance and contract stores) and on go-ethereum state.StateDB; EvmAdapter.v and "
                       "EvmSpec.v evaluated by vm_compute on the same sequences: adapter model vs adapter (must be 0 outside known "
                       "regions), spec vs go-ethereum (must be 0), adapter vs go-ethereum = the property monitor, each difference "
                       "classified by the Coq-defined trigger predicates evaluated along the adapter model run",
    })
    pending = None
    try:
        judge(ctx, rep, cases, mm, sm, pv, cc)
    except Broken as b:
        pending = b
    # generated bytecode programs run as transaction sequences through /repo/vm ApplyMessage + go-ethereum's
    # interpreter over (i) the adapter and (ii) go-ethereum's state, every interface call recorded
    if ctx.tier == "thorough":
        eargs = ["-seed", str(ctx.seed), "-n", "600", "-shard", "40"]
    else:
        eargs = ["-seed", str(ctx.seed), "-n", "60", "-shard", "20"]
    erep, ecases, emm, esm, epv, eng, ecc = evaluate(ctx, vh, eargs, sub="c16evm")
    cov["evm"] = {
        "scenarios": erep["cases"], "transactions": erep["txs"], "recorded_interface_calls": erep["steps"],
        "themes": erep.get("themes"), "opcode_features": erep.get("opcode_features"),
        "tx_outcomes_adapter": erep.get("tx_outcomes"), "tx_outcomes_reference": erep.get("tx_outcomes_ref"),
        "tx_differences": len(erep.get("tx_differences") or []), "trace_divergence": erep.get("trace_divergence"),
        "guarded_scenarios": eng, "scenarios_inside_the_scope_of_C16_bisim": evaluate.pg, "adapter_model_mismatches": len(emm), "spec_model_mismatches": len(esm),
        "adapter_vs_reference_by_class": {str(k): sum(1 for x in epv if x[2] == k) for k in range(6)},
        "explanation": "each scenario = 2-6 transactions (message calls and contract creations over generated bytecode: storage, "
                       "nested calls with value, reverting / out-of-gas callees, CREATE/CREATE2, SELFDESTRUCT, logs, precompiles incl. "
                       "RIPEMD) executed by /repo/vm ApplyMessage with go-ethereum's interpreter on both state databases through a "
                       "recording wrapper; per transaction gas used, error, return data and logs are compared, and the recorded "
                       "call/answer traces go through the same three-way comparison as the generated operation sequences",
    }
    cov["evaluations"] = rep["cases"] + erep["cases"]
    cov["traces_validated_against_impl"] = rep["cases"] + erep["cases"]
    if erep.get("trace_divergence"):
        raise Broken("the interpreter issued different calls on the two state databases after identical answers", str(erep["trace_divergence"]))
    judge(ctx, erep, ecases, emm, esm, epv, ecc, prefix="evm_")
    if pending is not None and ctx.violations == 0:
        raise pending
    if broken is not None and ctx.violations == 0:
        raise broken


def replay(ctx, rp):
    vh = common.build_harness()
    ok, log = common.coq_make(["theories/EvmCheck.vo"])
    if not ok:
        raise Broken("model does not build", log[-2000:])
    tmp = os.path.join(ctx.scratch, "one.json")
    if rp.get("kind_of_case") == "evm-bytecode-scenario":
        print("a bytecode scenario: its recorded interface-call trace uses addresses/codes outside the small universe of the "
              "operation-sequence harness; re-run `vh c16evm -seed %s` (same tier) to reproduce it" % rp.get("seed"))
        ctx.violation("evm_replay", dict(rp, note="re-run vh c16evm with the recorded seed"))
        return
    json.dump([{"Start": rp["start"], "Ops": rp["ops"]}], open(tmp, "w"))
    rep, cases, mm, sm, pv, ng, cc = evaluate(ctx, vh, ["-n", "0", "-nodirected", "-corpus", tmp])
    print("adapter-model mismatches (case, step, class)", mm, "spec mismatches", sm,
          "adapter vs go-ethereum (case, step, class)", pv, "class of the case", cc)
    judge(ctx, rep, cases, mm, sm, pv, cc)
