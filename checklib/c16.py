"""C16 — the EVM state adapter (vm.CommitStateDB) is equivalent to go-ethereum's reference state."""
import json, os
from concurrent.futures import ThreadPoolExecutor
import common
from common import Broken, sh

ASSUMPTIONS = [
    "the EVM interpreter (go-ethereum core/vm, identical on both sides) is a deterministic client that touches state only "
    "through the vm.StateDB interface: covered by C16_any_client for every strategy : list response -> option call; the "
    "interpreter, gas tables and precompiles themselves are not modelled",
    "interface contract respected by the client (the interpreter does): no SubBalance above the balance (CanTransfer is checked "
    "first; the adapter panics where go-ethereum lets the balance go negative), no negative amounts, RevertToSnapshot only to a "
    "live revision, SubRefund not above the counter (both sides panic alike)",
    "bare creations are excluded (class 4 / generator): SubBalance(x,0) or SetState(x,k,0) on a non-existent account, and "
    "CreateAccount not followed by a journalled change on the account (evm.create always sets the nonce next): go-ethereum "
    "v1.10.8 itself is not self-consistent there (an object re-created through resetObjectChange is not marked dirty, so its "
    "cache and its trie disagree); the spec deletes every empty account at Finalise and persists every reset",
    "starting states contain no empty accounts (EIP-161 state) and storage words of existing accounts only; Finalise is always "
    "Finalise(true) as in vm/evm.go Apply",
    "code is identified with its hash (keccak collisions and collisions of keccak(address++slot) storage keys are not modelled)",
    "persistent layer modelled as finite maps (keeper record, native balance record b_<addr>_OLT, contract storage, code) with the "
    "read-your-writes behaviour of storage.State (C09, after fix 34ba69a); gas metering of the store is not modelled (no gas "
    "calculator attached in the harness)",
    "logs, the access list and CreateAccount over an EXISTING account are covered by the three-way correspondence only (they are "
    "part of both models; C16_bisim is proved for CreateAccount(fresh)/balance/nonce/code/storage/refund/self-destruct/"
    "Exist/Empty/Snapshot/RevertToSnapshot/Finalise/block commit)",
    "the Finalise case of C16_bisim is proved under a side condition evaluated at run time on the adapter model (class 5, "
    "fin_okb): every live object Finalise does not treat as dirty equals its persisted image, and every non-zero dirty slot of an "
    "object written back has its original value cached; it is computed on every generated Finalise step (never false outside "
    "the aftermath of C16.stale_dirty_index) but it is not proved to be an invariant",
]

TRIGGERS = {1: "C16.removed_account_residue", 2: "C16.create_over_storage", 3: "C16.stale_dirty_index"}
OUTSIDE_CONTRACT = 4


def evaluate(ctx, vh, args):
    out_dir = os.path.join(ctx.scratch, "c16")
    os.makedirs(out_dir, exist_ok=True)
    rc, out = sh([vh, "c16", "-out", out_dir] + args, timeout=1800)
    if rc != 0:
        raise Broken("C16 harness run failed", out[-3000:])
    rep = json.load(open(os.path.join(out_dir, "c16_report.json")))
    cases = json.load(open(os.path.join(out_dir, "c16_cases.json")))
    with ThreadPoolExecutor(max_workers=8) as ex:
        results = list(ex.map(lambda f: common.coqc_file(f, cwd=out_dir), rep["files"]))
    mm, sm, pv, ng, cc = [], [], [], 0, []
    for ok, cout in results:
        if not ok:
            raise Broken("the models could not be evaluated on the recorded traces (cases file does not check)", cout[-3000:])
        a = common.parse_print(cout, "MM")
        mm += [(a[i], a[i + 1], a[i + 2]) for i in range(0, len(a), 3)]
        b = common.parse_print(cout, "SM")
        sm += [(b[i], b[i + 1]) for i in range(0, len(b), 2)]
        c = common.parse_print(cout, "PV")
        pv += [(c[i], c[i + 1], c[i + 2]) for i in range(0, len(c), 3)]
        ng += common.parse_print(cout, "NG")[0]
        cc += common.parse_print(cout, "CC")
    return rep, cases, mm, sm, pv, ng, cc


def case_payload(c, step):
    return {"start": c["Start"], "ops": c["Ops"][: step + 1], "tag": c.get("Tag", ""),
            "adapter_answers": c["Impl"][: step + 1], "reference_answers": c["Ref"][: step + 1], "first_bad_step": step}


def judge(ctx, rep, cases, mm, sm, pv, cc):
    found_input = False
    pv_cases = {ci: (st, cl) for (ci, st, cl) in pv}
    # (i) vs (ii): the property itself, on the implementations
    for (ci, st, cl) in pv:
        if cl == OUTSIDE_CONTRACT:
            continue
        if cl in TRIGGERS and ctx.known_finding(TRIGGERS[cl], ""):
            continue
        found_input = True
        if ctx.violations < 3:
            ctx.violation("diff_%d" % ci, dict(case_payload(cases[ci], st), cls=cl,
                          kind="adapter-answer-differs-from-go-ethereum-state", how="./check replay <this file>"))
    # (i) vs (iii): inside a known-defect region the comparison is one-sided (the implementation may
    # behave like the defective model, or like the reference)
    bad_mm = []
    for (ci, st, cl) in mm:
        if cl in TRIGGERS and ci not in pv_cases:
            continue
        if cl == OUTSIDE_CONTRACT:
            continue
        if cl in TRIGGERS:
            # neither the reference behaviour nor the recorded defective behaviour
            found_input = True
            if ctx.violations < 3:
                ctx.violation("region_%d" % ci, dict(case_payload(cases[ci], st), cls=cl,
                              kind="behaviour-inside-known-defect-region-is-neither-reference-nor-recorded-defect"))
            continue
        bad_mm.append((ci, st))
    bad_sm = [(ci, st) for (ci, st) in sm if not (ci < len(cc) and cc[ci] == OUTSIDE_CONTRACT)]
    if not found_input:
        if bad_mm:
            ci, st = bad_mm[0]
            raise Broken("correspondence EvmAdapter.v vs vm.CommitStateDB broke (model and implementation answer differently)",
                         json.dumps(case_payload(cases[ci], st)))
        if bad_sm:
            ci, st = bad_sm[0]
            raise Broken("correspondence EvmSpec.v vs go-ethereum state.StateDB broke (spec and reference answer differently)",
                         json.dumps(case_payload(cases[ci], st)))
    return found_input


def run(ctx):
    broken = None
    try:
        common.prove(ctx, "props/C16.v")
    except Broken as b:
        broken = b
    vh = common.build_harness()
    if ctx.tier == "thorough":
        args = ["-seed", str(ctx.seed), "-n", "4000", "-len", "80"]
    else:
        args = ["-seed", str(ctx.seed), "-n", "600", "-len", "60"]
    corpus = os.path.join(common.VERIF, "corpus", "C16.json")
    if os.path.exists(corpus):
        args += ["-corpus", corpus]
    rep, cases, mm, sm, pv, ng, cc = evaluate(ctx, vh, args)
    cov = ctx.coverage
    cov.update({
        "evaluations": rep["cases"], "distinct_nontrivial": rep["distinct_cases"],
        "rule": "seeded random operation sequences over 6 addresses (incl. the RIPEMD precompile) x 4 slots x 4 codes from random "
                "starting accounts (absent / native-only / keeper account / contract with storage), three generator profiles, "
                "generation driven by the reference side; plus directed sequences for each suspected defect and the corpus; "
                "distinct = distinct operation sequences",
        "traces_validated_against_impl": rep["cases"], "steps": rep["steps"],
        "op_histogram": rep["op_histogram"], "obs_histogram": rep["obs_histogram"], "tag_histogram": rep["tag_histogram"],
        "reverts": rep["reverts"], "max_snapshot_depth": rep["max_snapshot_depth"],
        "adapter_panics": rep["impl_panics"],
        "guarded_cases": ng,
        "cases_by_first_class": {str(k): sum(1 for x in cc if x == k) for k in range(5)},
        "adapter_model_mismatches": len(mm), "spec_model_mismatches": len(sm),
        "adapter_vs_reference_differences": len(pv),
        "adapter_vs_reference_by_class": {str(k): sum(1 for x in pv if x[2] == k) for k in range(5)},
        "samples": rep["samples"],
        "explanation": "theorems of props/C16.v re-checked; every generated sequence run on the real vm.CommitStateDB (over a real "
                       "storage.State with keeper, balance and contract stores) and on go-ethereum state.StateDB; EvmAdapter.v and "
                       "EvmSpec.v evaluated by vm_compute on the same sequences: adapter model vs adapter (must be 0 outside known "
                       "regions), spec vs go-ethereum (must be 0), adapter vs go-ethereum = the property monitor, each difference "
                       "classified by the Coq-defined trigger predicates evaluated along the adapter model run",
    })
    judge(ctx, rep, cases, mm, sm, pv, cc)
    if broken is not None and ctx.violations == 0:
        raise broken


def replay(ctx, rp):
    vh = common.build_harness()
    ok, log = common.coq_make(["theories/EvmCheck.vo"])
    if not ok:
        raise Broken("model does not build", log[-2000:])
    tmp = os.path.join(ctx.scratch, "one.json")
    json.dump([{"Start": rp["start"], "Ops": rp["ops"]}], open(tmp, "w"))
    rep, cases, mm, sm, pv, ng, cc = evaluate(ctx, vh, ["-n", "0", "-nodirected", "-corpus", tmp])
    print("adapter-model mismatches (case, step, class)", mm, "spec mismatches", sm,
          "adapter vs go-ethereum (case, step, class)", pv, "class of the case", cc)
    judge(ctx, rep, cases, mm, sm, pv, cc)
