"""C12 — delegation pool consistency and undelegation maturity."""
import json, os
from concurrent.futures import ThreadPoolExecutor
import common
from common import Broken, sh

ASSUMPTIONS = [
    "transaction amounts are in OLT (NETWORK_UNDELEGATE / reward transactions in an unknown currency end in logger.Fatal = process "
    "exit, design observation E6; such inputs are excluded from generation and from the model and are never run in-process)",
    "reward accrual per delegator and block (handleDelegationRewards) is an INPUT of the model: the theorems hold for every accrual; "
    "the harness feeds the accrual it observes (the reward formula belongs to C13)",
    "the fee charged to the signer of a successful transaction is an input of the model (gasUsed x price as reported by DeliverTx); "
    "generated amounts keep delegators far from the region where only the fee step fails",
    "address rendering (keys.Address.String) is injective, so (height, address) pairs and key strings correspond one to one; the scan "
    "of a block is modelled on the key STRINGS (lexicographic range test of IterateRange / Rangefix)",
    "the maturity option rewardsMaturityTime is constant during a run (it is hard-coded at InitChain and no transaction changes it); "
    "the harness reads it from the state",
    "only the delegation transactions, SENDPOOL and BeginBlock touch the delegation pool / delegation stores / the cast's balances "
    "(checked by the correspondence: any other writer would show up as a model mismatch)",
]

T_NEGUND = "C12.negative_undelegate"
T_NEGRW = "C12.negative_reward_withdrawal"
T_NEGRI = "C12.negative_reinvest"
CLASSES = {1: "pool-below-sum-of-active", 2: "pool-differs-from-sum-of-active-without-donation",
           3: "beginblock-credit-differs-from-amount-due-at-this-height", 4: "negative-reward-balance",
           5: "beginblock-pays-negative-matured-undelegation", 6: "beginblock-pays-negative-matured-reward-withdrawal",
           7: "negative-delegator-balance", 8: "negative-active-delegation",
           9: "reward-accrual-not-proportional-to-committed-active-delegations",
           10: "pending-entry-of-a-reached-height-not-cleared",
           11: "reward-balance-not-debited-by-exactly-the-withdrawn-or-reinvested-amount"}


def evaluate(ctx, vh, args, tag="c12"):
    out_dir = os.path.join(ctx.scratch, tag)
    os.makedirs(out_dir, exist_ok=True)
    rc, out = sh([vh, "c12", "-out", out_dir] + args, timeout=1800)
    if rc != 0:
        raise Broken("C12 harness run failed", out[-3000:])
    rep = json.load(open(os.path.join(out_dir, "c12_report.json")))
    cases = json.load(open(os.path.join(out_dir, "c12_cases.json")))
    mm, mon, tr = [], [], []
    with ThreadPoolExecutor(max_workers=12) as ex:
        results = list(ex.map(lambda f: common.coqc_file(f, cwd=out_dir), rep["files"]))
    for ok, cout in results:
        if not ok:
            raise Broken("the model could not be evaluated on the recorded runs (cases file does not check)", cout[-3000:])
        a = common.parse_print(cout, "MM")
        mm += [(a[i], a[i + 1]) for i in range(0, len(a), 2)]
        b = common.parse_print(cout, "MON")
        mon += [(b[i], b[i + 1], b[i + 2]) for i in range(0, len(b), 3)]
        t = common.parse_print(cout, "TR")
        tr += [(t[i], t[i + 1], t[i + 2]) for i in range(0, len(t), 3)]
    return rep, cases, mm, mon, tr


def payload(c, step, cl=None):
    ops = c["ops"][: step + 1]
    height = sum(1 for o in ops if o["kind"] == "begin")
    d = {"spec": c["spec"], "first_bad_step": step, "height": height, "op": c["ops"][step],
         "observed_before": c["snaps"][step - 1] if step > 0 else c["gen_snap"], "observed_after": c["snaps"][step],
         "how": "./check replay <this file>"}
    if cl is not None:
        d["kind"] = CLASSES.get(cl, str(cl))
    return d


def judge(ctx, cases, mm, mon, tr):
    """Returns stats.  Monitor failures are judged first (they are failing inputs on the implementation)."""
    stats = {"known_negund_cases": set(), "known_negrw_cases": set(), "known_negri_cases": set(), "violating_cases": set()}
    seen = set()
    for (ci, step, cl) in mon:
        if (ci, cl) in seen:
            continue
        seen.add((ci, cl))
        negund, negrw, negri = tr[ci]
        known = False
        if cl in (5, 7) and negund and ctx.known_finding(T_NEGUND, ""):
            stats["known_negund_cases"].add(ci)
            known = True
        if cl in (6, 7) and negrw and ctx.known_finding(T_NEGRW, ""):
            stats["known_negrw_cases"].add(ci)
            known = True
        # a negative reinvestment stores a negative active entry and drains the pool: the pool then no longer
        # covers the other delegators (class 1 can follow once that entry is gone again); a negative active entry
        # also accrues NEGATIVE rewards (share = rewards * active / pool), so a reward balance can go negative (class 4)
        if cl in (8, 1, 4) and negri and ctx.known_finding(T_NEGRI, ""):
            stats["known_negri_cases"].add(ci)
            known = True
        if known:
            continue
        stats["violating_cases"].add(ci)
        if ctx.violations < 3:
            ctx.violation("%s_%d_class%d" % (cases[ci]["spec"]["name"], step, cl), payload(cases[ci], step, cl))
    bad_mm = []
    for (ci, step) in mm:
        negund, negrw, negri = tr[ci]
        mon_here = [m for m in mon if m[0] == ci]
        bad_mm.append((ci, step))
    if bad_mm and not stats["violating_cases"]:
        ci, step = bad_mm[0]
        raise Broken("correspondence Deleg.v vs the application broke (model and implementation differ) and the property monitor "
                     "found no failing input", json.dumps(payload(cases[ci], step)))
    return stats


def extra_specs(ctx):
    """Recorded findings (known and fixed alike) and the corpus run as ordinary cases: for a fixed finding the
    property must HOLD on its replay (any monitor failure there is a VIOLATION with that replay as the history)."""
    import glob
    specs = []
    for f in sorted(glob.glob(os.path.join(common.VERIF, "findings", "C12_*.json"))):
        specs.append(json.load(open(f))["spec"])
    corpus = os.path.join(common.VERIF, "corpus", "C12.json")
    if os.path.exists(corpus):
        specs += json.load(open(corpus))
    path = os.path.join(ctx.scratch, "c12_extra.json")
    json.dump(specs, open(path, "w"))
    return path, len(specs)


def run(ctx):
    broken = None
    try:
        common.prove(ctx, "props/C12.v")
    except Broken as b:
        broken = b
    vh = common.build_harness()
    if ctx.tier == "thorough":
        args = ["-seed", str(ctx.seed), "-n", "160", "-blocks", "40", "-long", "12", "-shard", "6"]
    else:
        args = ["-seed", str(ctx.seed), "-n", "22", "-blocks", "32", "-long", "1", "-shard", "2"]
    extra, nextra = extra_specs(ctx)
    args += ["-extra", extra]
    rep, cases, mm, mon, tr = evaluate(ctx, vh, args)
    cov = ctx.coverage
    cov.update({
        "evaluations": rep["steps"], "distinct_nontrivial": rep["distinct_cases"],
        "rule": "whole-application runs (real app.App through ABCI): fixed witnesses + corpus + seeded random histories over 3-4 delegators, "
                "4 genesis variants (empty / pending undelegations at decimal-prefix-related heights 1|1x 2|2x 3|3x 12|12x / active+rewards+"
                "pending reward withdrawals / both), up to 4 transactions per block with repeated delegators, amounts chosen relative to "
                "the observed active / reward balance (all, all+1, part, one, small, negative, too much); evaluations = ABCI steps "
                "(BeginBlock or DeliverTx) whose full projected state was compared with the model; distinct = distinct (genesis, history)",
        "traces_validated_against_impl": rep["cases"], "blocks": rep["blocks"], "txs": rep["txs"],
        "tx_ok": rep["tx_ok"], "tx_fail": rep["tx_fail"],
        "kind_histogram": rep["kind_histogram"], "generator_class_histogram": rep["generator_class_histogram"],
        "outcome_histogram": rep["outcome_histogram"], "genesis_histogram": rep["genesis_histogram"],
        "blocks_with_two_ops_by_one_delegator": rep["blocks_with_two_ops_by_one_delegator"],
        "undelegations_merged_into_a_pending_key_written_in_the_same_block": rep["undelegations_merged_into_a_pending_key_written_in_the_same_block"],
        "accruals_to_an_active_key_first_written_in_the_previous_block": rep["accruals_to_an_active_key_first_written_in_the_previous_block"],
        "blocks_with_accrual_to_two_or_more_delegators": rep["blocks_with_accrual_to_two_or_more_delegators"],
        "accruals_right_after_a_reinvestment_by_the_same_delegator": rep["accruals_right_after_a_reinvestment_by_the_same_delegator"],
        "alien_keys": rep["alien_keys"],
        "successful_reinvests": rep["successful_reinvests"],
        "successful_reinvests_directly_after_a_successful_undelegate": rep["successful_reinvests_directly_after_a_successful_undelegate"],
        "successful_reinvests_directly_after_an_undelegate_by_another_delegator": rep["successful_reinvests_directly_after_an_undelegate_by_another_delegator"],
        "node_restarts": rep["node_restarts"],
        "reward_withdrawals_maturing_at_a_block_that_begins_with_an_empty_pool": rep["reward_withdrawals_maturing_at_a_block_that_begins_with_an_empty_pool"],
        "undelegations_maturing_at_a_block_that_begins_with_an_empty_pool": rep["undelegations_maturing_at_a_block_that_begins_with_an_empty_pool"],
        "blocks_beginning_with_an_empty_pool_after_block_1": rep["blocks_beginning_with_an_empty_pool_after_block_1"],
        "model_mismatches": len(mm), "monitor_failures": len(mon),
        "cases_in_negative_undelegate_trigger_region": sum(1 for t in tr if t[0]),
        "cases_in_negative_reward_withdrawal_trigger_region": sum(1 for t in tr if t[1]),
        "cases_in_negative_reinvest_trigger_region": sum(1 for t in tr if t[2]),
        "finding_replays_and_corpus_cases_run": nextra,
        "samples": rep["samples"],
        "explanation": "theorems of props/C12.v re-checked; Deleg.v evaluated by vm_compute on every recorded step of the real application "
                       "(model_mismatches must be 0); monitor = DelegCheck.v predicates on the implementation's observations: pool >= sum "
                       "active (= without donations), BeginBlock credit of every delegator = amount due at that height, matured payments >= 0, "
                       "reward balances and delegator balances >= 0; the replays of all recorded findings run as cases",
    })
    stats = judge(ctx, cases, mm, mon, tr)
    if rep["alien_keys"] and ctx.violations == 0:
        # a delegation-store key that is neither deleg_a_<cast address>, deleg_p_<height>_<cast address> nor a reward
        # key of the cast: report the history that made the application write it
        for c in cases:
            if c.get("alien"):
                ctx.violation("%s_alien_key" % c["spec"]["name"], {"spec": c["spec"], "kind": "malformed-delegation-store-key",
                              "keys": sorted(set(c["alien"]))[:5], "how": "./check replay <this file>"})
                break
    cov["monitor_failures_by_class"] = {CLASSES[k]: sum(1 for m in mon if m[2] == k) for k in CLASSES}
    cov["known_finding_cases"] = {T_NEGUND: len(stats["known_negund_cases"]), T_NEGRW: len(stats["known_negrw_cases"]),
                                  T_NEGRI: len(stats["known_negri_cases"])}
    if broken is not None and ctx.violations == 0:
        raise broken


def replay(ctx, rp):
    vh = common.build_harness()
    ok, log = common.coq_make(["theories/DelegCheck.vo"])
    if not ok:
        raise Broken("model does not build", log[-2000:])
    tmp = os.path.join(ctx.scratch, "one.json")
    json.dump([rp["spec"]], open(tmp, "w"))
    rep, cases, mm, mon, tr = evaluate(ctx, vh, ["-corpus", tmp], tag="replay")
    print("model_mismatches (case, step)", mm)
    print("monitor failures (case, step, class)", [(a, b, CLASSES.get(c, c)) for a, b, c in mon])
    print("triggers (negative undelegate, negative reward withdrawal, negative reinvest)", tr)
    print("malformed / foreign delegation-store keys", sorted({k for c in cases for k in (c.get("alien") or [])}))
    judge(ctx, cases, mm, mon, tr)
    if rep["alien_keys"] and ctx.violations == 0:
        ctx.violation("%s_alien_key" % cases[0]["spec"]["name"], {"spec": cases[0]["spec"], "kind": "malformed-delegation-store-key",
                      "keys": sorted(set(cases[0].get("alien") or []))[:5]})
