"""C11 — stake lifecycle: unstaked funds unlock only after maturity, exactly once."""
import json, os
from concurrent.futures import ThreadPoolExecutor
import common
from common import Broken, sh

ASSUMPTIONS = [
    "process restarts (byte copy of the data directory + fresh application: after the Commit of random blocks and of EVERY verdict block, "
    "and between EndBlock and Commit with the block replayed) do not change the model state: the model's state is the committed store",
    "a transaction that returns a non-zero code leaves the state unchanged (C06); the model's handlers are no-ops on failure",
    "the static part of stakeTx/unstakeTx/withdrawTx.Validate (signatures by the stake account and the validator key, fee currency and "
    "price, well-formed addresses and public key, validator address = address of the consensus key (9246c8d)) holds for every generated "
    "transaction; the model contains the state/amount-dependent part (coin valid, balance covers the stake, stake-address match, amount > 0)",
    "the transaction currency is OLT (the only registered stake currency); other currencies are C18/C02 matter",
    "allegation verdicts, the frozen flag, the open-request flag, the purge-height rule, the stake account's balance and the "
    "result of the fee step are INPUTS of the model operations (theorems hold for all values; the harness reads them from the real stores)",
    "penalty amount = trunc((2*total*pct+dec)/(2*dec)): equals the big.Float computation amt*pct/dec+0.5 truncated for |total| < 2^60, dec > 0",
    "at most one GUILTY verdict per block in the generated histories (the Go code ranges over a map of requests); "
    "no byzantine evidence and no absent validators in the generated blocks",
    "the maturity option given to the model is the one PERSISTED in the governance store, read through the harness's own governance.Store "
    "object at each transaction; it changes by a finalised configuration-update proposal (scripted history on a production-range genesis) "
    "and, in the random histories, by the calls the governance update makes (SetStakingOptions + SetLUH on the deliver state)",
    "every history runs in a child process; one in which the application exits (logger.Fatal) is dropped and counted in "
    "coverage.crashed_histories (none since fix e681066; findings/C11_observation_negative_power_exit.json is a corpus case that must run to the end)",
    "C11_validator_record assumes (environment, stated in the theorem): non-negative genesis amounts; no validator record reaches 2^63 "
    "whole OLT; PenaltyBasePercentage >= 0, PenaltyBaseDecimals > 0",
]

# trigger code -> trigger id
# triggers 1, 2 (fix 48c76fc/d276709), 3 (e681066), 4 (cb71748) and 6 (0ce270f) are repaired (status "fixed"): they explain nothing any more —
# a monitor violation or a model mismatch downstream of them is an ordinary VIOLATION
TRIGGERS = {1: "C11.stake_amount_ge_2p63", 2: "C11.negative_amount_deliver", 3: "C11.validator_record_deleted_with_stake",
            4: "C11.penalty_not_atomic", 5: "C11.withdraw_names_other_validator", 6: "C11.postponed_penalty_blocked"}
# monitor code -> (what, trigger codes that explain it)
MONITORS = {
    11: ("validator total (st__t_) differs from the sum of its delegators' effective amounts", []),
    12: ("delegator effective total (st__d_e_) differs from the sum over validators", []),
    13: ("validator record stake (v_) differs from st__t_ (+ pending penalty)", []),
    14: ("withdrawn exceeds staked minus penalised (whole OLT)", []),
    15: ("paid out exceeds paid in minus penalties (base units, balance side)", []),
    16: ("WITHDRAW accepted while a validator owned by the delegator is frozen", [5]),
    17: ("staked - penalised - withdrawn differs from effective + withdrawable + maturing", []),
    18: ("withdrawable changed by something else than entries maturing at this height minus withdrawals", []),
    19: ("a successful UNSTAKE left no maturing entry at height + the maturity option in force in the store", []),
    20: ("a STAKE/UNSTAKE/WITHDRAW naming a frozen validator was accepted", []),
    22: ("an UNSTAKE/WITHDRAW naming a validator was accepted between its GUILTY verdict and the next successful RELEASE", []),
    21: ("the penalty taken by a GUILTY verdict differs from the configured share of the convicted validator's own total", []),
}
MM_CODES = {1: "ok/fail", 2: "balance change", 3: "st__e_", 4: "st__t_", 5: "st__d_e_", 6: "st__d_b_", 7: "st__m_", 8: "v_ record"}


def triples(a):
    return [(a[i], a[i + 1], a[i + 2]) for i in range(0, len(a), 3)]


def evaluate(ctx, vh, args):
    out_dir = os.path.join(ctx.scratch, "c11")
    os.makedirs(out_dir, exist_ok=True)
    rc, out = sh([vh, "c11", "-out", out_dir] + args, timeout=1800)
    if rc != 0:
        raise Broken("C11 harness run failed", out[-3000:])
    rep = json.load(open(os.path.join(out_dir, "c11_report.json")))
    cases = json.load(open(os.path.join(out_dir, "c11_cases.json"))) or []
    ok, log = common.coq_make(["theories/StakeCheck.vo"])
    if not ok:
        raise Broken("the model (Stake.v / StakeCheck.v) does not build", log[-3000:])

    def one(f):
        return common.coqc_file(f, cwd=out_dir)
    mm, mon, trg = [], [], []
    with ThreadPoolExecutor(max_workers=12) as ex:
        for ok, cout in ex.map(one, rep.get("files") or []):
            if not ok:
                raise Broken("the model could not be evaluated on the recorded histories (cases file does not check)", cout[-3000:])
            mm += triples(common.parse_print(cout, "MMv"))
            mon += triples(common.parse_print(cout, "MONv"))
            trg += triples(common.parse_print(cout, "TRGv"))
    return rep, cases, mm, mon, trg


def payload(cases, ci, step):
    c = cases[ci]
    return {"plan": c["Plan"], "first_bad_step": step,
            "steps": [s["Desc"] for s in c["Steps"][: step + 1]][-25:],
            "how": "./check replay <this file>  (re-runs the plan on the real application)"}


# monitors whose expected value comes from the MODEL's state (maturing entries, pending penalty, penalised totals)
MODEL_DEPENDENT = {13, 14, 15, 17, 18, 19, 21}


def judge(ctx, cases, mm, mon, trg):
    found_input = False
    known_hits = {}
    # model / implementation mismatches: tolerated only downstream of a KNOWN trigger (one-sided comparison: the
    # implementation may behave like the defective model or have been repaired).  From the first tolerated divergence on,
    # the model no longer describes that history, so the model-dependent monitors are not evaluated on its remainder.
    bad, diverged = [], {}
    for (ci, step, code) in mm:
        fired = {t for (c2, s2, t) in trg if c2 == ci and s2 <= step}
        if fired and all(common.known("C11", TRIGGERS[t]) for t in fired):
            diverged[ci] = min(diverged.get(ci, step), step)
            continue
        bad.append((ci, step, code))
    for (ci, step, code) in mon:
        first_bad = min([s2 for (c2, s2, _) in bad if c2 == ci], default=None)
        if code in MODEL_DEPENDENT and ci in diverged and step >= diverged[ci] and (first_bad is None or first_bad > diverged[ci]):
            continue    # (a history that already mismatched OUTSIDE a known trigger region keeps all its monitors)
        what, expl = MONITORS.get(code, ("monitor %d" % code, []))
        fired = sorted({t for (c2, s2, t) in trg if c2 == ci and s2 <= step and t in expl}, key=expl.index)
        explained = False
        for t in fired:
            if ctx.known_finding(TRIGGERS[t], what):
                known_hits[TRIGGERS[t]] = known_hits.get(TRIGGERS[t], 0) + 1
                explained = True
                break
        if explained:
            continue
        found_input = True
        if ctx.violations < 3:
            ctx.violation("monitor_%d_case_%d" % (code, ci), dict(payload(cases, ci, step), kind=what, monitor=code,
                          triggers_fired=[TRIGGERS[t] for (c2, s2, t) in trg if c2 == ci and s2 <= step]))
    if bad and not found_input:
        ci, step, code = bad[0]
        raise Broken("correspondence Stake.v vs the real application broke: %s differs" % MM_CODES.get(code, code),
                     json.dumps(payload(cases, ci, step)))
    return known_hits, bad


def corpus(ctx, vh):
    """Witness replay (design 2.3 C): every C11 finding file is run on the implementation first.  A fixed finding must
    now satisfy the property (no monitor violation, no mismatch); a known one must still show its trigger."""
    n = 0
    for f in common.load_findings():
        if f["property"] != "C11":
            continue
        rp = json.load(open(os.path.join(common.VERIF, f["replay"])))
        pf = os.path.join(ctx.scratch, "corpus_plan.json")
        json.dump(rp["plan"], open(pf, "w"))
        rep, cases, mm, mon, trg = evaluate(ctx, vh, ["-plan", pf])
        n += 1
        if rep.get("crashed_histories"):
            ctx.violation("corpus_" + f["trigger"].split(".")[1], {"kind": "the application exits on the corpus history", "plan": rp["plan"]})
            continue
        if f["status"] == "fixed":
            if mon or mm:
                what = MONITORS.get(mon[0][2], ("",))[0] if mon else "model/implementation mismatch: " + str(MM_CODES.get(mm[0][2]))
                step = (mon or mm)[0][1]
                ctx.violation("corpus_" + f["trigger"].split(".")[1], dict(payload(cases, 0, step), kind="a repaired defect is back: " + what,
                              finding=f["trigger"], fixed_by=f.get("commit")))
        else:
            judge(ctx, cases, mm, mon, trg)
            code = [k for k, v in TRIGGERS.items() if v == f["trigger"]][0]
            if not any(t == code for (_, _, t) in trg):
                raise Broken("the witness of known finding %s no longer fires its trigger on the implementation "
                             "(repaired? then mark it fixed and update the model)" % f["trigger"])
    # the history that used to end in a node exit (negative validator power reaching the fee distribution; repaired by
    # e681066) must run to the end and satisfy every monitor
    extra = os.path.join(common.VERIF, "findings", "C11_observation_negative_power_exit.json")
    if os.path.exists(extra):
        rep, cases, mm, mon, trg = evaluate(ctx, vh, ["-plan", extra])
        n += 1
        if rep.get("crashed_histories") or mon or mm:
            what = "the application exits on this history" if rep.get("crashed_histories") else "monitor or model mismatch on the former node-exit history"
            ctx.violation("corpus_negative_power_exit", {"kind": what, "plan": json.load(open(extra)), "monitors": mon, "mismatches": mm})
    return n


def run(ctx):
    broken = None
    try:
        common.prove(ctx, "props/C11.v")
    except Broken as b:
        broken = b
    vh = common.build_harness()
    ncorpus = corpus(ctx, vh)
    n = 150 if ctx.tier == "thorough" else 36
    rep, cases, mm, mon, trg = evaluate(ctx, vh, ["-seed", str(ctx.seed), "-n", str(n)])
    known_hits, bad = judge(ctx, cases, mm, mon, trg)
    trig_hist = {}
    for (_, _, t) in trg:
        trig_hist[TRIGGERS[t]] = trig_hist.get(TRIGGERS[t], 0) + 1
    clean_cases = len(cases) - len({c for (c, _, _) in trg})
    ctx.coverage.update({
        "evaluations": rep["steps"], "distinct_nontrivial": rep["txs"],
        "rule": "14 scripted histories (life cycle, a validator convicted, released after the release time and convicted again with unstake/withdraw attempts after each verdict, configuration-update proposals about stakingOptions.* between stake and unstake — refused, CheckTx only, created, funded but unvoted, and one finalised on a production-range genesis —, GUILTY verdicts on both validators of a stake account that backs two validators, several unstakes of one delegator maturing at the same height from the same and from another validator, the former refuted-theorem witnesses, verdict+freeze, maturity option change on a genesis "
                "with maturing amounts) + seeded random histories of 14-23 blocks over 6 validators (4 genesis, 2 candidates) and their "
                "stake accounts (candidates partly staked from a genesis validator's account; bursts of 2-4 unstakes of one delegator per block): stake/unstake/withdraw with amounts around 0, the balance (1,000,000 OLT), the validator total, and in a "
                "third of the histories 2^63-1, 2^64, 2^64+1000, 2^65, -1, -100, -2^64 (all rejected since fix 48c76fc); a GUILTY verdict in half of them (in two thirds of those the convicted validator's stake account backs a second validator: larger or smaller share); maturity 0..5; "
                "evaluations = model steps compared, distinct = staking transactions delivered",
        "traces_validated_against_impl": rep["cases"], "histories": rep["cases"], "corpus_replays": ncorpus, "histories_without_any_trigger": clean_cases,
        "crashed_histories": rep.get("crashed_histories") or [],
        "restarts": rep.get("restarts"), "restarts_between_endblock_and_commit": rep.get("restarts_between_endblock_and_commit"),
        "restarts_after_verdict_block": rep.get("restarts_after_verdict_block"),
        "verdicts_on_shared_stake_account": rep.get("verdicts_on_shared_stake_account"), "successful_releases": rep.get("successful_releases"),
        "staking_option_proposals": {k: rep.get(k) for k in ("staking_option_proposals_checktx", "staking_option_proposals_delivered",
                                      "staking_option_proposals_created", "staking_option_proposals_refused_at_checktx",
                                      "persisted_maturity_option_changes")},
        "kind_histogram": rep["kind_histogram"], "outcome_histogram": rep["outcome_histogram"],
        "amount_class_histogram": rep["amount_class_histogram"], "verdicts": rep["verdicts"],
        "model_mismatches": len(mm), "model_mismatches_outside_known_triggers": len(bad),
        "monitor_violations": len(mon), "monitor_violations_by_code": {str(k): sum(1 for x in mon if x[2] == k) for k in sorted({x[2] for x in mon})},
        "trigger_histogram": trig_hist, "known_finding_hits": known_hits,
        "samples": rep["samples"],
        "explanation": "theorems of props/C11.v re-checked; Stake.v evaluated by vm_compute on every recorded history of the real application "
                       "(per transaction ok/fail and balance change, per block all st__* and v_ records); monitors = the property's invariants "
                       "evaluated on the records and results the implementation produced",
    })
    if broken is not None and ctx.violations == 0:
        raise broken


def replay(ctx, rp):
    vh = common.build_harness()
    plan = rp["plan"]
    pf = os.path.join(ctx.scratch, "plan.json")
    json.dump(plan, open(pf, "w"))
    rep, cases, mm, mon, trg = evaluate(ctx, vh, ["-plan", pf])
    print("model_mismatches (case, step, code)", mm)
    print("monitor violations (case, step, code)", [(c, s, MONITORS.get(k, (k,))[0]) for (c, s, k) in mon])
    print("triggers fired (case, step, trigger)", [(c, s, TRIGGERS[t]) for (c, s, t) in trg])
    judge(ctx, cases, mm, mon, trg)
