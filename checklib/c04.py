"""C04 — only authentically signed, untampered transactions are admitted or executed."""
import json, os
import common
from common import Broken, sh

ASSUMPTIONS = [
    "symbolic cryptography: a signature verifies under exactly the key that produced it over exactly the content it was produced over (ed25519/secp256k1 libraries are oracles); addresses are injective in keys",
    "RawTx.RawBytes (JSON re-serialisation of type, payload, fee, memo) is injective in those fields — validated on every mutant of this run (signed_bytes_changed), not proved",
    "the table required_authority in props/C04.v (which address fields carry authority, per kind) is hand-written from the semantics of each kind; srcfacts' recognisers for Signers()/Validate() are trusted",
    "OLVM transactions authenticate by EIP-155 sender recovery (audited exemption; exercised under C17)",
]

MIN_KINDS = 20


def run_harness(ctx, vh, extra):
    out_dir = os.path.join(ctx.scratch, "c04")
    os.makedirs(out_dir, exist_ok=True)
    rc, out = sh([vh, "c04", "-out", out_dir, "-seed", str(ctx.seed)] + extra, timeout=1500)
    if rc != 0:
        raise Broken("C04 harness run failed (a transaction crashed the application?)", out[-3000:])
    rep = json.load(open(os.path.join(out_dir, "c04_report.json")))
    mm = []
    for f in rep["files"]:
        ok, cout = common.coqc_file(f, cwd=out_dir)
        if not ok:
            raise Broken("Auth.v could not be evaluated on the recorded ValidateBasic cases", cout[-3000:])
        mm += common.parse_print(cout, "MM")
    return rep, mm


def judge(ctx, rep, mm):
    admitted, executed, exercised = [], [], 0
    for k in rep["kinds"]:
        base_ok = k["base_check_code"] == 0
        if base_ok:
            exercised += 1
        for m in k["mutants"]:
            # without an accepted base only the re-signed variants say anything: they are signed by
            # accounts that do not hold the authority the payload requires (ground truth: the keys
            # the generator signs the base with), so admitting one is a violation by itself
            if not base_ok and m["class"] != "attacker":
                continue
            if m["class"] == "content" and not m["signed_bytes_changed"]:
                continue
            if m["check_code"] == 0:
                admitted.append((k, m))
            if m["deliver_code"] == 0:
                executed.append((k, m))
    for k, m in admitted[:3]:
        ctx.violation("admitted_%s_%s" % (k["kind"], m["name"].replace(".", "_")), {
            "kind": "tampered-or-unauthentic-transaction-admitted-by-CheckTx", "tx_kind": k["kind"], "mutation": m["name"],
            "base_tx": k["base_tx"], "mutant_tx": m["tx"], "how": "./check replay <this file>"})
    if executed:
        if not ctx.known_finding("C04.deliver_unvalidated", ""):
            k, m = executed[0]
            ctx.violation("executed_%s_%s" % (k["kind"], m["name"].replace(".", "_")), {
                "kind": "unauthentic-transaction-executed-by-DeliverTx", "tx_kind": k["kind"], "mutation": m["name"],
                "base_tx": k["base_tx"], "mutant_tx": m["tx"], "how": "./check replay <this file>"})
    if mm and not admitted:
        raise Broken("correspondence Auth.validate_basic vs action.ValidateBasic broke", "first mismatching case: " + rep["vb_case_descr"][mm[0]])
    if exercised < MIN_KINDS and not admitted:
        raise Broken("only %d kinds have a base transaction that CheckTx accepts (generator rot or a change that rejects valid transactions)" % exercised,
                     json.dumps([(k["kind"], k.get("base_log", "")) for k in rep["kinds"] if k["base_check_code"] != 0])[:2000])
    return admitted, executed, exercised


def run(ctx):
    broken = None
    try:
        common.prove(ctx, "props/C04.v", extra_targets=["theories/AuthCheck.vo"])
    except Broken as b:
        broken = b
    vh = common.build_harness()
    n = 4000 if ctx.tier == "thorough" else 800
    rep, mm = run_harness(ctx, vh, ["-n", str(n)])
    admitted, executed, exercised = judge(ctx, rep, mm)
    # every transaction kind registered in the public router must be among the kinds whose mutants were tried
    import re as _re
    txt = open(os.path.join(common.VERIF, "coq", "gen", "Facts_TxKinds.v")).read()
    registered = []
    for d in ("public_kinds", "ext_public_kinds"):
        m_ = _re.search(r"Definition %s : list string := \[(.*?)\]\." % d, txt, _re.S)
        if m_:
            registered += _re.findall(r'"([A-Z0-9_]+)"', m_.group(1))
    tried = {k["kind"] for k in rep["kinds"]}
    not_tried = sorted(k for k in set(registered) if not any(g == k or g.startswith(k + "_") for g in tried))
    if (len(registered) < 30 or not_tried) and ctx.violations == 0:
        raise Broken("registered transaction kinds whose authentication is not exercised: %s" % (", ".join(not_tried) or "list unreadable"))
    nm = sum(len(k["mutants"]) for k in rep["kinds"])
    hist = {}
    for k in rep["kinds"]:
        for m in k["mutants"]:
            key = m["class"] + ("/rejected" if m["check_code"] else "/ADMITTED")
            hist[key] = hist.get(key, 0) + 1
    ctx.coverage.update({
        "registered_kinds": len(set(registered)), "registered_kinds_not_exercised": not_tried,
        "evaluations": rep["vb_cases"] + nm, "distinct_nontrivial": len(set(rep["vb_case_descr"])) + nm,
        "rule": "ValidateBasic cases: random (content, signers 0-3, signatures) with one perturbation (drop, duplicate, swap, substitute key, signed by other key, "
                "signed over other content, corrupted bytes, wrong algorithm, extra signature) or none; app level: for each of %d transaction kinds a valid signed "
                "transaction in a prepared chain state and every single-field mutant (type, each payload field, each fee field, memo, signature bytes, public key, "
                "signer count/order, key algorithm, re-signed by another key) through CheckTx and delivered directly in a block; distinct = distinct case descriptions" % len(rep["kinds"]),
        "traces_validated_against_impl": rep["vb_cases"], "vb_accepted_by_impl": rep["vb_accepted"],
        "vb_perturbation_histogram": rep["vb_perturbation_histogram"], "model_mismatches": len(mm),
        "kinds": len(rep["kinds"]), "kinds_with_accepted_base": exercised, "app_mutants": nm, "app_mutant_histogram": hist,
        "mutants_admitted_by_checktx": len(admitted), "mutants_executed_by_delivertx": len(executed),
        "samples": rep["vb_samples"] + [{"kind": k["kind"], "mutants": [m["name"] for m in k["mutants"]][:6]} for k in rep["kinds"][:2]],
        "explanation": "theorems of props/C04.v re-checked (admission soundness, tamper/drop/reorder/substitute rejection, facts on Signers()/Validate()/txChecker/txDeliverer); "
                       "Auth.validate_basic evaluated by vm_compute against the real action.ValidateBasic; every kind's mutants through the real CheckTx/DeliverTx",
    })
    if broken is not None and ctx.violations == 0:
        raise broken


def replay(ctx, rp):
    vh = common.build_harness()
    ok, log = common.coq_make(["theories/AuthCheck.vo"])
    rep, mm = run_harness(ctx, vh, ["-n", "50", "-kind", rp.get("tx_kind", "SEND")])
    for k in rep["kinds"]:
        for m in k["mutants"]:
            if m["name"] == rp.get("mutation") or rp.get("mutation") is None:
                print(k["kind"], m["name"], "check_code", m["check_code"], "deliver_code", m["deliver_code"])
    judge(ctx, rep, mm)
