"""C02 — no value creation: totals grow only by the accrued delegation rewards; no stored amount is negative."""
import ledgerlib
from ledgerlib import C02_CLASSES, C02_KNOWN

ASSUMPTIONS = [
    "the chain total of a currency is the sum of the decoded records: balances (accounts, pools, contract accounts), fee pool and fee shares, "
    "locked / unlocking / withdrawable stake (whole OLT x 10^18), undelegating amounts, delegation reward claims and pending reward "
    "withdrawals, individual proposal funds; NOT counted: aggregates (st__t_, st__d_e_, propFunds_t_, delegRwz_total_rewards), active "
    "delegations deleg_a_ (claims on the delegation pool's balance, which is counted) and validator reward claims rwz_/rwcum_ (paid out "
    "of the reward pool's balance, which is counted; their size is C13's property). The validator reward records rwcum_balance_ / "
    "rwcum_withdrawn_ / rwz_ are decoded as SIDE records and monitored: never negative, and no transaction may raise a matured claim "
    "rwcum_balance_ (claims grow in BeginBlock only)",
    "allowance of a block = the increase of the code's own accrual counter delegRwz_total_rewards in its BeginBlock (that the accrual "
    "follows the reward schedule is C13); wrapped ETH: the supply counter (balance of TotalSupplyAddr) is a side record, the conserved quantity is the sum of the user "
    "balances; per tracker (hash of the embedded transaction) the harness records the value of an accepted lock (go-ethereum decode) and "
    "what an accepted redeem burnt (observed); an ETH_REPORT_FINALITY step that raises the ETH total gets exactly that pending amount of "
    "its tracker as allowance, once ('refund of tracker T = amount burnt at T's creation'); when finality is reached is C15's; ERC20 / BTC "
    "are not exercised; OLVM transactions (transfers, contract creations, failures) ARE in the scenarios and random "
    "histories and are judged by the monitors (keeper_ nonce records and contract code/storage hold no value; C17 proves their conservation)",
    "a state record the decoder does not recognise fails the check (never silently dropped)",
    "per-kind theorems are about the effect functions of LedgerTx.v (hand-written after the Go handlers, tied by the per-step "
    "correspondence); kinds without an effect function (proposal fund distribution C14, "
    "ETH/BTC C15, OLVM C17, bid app) are covered by the monitors only; the allegation penalty hook and WITHDRAW_REWARD are modelled",
    "a failed transaction leaves no trace (DeliverTx discards the session: C06) - also checked here on every failed step",
]

MINE = set(C02_CLASSES)
WHAT = ("theorems of props/C02.v re-checked; monitors (LedgerCheck.v, vm_compute) on the ledgers decoded from the real application after "
        "every BeginBlock / DeliverTx / EndBlock: no transaction increases a currency total, BeginBlock increases it by at most the accrual "
        "counter's increase, EndBlock not at all, a block by at most its allowance, no stored amount negative; for the modelled kinds the "
        "operation list of LedgerTx.v applied to the observed ledger before the step must give the observed ledger after it")


def run(ctx):
    ledgerlib.run(ctx, "props/C02.v", MINE, C02_KNOWN, C02_CLASSES, WHAT)


def replay(ctx, rp):
    ledgerlib.replay(ctx, rp, MINE, C02_KNOWN, C02_CLASSES)
