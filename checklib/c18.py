"""C18 — no transaction input can crash or halt the node."""
import base64, glob, json, os, random
import common, c18run
from common import Broken, sh

ASSUMPTIONS = [
    "robustness of the JSON/RLP/ABI parsers and crypto libraries against arbitrary BYTES is exploration (malformed-bytes stream), not proved; the theorems cover the decision logic after parsing (fee step, Coin arithmetic, validation guard) and the inventory of explicit stop sites",
    "implicit stops (nil dereference, index out of range) cannot be inventoried syntactically; the hostile-field generator targets them: every payload field of every kind x a table of hostile values, correctly signed",
    "the class of every explicit panic/Fatal/Exit site in props/C18.v was assigned by reading the code (audited, trusted)",
    "memory exhaustion and time are outside; inputs run in worker processes so that os.Exit and application shutdown are observed from outside; after every input a probe transaction must still be accepted, executed and committed",
    "ETH lock/redeem/ERC20/report kinds run on a second prepared chain (Ethereum chain driver, witnesses, a token: harness/c18eth.go) with the same field/payload/envelope hostility plus hostile EMBEDDED Ethereum transactions (every selector x 0..200 argument bytes, bare / framed / RLP signed / unsigned / to contract, token, elsewhere, creation); OLVM transactions get hostile values, chain ids, gas, nonces, memos, code and signatures of every length",
]


def _payload(inp):
    """(transaction type, decoded payload) of an input, or (None, None) when the bytes are not a JSON envelope."""
    try:
        env = json.loads(bytes.fromhex(inp["tx"]))
        return env.get("type"), json.loads(base64.b64decode(env.get("data") or ""))
    except Exception:
        return None, None


def _bid_unknown_asset_type(inp):
    # BID_CREATE (0x901) that opens a conversation (no bidConvId) with an assetType outside BidAssetMap {0x21, 0x22}
    typ, p = _payload(inp)
    if typ != 0x901 or not isinstance(p, dict) or p.get("bidConvId"):
        return False
    at = p.get("assetType")
    return at is None or (isinstance(at, int) and not isinstance(at, bool) and at not in (0x21, 0x22))


# known findings whose inputs the generator produces itself: trigger id -> predicate over the input.
# A crash of a generated input is attributed to the finding only while its status is "known".
TRIGGERS = {
    "C18.bid_unknown_asset_type": _bid_unknown_asset_type,
}


def corpus_inputs():
    """Inputs of earlier findings (fixed ones must not crash any more)."""
    out = []
    for f in common.load_findings():
        if f["property"] != "C18" or not f.get("replay"):
            continue
        p = os.path.join(common.VERIF, f["replay"])
        if not os.path.exists(p):
            continue
        rp = json.load(open(p))
        txs = [(i["tx"], i.get("world", "")) for i in rp.get("inputs", [])] + [(t, rp.get("world", "")) for t in rp.get("txs", [])]
        for t, w in txs:
            out.append({"kind": rp.get("tx_kind", "corpus"), "name": f["trigger"], "class": "corpus", "tx": t, "world": w, "finding": f})
    return out


def run(ctx):
    broken = None
    try:
        common.prove(ctx, "props/C18.v")
    except Broken as b:
        broken = b
    vh = common.build_harness()
    d = os.path.join(ctx.scratch, "c18")
    os.makedirs(d, exist_ok=True)
    gen = os.path.join(d, "in.json")
    rc, out = sh([vh, "c18", "-gen", gen, "-seed", str(ctx.seed)], timeout=600)
    if rc != 0:
        raise Broken("C18 input generation failed (the set-up chain no longer runs)", out[-2000:])
    ins = json.load(open(gen))
    # every transaction kind registered in the public router (incl. the external apps') must have hostile
    # inputs: the list of registered kinds is regenerated from the source on every run
    import re as _re
    txt = open(os.path.join(common.VERIF, "coq", "gen", "Facts_TxKinds.v")).read()
    registered = []
    for d in ("public_kinds", "ext_public_kinds"):
        m = _re.search(r"Definition %s : list string := \[(.*?)\]\." % d, txt, _re.S)
        if m:
            registered += _re.findall(r'"([A-Z0-9_]+)"', m.group(1))
    generated = {i["kind"] for i in ins}
    not_generated = sorted(k for k in set(registered) if not any(g == k or g.startswith(k + "_") for g in generated))
    if len(registered) < 30:
        raise Broken("the list of registered transaction kinds could not be read from Facts_TxKinds.v")
    if not_generated:
        raise Broken("registered transaction kinds for which no hostile input is generated: %s" % ", ".join(not_generated))
    cor = corpus_inputs()
    for c in cor:
        c["id"] = len(ins)
        ins.append({k: c[k] for k in ("id", "kind", "name", "class", "tx", "world")})
    json.dump(ins, open(gen, "w"))
    ids = [i["id"] for i in ins]
    if ctx.tier != "thorough":
        # quick: the corpus, every envelope/payload/bytes case, and a seeded 60% sample of the field cases
        rnd = random.Random(ctx.seed)
        ids = [i["id"] for i in ins if i["class"] != "field" or rnd.random() < 0.6]
    results, crashes = c18run.run_all(vh, gen, ids)
    byid = {i["id"]: i for i in ins}
    cfind = {c["id"]: c["finding"] for c in cor}
    hist, acc = {}, {"check_accepted": 0, "deliver_executed": 0}
    for i in ids:
        k = byid[i]["class"]
        hist[k] = hist.get(k, 0) + 1
        if i in results:
            acc["check_accepted"] += results[i][0] == 0
            acc["deliver_executed"] += results[i][1] == 0
    n = 0
    for i, stage, rc in sorted(crashes):
        inp = byid[i]
        f = cfind.get(i)
        if f is not None and f["status"] == "known" and ctx.known_finding(f["trigger"], ""):
            continue
        if any(pred(inp) and ctx.known_finding(trig, "") for trig, pred in sorted(TRIGGERS.items())):
            continue
        n += 1
        if n <= 5:
            ctx.violation("crash_%s_%s" % (inp["kind"], "".join(ch if ch.isalnum() else "_" for ch in inp["name"])[:40]), {
                "kind": "transaction-input-stops-the-node", "tx_kind": inp["kind"], "input": inp["name"], "class": inp["class"], "stage": stage,
                "worker_exit_status": rc, "txs": [inp["tx"]], "world": inp.get("world", ""), "mode": "both", "how": "./check replay <this file>"})
    # whole histories: every directed scenario and a few random ones, each in its own worker
    rc, out = sh([vh, "scenario", "-list"], timeout=60)
    names = [x for x in out.split() if x.isidentifier()] if rc == 0 else []
    if len(names) < 5:
        raise Broken("the harness no longer lists its directed scenarios", out[-500:])
    hists = names + ["random:%d" % (ctx.seed * 1000 + k) for k in range(3 if ctx.tier != "thorough" else 12)]
    # a configuration-update proposal for every option key with hostile and ordinary values, taken through funding,
    # voting and finalisation, followed by ordinary traffic of the governed subsystems
    cfg_vals = ["0", "-1", "1", "100000000000000000000000000000000000000"] + (["2", "64", "3000000"] if ctx.tier == "thorough" else [])
    rc2, out2 = sh([vh, "scenario", "-cfgkeys"], timeout=60)
    cfg_keys = [x for x in out2.split() if "." in x] if rc2 == 0 else []
    if len(cfg_keys) < 10:
        raise Broken("the harness no longer lists the configuration-update keys", out2[-500:])
    hists += ["cfg:%s:%s" % (k, v) for k in cfg_keys for v in cfg_vals]
    # the same directed histories on chains whose consensus parameters LIMIT the gas of a block (Tendermint's
    # default, and the repository's genesis tool, is "no limit"): transactions that use the block's gas up
    gas_hists = ["%s@gas=%d" % (h, g) for h in ("govupdate", "ethlock", "bidflow") for g in ((50000, 200000) if ctx.tier != "thorough" else (1, 20000, 50000, 100000, 200000, 1000000))]
    hists += gas_hists
    with c18run.cf.ThreadPoolExecutor(max_workers=12) as ex:
        hres = list(ex.map(lambda nm: (nm, c18run.run_history(vh, nm)), hists))
    hbad = []
    for nm, r in hres:
        if r is None:
            continue
        if "@gas=" in nm and ctx.known_finding("C18.finite_block_gas_stops_hooks", ""):
            continue
        hbad.append((nm, r))
    ctx.coverage["histories_stopped_known"] = [nm for nm, r in hres if r is not None and "@gas=" in nm]
    for nm, (blk, what) in hbad[:3]:
        n += 1
        ctx.violation("history_%s_block_%d" % (nm.replace(":", "_"), blk), {
            "kind": "history-stops-the-node", "history": nm, "block": blk, "what": what,
            "how": "build/vh c18 -history %s   (the node stops serving at this block: a block hook panics, exits or hangs)" % nm})
    kinds = sorted({byid[i]["kind"] for i in ids})
    ctx.coverage.update({
        "evaluations": len(ids), "distinct_nontrivial": len({byid[i]["tx"] for i in ids}),
        "rule": "for each of %d kinds a valid transaction in a prepared chain state; every payload field x hostile values by field type (addresses: empty/short/long/malformed/foreign/null; "
                "amounts: 4 currencies x {-1, 0, 2^63-1, 2^63, 2^64, 10^40, -2^64} plus nil/partial/mistyped; numbers: negative/boundary/float/string; strings: empty/5000 chars/control and "
                "multi-byte; booleans; field absent), whole-payload cases, envelope cases (fee gas/price/currency, type, memo, signature list/key/algorithm/bytes), all correctly signed where "
                "the signer set allows; embedded Ethereum transactions (see assumptions); 116 malformed byte strings; corpus of earlier crash findings; each input goes through CheckTx and then a block (DeliverTx, EndBlock, Commit) in a worker "
                "process, followed by a probe transaction; distinct = distinct byte strings" % len([k for k in kinds if k not in ("-", "corpus")]),
        "registered_kinds": len(set(registered)), "registered_kinds_without_inputs": not_generated,
        "histories_run": hists, "histories_stopped": [nm for nm, _ in hbad],
        "input_class_histogram": hist, "survived": len(results), "crashes": len(crashes), "corpus_inputs": len(cor),
        "accepted_by_checktx": acc["check_accepted"], "executed_by_delivertx": acc["deliver_executed"],
        "traces_validated_against_impl": len(results),
        "samples": [{k: byid[i][k] for k in ("kind", "name", "class")} for i in ids[:: max(1, len(ids) // 6)]][:6],
        "explanation": "theorems of props/C18.v (fee step and checked amounts never stop the node; the validation guard of DeliverTx; explicit stop-site inventory) + hostile inputs run on the real "
                       "application in worker processes (the model predicts no stop for every input; a worker death or application shutdown is a violation)",
    })
    if broken is not None and ctx.violations == 0:
        raise broken


def replay(ctx, rp):
    vh = common.build_harness()
    d = os.path.join(ctx.scratch, "c18")
    os.makedirs(d, exist_ok=True)
    txs = [(i["tx"], i.get("world", "")) for i in rp.get("inputs", [])] + [(t, rp.get("world", "")) for t in rp.get("txs", [])]
    ins = [{"id": n, "kind": rp.get("tx_kind", "replay"), "name": "replay%d" % n, "class": "corpus", "tx": t, "world": w} for n, (t, w) in enumerate(txs)]
    f = os.path.join(d, "in.json")
    json.dump(ins, open(f, "w"))
    results, crashes = c18run.run_all(vh, f, [i["id"] for i in ins], chunk=1)
    print("survived", len(results), "crashes", crashes)
    for i, stage, rc in crashes:
        ctx.violation("replay_crash_%d" % i, {"kind": "transaction-input-stops-the-node", "stage": stage, "txs": [ins[i]["tx"]], "mode": "both"})
