"""C09 — the layered state store behaves like a transactional, versioned map."""
import json, os
import common
from common import Broken, sh

ASSUMPTIONS = [
    "the IAVL root hash is a deterministic function of the sequence of Set/Remove/SaveVersion calls (not modelled; "
    "the harness compares root hashes between twin stores instead)",
    "LevelDB durability and crashes inside SaveVersion are outside the model (tm-db MemDB is used by the harness; "
    "Reopen = a new ChainState over the same database)",
    "stored values are non-empty byte strings (the generators never write an empty value)",
]

TRIGGERS = {1: "C09.tombstone_alias", 2: "C09.gas_exhausted"}


def evaluate(ctx, vh, args):
    out_dir = os.path.join(ctx.scratch, "c09")
    os.makedirs(out_dir, exist_ok=True)
    rc, out = sh([vh, "c09", "-out", out_dir] + args, timeout=1800)
    if rc != 0:
        raise Broken("C09 harness run failed", out[-3000:])
    rep = json.load(open(os.path.join(out_dir, "c09_report.json")))
    cases = json.load(open(os.path.join(out_dir, "c09_cases.json")))
    mm, sv, ng = [], [], 0
    for f in rep["files"]:
        ok, cout = common.coqc_file(f, cwd=out_dir)
        if not ok:
            raise Broken("the model could not be evaluated on the recorded traces (cases file does not check)", cout[-3000:])
        a = common.parse_print(cout, "MM")
        mm += [(a[i], a[i + 1]) for i in range(0, len(a), 2)]
        b = common.parse_print(cout, "SV")
        sv += [(b[i], b[i + 1], b[i + 2]) for i in range(0, len(b), 3)]
        ng += common.parse_print(cout, "NG")[0]
    return rep, cases, mm, sv, ng


def case_payload(c, step):
    return {"rot": c["Rot"], "ops": c["Ops"], "observed": c["Obs"][: step + 1], "first_bad_step": step}


def judge(ctx, rep, cases, mm, sv):
    found_input = False
    for (ci, step, cl) in sv:
        if cl in TRIGGERS and ctx.known_finding(TRIGGERS[cl], ""):
            continue
        found_input = True
        ctx.violation("spec_%d" % ci, dict(case_payload(cases[ci], step), kind="store-answer-differs-from-transactional-map",
                      cls=cl, how="./check replay <this file>"))
        if ctx.violations >= 3:
            break
    for tf in rep.get("twin_failures") or []:
        found_input = True
        ctx.violation("twin_%d" % tf["case"], dict(tf, kind="root-hash-depends-on-reads-or-discarded-sessions",
                      rot=cases[tf["case"]]["Rot"], ops=cases[tf["case"]]["Ops"]))
        if ctx.violations >= 5:
            break
    if mm and not found_input:
        ci, step = mm[0]
        raise Broken("correspondence Store.v vs storage.State broke (model and implementation answer differently)",
                     json.dumps(case_payload(cases[ci], step)))
    return found_input


def run(ctx):
    broken = None
    try:
        common.prove(ctx, "props/C09.v")
    except Broken as b:
        broken = b
    vh = common.build_harness()
    if ctx.tier == "thorough":
        args = ["-seed", str(ctx.seed), "-n", "3000", "-len", "80", "-enum", "4"]
    else:
        args = ["-seed", str(ctx.seed), "-n", "400", "-len", "60", "-enum", "3"]
    corpus = os.path.join(common.VERIF, "corpus", "C09.json")
    if os.path.exists(corpus):
        args += ["-corpus", corpus]
    rep, cases, mm, sv, ng = evaluate(ctx, vh, args)
    cov = ctx.coverage
    cov.update({
        "evaluations": rep["cases"], "distinct_nontrivial": rep["distinct_cases"],
        "rule": "exhaustive sequences up to the enumeration length over 2 keys x {a,b,marker} and 12 operation kinds, plus seeded "
                "random sequences (4 gas modes, 6 rotation settings); distinct = distinct operation sequences",
        "traces_validated_against_impl": rep["cases"], "steps": rep["steps"],
        "op_histogram": rep["op_histogram"], "obs_histogram": rep["obs_histogram"],
        "guarded_cases": ng, "model_mismatches": len(mm), "spec_disagreements": len(sv),
        "spec_disagreements_by_class": {str(k): sum(1 for x in sv if x[2] == k) for k in (0, 1, 2)},
        "twin_runs": rep["twin_runs"], "twin_commits_compared": rep["twin_commits_compared"],
        "twin_failures": len(rep.get("twin_failures") or []),
        "samples": rep["samples"],
        "explanation": "theorems of props/C09.v re-checked; Store.v evaluated by vm_compute on every recorded trace of the real "
                       "storage.State (model_mismatches must be 0); spec monitor = StoreSpec.v on the same traces; twin stores compare root hashes",
    })
    judge(ctx, rep, cases, mm, sv)
    if broken is not None and ctx.violations == 0:
        raise broken


def replay(ctx, rp):
    vh = common.build_harness()
    ok, log = common.coq_make(["theories/StoreCheck.vo"])
    if not ok:
        raise Broken("model does not build", log[-2000:])
    tmp = os.path.join(ctx.scratch, "one.json")
    json.dump([{"Rot": rp["rot"], "Ops": rp["ops"]}], open(tmp, "w"))
    rep, cases, mm, sv, ng = evaluate(ctx, vh, ["-n", "0", "-enum", "0", "-corpus", tmp])
    print("model_mismatches", mm, "spec_disagreements (case, step, class)", sv, "twin_failures", len(rep.get("twin_failures") or []))
    judge(ctx, rep, cases, mm, sv)
