"""C09 — the layered state store behaves like a transactional, versioned map."""
import concurrent.futures, json, os
import common
from common import Broken, sh

ASSUMPTIONS = [
    "the IAVL root hash is a deterministic function of the sequence of Set/Remove/SaveVersion calls (not modelled; "
    "the harness compares root hashes between twin real stores instead: the store vs a store run on strip(ops), and the store vs a "
    "bare tree fed the model's tree calls in the model's order)",
    "LevelDB durability and crashes inside SaveVersion are outside the model (tm-db MemDB is used by the harness; "
    "Reopen = a new ChainState over the same database)",
    "a panic of the code under test in any operation is recorded as an observation (the model never panics except CommitTx without a session)",
    "stored values are non-empty byte strings (the generators never write an empty value)",
]

TRIGGERS = {1: "C09.tombstone_alias", 2: "C09.gas_exhausted"}


def evaluate(ctx, vh, args):
    out_dir = os.path.join(ctx.scratch, "c09")
    os.makedirs(out_dir, exist_ok=True)
    rc, out = sh([vh, "c09", "-out", out_dir] + args, timeout=1800)
    if rc != 0:
        raise Broken("C09 harness run failed", out[-3000:])
    rep = json.load(open(os.path.join(out_dir, "c09_report.json")))
    cases = json.load(open(os.path.join(out_dir, "c09_cases.json")))
    mm, sv, ng, sm, tm, cv = [], [], 0, [], [], []
    with concurrent.futures.ThreadPoolExecutor(max_workers=8) as ex:
        results = list(ex.map(lambda f: common.coqc_file(f, cwd=out_dir), rep["files"]))
    for ok, cout in results:
        if not ok:
            raise Broken("the model could not be evaluated on the recorded traces (cases file does not check)", cout[-3000:])
        a = common.parse_print(cout, "MM")
        mm += [(a[i], a[i + 1]) for i in range(0, len(a), 2)]
        b = common.parse_print(cout, "SV")
        sv += [(b[i], b[i + 1], b[i + 2]) for i in range(0, len(b), 3)]
        ng += common.parse_print(cout, "NG")[0]
        sm += common.parse_print(cout, "SM")
        tm += common.parse_print(cout, "TM")
        d = common.parse_print(cout, "CV")
        cv += [(d[i], d[i + 1], d[i + 2]) for i in range(0, len(d), 3)]
    rep["strip_mismatches"], rep["tlog_mismatches"], rep["content_violations"] = sm, tm, cv
    return rep, cases, mm, sv, ng


def case_payload(c, step):
    return {"rot": c["Rot"], "ops": c["Ops"], "observed": c["Obs"][: step + 1], "first_bad_step": step}


def judge(ctx, rep, cases, mm, sv):
    found_input = False
    unknown = []
    for (ci, step, cl) in sv:
        if cl in TRIGGERS and ctx.known_finding(TRIGGERS[cl], ""):
            continue
        unknown.append((ci, step, cl))
    # report the shortest failing sequence of every kind of failing step (operation, what the store answered), at most 4
    best = {}
    for (ci, step, cl) in unknown:
        c = cases[ci]
        kind = (c["Ops"][step]["Kind"], c["Obs"][step]["Kind"])
        if kind not in best or len(c["Ops"]) < len(cases[best[kind][0]]["Ops"]):
            best[kind] = (ci, step, cl)
    for kind in sorted(best, key=lambda k: len(cases[best[k][0]]["Ops"]))[:4]:
        ci, step, cl = best[kind]
        found_input = True
        ctx.violation("spec_%d" % ci, dict(case_payload(cases[ci], step), kind="store-answer-differs-from-transactional-map",
                      failing_operation=cases[ci]["Ops"][step], store_answered=cases[ci]["Obs"][step],
                      what="at step first_bad_step the real store answers differently from the transactional versioned map "
                           "(StoreSpec.v under the rotation setting rot); getprev n = GetPrevious(n) = versioned read of (commits so far - n)",
                      disagreeing_cases_in_this_run=len(unknown), family=cases[ci].get("Family"),
                      cls=cl, how="./check replay <this file>"))
    # content monitor: an unmetered read (versioned read / read without a gas store) answers differently from the model
    # although every earlier answer — including which writes were refused — was the model's: the stored content is not
    # what the writes that returned success determine (theorems C09_refused_set_no_effect / _not_committed)
    reported = {best[k][0] for k in best}
    cvs = sorted([x for x in (rep.get("content_violations") or []) if x[2] == 1 and x[0] not in reported],
                 key=lambda x: (len(cases[x[0]]["Ops"]), x[0]))
    for (ci, step, kd) in cvs[:2]:
        found_input = True
        ctx.violation("content_%d" % ci, dict(case_payload(cases[ci], step), kind="stored-content-is-not-what-the-successful-writes-determine",
                      failing_operation=cases[ci]["Ops"][step], store_answered=cases[ci]["Obs"][step],
                      what="every answer before first_bad_step (incl. which writes were refused with an error) is the model's; the unmetered read "
                           "at first_bad_step returns content the model proves cannot be there (a refused write was persisted, or an accepted one lost)",
                      content_violations_in_this_run=len(cvs), family=cases[ci].get("Family"), how="./check replay <this file>"))
    # shortest failing sequences first: the replay should be as small as the run found
    twin = sorted(rep.get("twin_failures") or [], key=lambda tf: (len(tf["ops"]), tf["case"]))
    for tf in twin[:3]:
        found_input = True
        ctx.violation("twin_%d" % tf["case"], dict(tf, kind="root-hash-depends-on-reads-or-discarded-sessions",
                      what="two real stores: the sequence `ops` and the same sequence without its reads and without the sessions that "
                           "are not committed (`stripped`) give different root hashes at commit number first_differing_commit (0-based), "
                           "while the surviving writes are the same",
                      twin_failures_in_this_run=len(twin), family=cases[tf["case"]].get("Family"),
                      rot=cases[tf["case"]]["Rot"], ops=cases[tf["case"]]["Ops"], how="./check replay <this file>"))
    if found_input:
        return True
    if mm:
        ci, step = mm[0]
        raise Broken("correspondence Store.v vs storage.State broke (model and implementation answer differently)",
                     json.dumps(case_payload(cases[ci], step)))
    if rep.get("strip_mismatches") or rep.get("tlog_mismatches"):
        raise Broken("the harness' twin inputs are not the model's: strip(ops) differs in cases %s, tree_calls differs in cases %s"
                     % (rep["strip_mismatches"][:5], rep["tlog_mismatches"][:5]))
    tree = sorted(rep.get("tree_twin_failures") or [], key=lambda tf: (len(tf["ops"]), tf["case"]))
    if tree:
        tf = tree[0]
        raise Broken("correspondence Store.v vs storage.State broke: the store's root hash is not the root hash of a bare real tree fed "
                     "the model's tree calls in the model's order (first-write order of the surviving writes); %d cases" % len(tree),
                     json.dumps({"rot": cases[tf["case"]]["Rot"], "ops": cases[tf["case"]]["Ops"], "tree_calls": cases[tf["case"]].get("TLog"),
                                 "hashes_store": tf["hashes_full"], "hashes_tree_twin": tf["hashes_stripped"],
                                 "first_differing_commit": tf["first_differing_commit"]}))
    return found_input


def run(ctx):
    broken = None
    try:
        common.prove(ctx, "props/C09.v")
    except Broken as b:
        broken = b
    vh = common.build_harness()
    if ctx.tier == "thorough":
        args = ["-seed", str(ctx.seed), "-n", "3000", "-len", "80", "-enum", "4"]
    else:
        args = ["-seed", str(ctx.seed), "-n", "400", "-len", "60", "-enum", "3"]
    corpus = os.path.join(common.VERIF, "corpus", "C09.json")
    if os.path.exists(corpus):
        args += ["-corpus", corpus]
    rep, cases, mm, sv, ng = evaluate(ctx, vh, args)
    cov = ctx.coverage
    cov.update({
        "evaluations": rep["cases"], "distinct_nontrivial": rep["distinct_cases"],
        "rule": "exhaustive sequences up to the enumeration length over 2 keys x {a,b,marker} and 12 operation kinds; the exhaustive "
                "write-order sweep (0/1/2 keys already in the tree x 6 orders of 3 new keys in a committed session x an uncommitted "
                "session touching none/one/two of them, set or delete, discarded or replaced = 666 schedules); seeded block-shaped "
                "histories (per block 3..6 keys not yet in the tree plus old ones, 2..5 sessions writing random sub-permutations, "
                "50% committed / 32% discarded / 18% left open, reads interleaved, 2..8 blocks, no gas / huge limit, reopen / fresh "
                "between blocks); the gas sweep (finite block gas limit reached exactly / overshot after 0..3 Sets, then refused block-level "
                "Sets of new and existing keys, Deletes, session writes, Write; block commit; all versions read; reopen; 2 rotation "
                "settings x with / without an earlier block); the version sweep (9 rotation settings incl. zero, recent=1, recent=3 and the node default 10/100/10 "
                "x 0..4 commits, reopen, 0..3 commits x written / empty tree = 360 schedules, EVERY version 0..latest+1 read through "
                "GetVersioned and GetPrevious before the reopen, after it and after the later commits); seeded version histories "
                "(3..17 small blocks under the 9 rotation settings, all versions read back completely before and after every reopen "
                "and at the end, uncommitted writes lost at a restart); seeded uniform random sequences (4 gas modes, 6 rotation settings); distinct = distinct operation sequences",
        "families": rep.get("families"),
        "write_order_distribution": rep.get("write_order_distribution"),
        "write_order_distribution_legend": "measured over all cases with a tree twin: NewLeaves = leaves a commit adds to the tree; "
                "FreshKeysWritten = distinct keys not in the tree written in a block (incl. uncommitted sessions); "
                "DiscardThenCommitBlocks = blocks where a key first touched by an uncommitted session is written by a later committed "
                "session; OrderSensitiveBlocks = ... after that session first wrote another new key (a stale order index would change "
                "the order of the tree calls); OrderSensitiveGe3 = ... and the commit adds >= 3 leaves (the tree shape can differ)",
        "tree_twin_runs": rep["tree_twin_runs"], "tree_twin_commits_compared": rep["tree_twin_commits_compared"],
        "tree_twin_failures": len(rep.get("tree_twin_failures") or []),
        "content_violations": len([x for x in (rep.get("content_violations") or []) if x[2] == 1]),
        "strip_mismatches": len(rep.get("strip_mismatches") or []), "tlog_mismatches": len(rep.get("tlog_mismatches") or []),
        "traces_validated_against_impl": rep["cases"], "steps": rep["steps"],
        "op_histogram": rep["op_histogram"], "obs_histogram": rep["obs_histogram"],
        "guarded_cases": ng, "model_mismatches": len(mm), "spec_disagreements": len(sv),
        "spec_disagreements_by_class": {str(k): sum(1 for x in sv if x[2] == k) for k in (0, 1, 2)},
        "twin_runs": rep["twin_runs"], "twin_commits_compared": rep["twin_commits_compared"],
        "twin_failures": len(rep.get("twin_failures") or []),
        "samples": rep["samples"],
        "explanation": "theorems of props/C09.v re-checked; Store.v evaluated by vm_compute on every recorded trace of the real "
                       "storage.State (model_mismatches must be 0); spec monitor = StoreSpec.v on the same traces; twin (a): a second real store "
                       "runs the sequence without reads and uncommitted sessions (checked by Coq to be StoreCheck.strip of the sequence, the "
                       "function of theorem C09_discarded_sessions_and_reads_invisible) and the root hashes after every commit are compared; "
                       "twin (b): a bare real ChainState is fed the tree calls of the model in the model's order (checked by Coq to be "
                       "tree_calls = the ghost log wlog) and must produce the same root hashes, which ties the ORDER in which a committed "
                       "session's keys reach the block cache and the tree to the code",
    })
    judge(ctx, rep, cases, mm, sv)
    if broken is not None and ctx.violations == 0:
        raise broken


def replay(ctx, rp):
    vh = common.build_harness()
    ok, log = common.coq_make(["theories/StoreCheck.vo"])
    if not ok:
        raise Broken("model does not build", log[-2000:])
    tmp = os.path.join(ctx.scratch, "one.json")
    json.dump([{"Rot": rp["rot"], "Ops": rp["ops"]}], open(tmp, "w"))
    rep, cases, mm, sv, ng = evaluate(ctx, vh, ["-n", "0", "-enum", "0", "-sweep=false", "-nversions", "0", "-nblocks", "0", "-corpus", tmp])
    print("model_mismatches", mm, "spec_disagreements (case, step, class)", sv, "twin_failures", len(rep.get("twin_failures") or []),
          "tree_twin_failures", len(rep.get("tree_twin_failures") or []))
    for tf in rep.get("twin_failures") or []:
        print("root hashes of the sequence      ", tf["hashes_full"])
        print("root hashes of the stripped twin ", tf["hashes_stripped"])
    judge(ctx, rep, cases, mm, sv)
