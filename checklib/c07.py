"""C07 — mempool checks are isolated from consensus execution."""
import common, twinlib
from common import Broken

ASSUMPTIONS = [
    "Tendermint serialises ABCI calls across its connections (local client mutex), so CheckTx interleaves at call boundaries only",
    "audited bare uses of shared stores listed in props/C07.v (in-memory setters; reads whose result is re-validated on the deliver state)",
    "in-memory caches written by CheckTx (option copies updated by a PROPOSAL_FINALIZE check, EVM object cache) are outside Aiming.v; covered empirically by the twin run",
]


def run(ctx):
    broken = None
    try:
        common.prove(ctx, "props/C07.v")
    except Broken as b:
        broken = b
    vh = common.build_harness()
    n, blocks = (40, 60) if ctx.tier == "thorough" else (10, 40)
    rep = twinlib.run_twin(ctx, vh, "c07", n, blocks)
    ctx.coverage.update(twinlib.coverage(rep))
    ctx.coverage["rule"] = ("seeded histories (30+ kinds) run twice: plain, and with CheckTx of transactions drawn from the whole history "
                            "(valid, invalid, state-changing) injected before/after BeginBlock, after every DeliverTx, after EndBlock and after Commit "
                            "(dense and sparse schedules); hashes, validator updates and all delivered results compared")
    ctx.coverage["explanation"] = "theorem C07_checks_invisible over Aiming.v + Facts_Aiming obligation (regenerated) + twin runs on the real app"
    twinlib.judge(ctx, rep)
    if broken is not None and ctx.violations == 0:
        raise broken


def replay(ctx, rp):
    twinlib.replay(ctx, rp)
