"""C08 — crash-restart equivalence."""
import common, twinlib
from common import Broken

ASSUMPTIONS = [
    "crash points are ABCI call boundaries (after BeginBlock, after the k-th DeliverTx, after EndBlock, after Commit); crashes inside a LevelDB batch / IAVL SaveVersion or inside Tendermint's own WAL and handshake are outside",
    "in-memory caches are classified by theories/Caches.v (audited classes OptionCopy/PerBlock/PerTx/CycleCache); their restart coherence is argued per class in props/C08.v and exercised by the restart twin runs, not proved",
    "the restarted process finds a byte copy of the data directory taken at the crash point; Tendermint replays the uncommitted block from its start (and InitChain when the app reports height 0)",
]


def run(ctx):
    broken = None
    try:
        common.prove(ctx, "props/C08.v")
    except Broken as b:
        broken = b
    vh = common.build_harness()
    n, blocks = (40, 60) if ctx.tier == "thorough" else (8, 36)
    rep = twinlib.run_twin(ctx, vh, "c08", n, blocks)
    ctx.coverage.update(twinlib.coverage(rep))
    ctx.coverage["rule"] = ("directed scenario histories (config-update proposal passing and finalised, two allegation verdicts in one block, proposal expiry, "
                            "stake/unstake/withdraw cycle) plus seeded random histories over 30+ kinds and three genesis variants; each is re-run three times with "
                            "2-5 crashes at random call boundaries (mid-block, before Commit, right after Commit, repeated); after each restart Info is compared with "
                            "the last commit and the full transcript with the uninterrupted twin; non-trivial = history with transactions")
    ctx.coverage["explanation"] = ("theorems of props/C08.v (Restart.v over Store.v/Abci.v: Info after a crash, exact replay of the interrupted block for arbitrary "
                                   "hook/handler programs, whole chains with repeated crashes) + Facts_Caches obligation (regenerated) + restart twin runs on the real app")
    twinlib.judge(ctx, rep)
    if broken is not None and ctx.violations == 0:
        raise broken


def replay(ctx, rp):
    twinlib.replay(ctx, rp)
