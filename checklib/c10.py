"""C10 — validator-set updates are well formed and follow the staking rule."""
import json, os, subprocess
from concurrent.futures import ThreadPoolExecutor
import common
from common import Broken, sh

ASSUMPTIONS = [
    "a consensus public key is identified with the Tendermint address derived from it (SHA-256 truncated to 20 bytes is injective on the keys in use)",
    "the candidate table of block H is the set of v_ records at tree version H-1 (what InitValidatorQueue / GetEndBlockUpdate read); "
    "the theorems quantify over arbitrary tables per block, which includes every reachable history of stake/unstake/withdraw/penalty transactions",
    "pop order of container/heap among equal powers is not modelled: theorems hold for every election satisfying valid_election; "
    "the correspondence is exact when eligible powers are distinct and modulo the implementation's (checked) choice otherwise",
    "C10_accepted_reachable assumes: the genesis records are keyed by the address of their consensus key (the genesis loader calls "
    "HandleStake without the handler's check; afterwards it is an invariant, proved in C10_records_keyed and monitored on every block); "
    "the list of record operations in Election.v (stake, unstake/penalty, rewrite, delete) covers every writer of v_ records "
    "(ValidatorStore.set is called by HandleStake and HandleUnstake only); at least one eligible candidate and top count >= 1; "
    "1 <= minimum self delegation < 2^63; per-key power caps summing to <= MaxInt64/8 (each searched for on the implementation)",
    "hypothesis of C10_converges (searched for): every member of the Tendermint validator set still has a validator record",
    "Tendermint.v's total-power test uses the final total instead of verifyUpdates' running total over delta-sorted updates "
    "(equivalent when the current set is within the bound); validated against the real ValidatorSet on every run",
    "byzantine evidence: makingslash looks validators up without the store prefix, so vs.byzantine stays empty; b_byz is fed as false and "
    "the correspondence (histories with evidence) confirms it has no effect on the updates",
]

ACC_TRIGGERS = {2: "C10.no_eligible_candidate"}   # 1 (duplicate key) fixed by /repo 9246c8d: a violation now
RULE_TRIGGERS = {}   # frozen-in-window fixed by /repo 304e1e1
CONV_TRIGGERS = {1: "C10.member_without_record"}
CRASH_TRIGGERS = {}   # both crash classes fixed by /repo e681066: every node exit in EndBlock is a violation
NCODES = 8


def run_harness(ctx, vh, shards, n, ntm, extra=None):
    out_dir = os.path.join(ctx.scratch, "c10")
    os.makedirs(out_dir, exist_ok=True)
    procs = []
    for i in range(shards):
        cmd = [vh, "c10", "-out", out_dir, "-seed", str(ctx.seed * 100 + i), "-n", str(n), "-tm", str(ntm), "-tag", str(i)] + (extra or [])
        procs.append(subprocess.Popen(cmd, stdout=subprocess.PIPE, stderr=subprocess.STDOUT))
    for p in procs:
        o, _ = p.communicate(timeout=1500)
        if p.returncode != 0:
            raise Broken("C10 harness run failed", o.decode("utf-8", "replace")[-3000:])
    cases, tcases, files, tfiles, crashed, cfiles = [], [], [], [], [], []
    for i in range(shards):
        d = json.load(open(os.path.join(out_dir, "c10_%d.json" % i)))
        base = len(cases)
        cases += d["cases"]
        tcases += d["tcases"]
        files += [(f, base + j * d["per_file"]) for j, f in enumerate(d["files"])]
        tfiles += d["tfiles"]
        crashed += d["crashed"]
        cfiles += d["cfiles"]
    return out_dir, cases, tcases, files, tfiles, crashed, cfiles


def evaluate(out_dir, cases, files, tfiles, cfiles=()):
    def one(f):
        ok, cout = common.coqc_file(f, cwd=out_dir)
        return f, ok, cout
    codes = [None] * len(cases)
    tres, cres = [], []
    cfiles = list(cfiles)
    with ThreadPoolExecutor(max_workers=12) as ex:
        results = list(ex.map(one, [f for f, _ in files] + tfiles + cfiles))
    bases = dict(files)
    for f, ok, cout in results:
        if not ok:
            raise Broken("the model could not be evaluated on the recorded cases (cases file does not check)", f + "\n" + cout[-3000:])
        if f in bases:
            a = common.parse_print(cout, "RES")
            for j in range(len(a) // NCODES):
                codes[bases[f] + j] = a[j * NCODES:(j + 1) * NCODES]
        elif f in cfiles:
            cres += common.parse_print(cout, "CRES")
        else:
            tres += common.parse_print(cout, "TRES")
    return codes, tres, cres


def payload(c, codes, what):
    return {"kind": what, "history_kind": c["kind"], "hseed": c["hseed"], "height": c["height"], "case": c,
            "codes[mm,tm,acc,rule,conv,keyed,negp,staked]": codes, "how": "./check replay <this file>"}


def judge(ctx, cases, codes, tcases, tres, crashed=(), cres=()):
    found = False
    seen = set()
    for c, k in zip(crashed, cres):
        if k in CRASH_TRIGGERS and ctx.known_finding(CRASH_TRIGGERS[k], "node exits in EndBlock"):
            continue
        if ctx.violations < 5:
            found = True
            ctx.violation("crash_%d_h%d" % (c["hseed"], c["height"]), payload(c, [k], "node-exits-in-endblock-no-updates-returned"))
    for c, k in zip(cases, codes):
        mm, tm, acc, rule, conv, keyed, negp, staked = k
        for (code, table, what) in ((acc, ACC_TRIGGERS, "tendermint-rejects-validator-updates"),
                                    (rule, RULE_TRIGGERS, "update-violates-staking-rule"),
                                    (conv, CONV_TRIGGERS, "active-set-does-not-converge-to-election"),
                                    (keyed, {}, "record-address-is-not-the-address-of-its-key"),
                                    (negp, {}, "validator-record-with-negative-power"),
                                    (staked, {}, "staked-validator-above-the-minimum-has-no-record")):
            if code == 0:
                continue
            if code in table and ctx.known_finding(table[code], what):
                continue
            key = (what, c["hseed"])
            if key in seen or ctx.violations >= 5:
                continue
            seen.add(key)
            found = True
            ctx.violation("%s_%d_h%d" % (what.split("-")[0], c["hseed"], c["height"]), payload(c, k, what))
    for c in cases:
        if c.get("twin_diff") and ctx.violations < 5 and ("twin", c["hseed"]) not in seen:
            seen.add(("twin", c["hseed"]))
            found = True
            ctx.violation("restart_%d_h%d" % (c["hseed"], c["height"]),
                          payload(c, [], "replica-restarted-after-a-release-returns-other-validator-updates-than-the-long-running-node"))
    if not found:
        for c, k in zip(cases, codes):
            if k[0] == 3:
                raise Broken("correspondence Election.v vs GetEndBlockUpdate broke (model and implementation return different updates or purge heights)",
                             json.dumps(payload(c, k, "model-mismatch")))
            if k[1] == 1:
                raise Broken("correspondence Tendermint.v vs the real ValidatorSet.UpdateWithChangeSet broke", json.dumps(payload(c, k, "tm-model-mismatch")))
        for t, k in zip(tcases, tres):
            if k != 0:
                raise Broken("correspondence Tendermint.v vs the real ValidatorSet.UpdateWithChangeSet broke (package-level case)", json.dumps(t))
    return found


def hist(xs):
    h = {}
    for x in xs:
        h[str(x)] = h.get(str(x), 0) + 1
    return dict(sorted(h.items()))


def released_reelected(cases):
    """released validators that later get a positive-power update in the same history"""
    n, rel = 0, {}
    for c in cases:
        key = c["hseed"]
        for k in list(rel.get(key, [])):
            if any(u["k"] == k and u["v"] > 0 for u in c["ups"]):
                n += 1
                rel[key].remove(k)
        for k in c.get("released") or []:
            rel.setdefault(key, []).append(k)
    return n


def run(ctx):
    broken = None
    try:
        common.prove(ctx, "props/C10.v")
    except Broken as b:
        broken = b
    vh = common.build_harness()
    if ctx.tier == "thorough":
        shards, n, ntm = 12, 300, 3000
    else:
        shards, n, ntm = 8, 36, 600
    out_dir, cases, tcases, files, tfiles, crashed, cfiles = run_harness(ctx, vh, shards, n, ntm)
    codes, tres, cres = evaluate(out_dir, cases, files, tfiles, cfiles)
    nontriv = [c for c in cases if c["height"] > 1]
    distinct = len(set(json.dumps([c["cands"], c["omin"], c["otop"], c["mal"], c["la"], c["pg"]]) for c in nontriv))
    own_diff = [c["own_stake_diff"] for c in cases if c.get("own_stake_diff")]
    ctx.coverage.update({
        "evaluations": len(cases) + len(tcases), "distinct_nontrivial": distinct,
        "rule": "block cases = blocks of generated whole-application histories (1-12 candidates, top count 1-5, equal / near-equal / distinct "
                "stakes; stake, unstake (partial, all, down to the minimum +-1), withdraw, allegation + votes, release, absent signers, "
                "byzantine evidence, two-day time jumps, Frankenstein change of the staking options) plus directed histories (duplicate key, "
                "all unstake, stake-then-unstake, early freeze, freeze by missed votes or guilty verdict -> wait past the release time -> RELEASE -> "
                "8+ quiet blocks, with a twin replica restarted after the release; a validator leaving the election by unstake / verdict / "
                "out-staking while every block ends with a transaction refused by Validate; a validator whose node is down (absent in "
                "LastCommitInfo) leaving the election by each of three routes - frozen for missed votes, unstaked below the minimum, out-staked - "
                "followed by 10+ quiet blocks); a third of all blocks of all histories end "
                "with a Validate-refused transaction (bad signature, fee below minimum, stake of more than owned); distinct = distinct (table, options, malicious, last-active, purge) inputs; "
                "validator-set cases = random sets and change lists against the real tendermint ValidatorSet",
        "traces_validated_against_impl": len(cases), "histories": shards * n,
        "validator_set_cases": len(tcases), "validator_set_accepted": sum(1 for t in tcases if t["ok"]),
        "history_kinds": hist(c["kind"] for c in cases),
        "candidates_per_block": hist(len(c["cands"]) for c in cases),
        "top_count": hist(c["otop"] for c in cases), "min_self_delegation": hist(c["omin"] for c in cases),
        "updates_per_block": hist(len(c["ups"]) for c in cases),
        "blocks_with_purge": sum(1 for c in cases if any(u["v"] == 0 for u in c["ups"])),
        "blocks_with_malicious": sum(1 for c in cases if c["mal"]),
        "blocks_with_purge_guard_history": sum(1 for c in cases if c["pg"]),
        "tx_results": hist((t.split(" ")[0] + (" ok" if " -> 0" in t else " fail")) for c in cases for t in (c.get("txs") or []) if "->" in t),
        "model_vs_impl[0 exact,1 modulo ties,2 skipped,3 mismatch]": hist(k[0] for k in codes),
        "tendermint_model_mismatches": sum(1 for k in codes if k[1]) + sum(1 for k in tres if k),
        "accept_monitor[0 ok,1 dup key,2 no eligible,3 other]": hist(k[2] for k in codes),
        "rule_monitor[0 ok,2 violated]": hist(k[3] for k in codes),
        "convergence_monitor[0 ok/na,1 member without record,2 other]": hist(k[4] for k in codes),
        "keyed_records_monitor[0 ok,1 mismatch]": hist(k[5] for k in codes),
        "rogue_stake_attempts_refused": sum(1 for c in cases for t in (c.get("txs") or []) if t.startswith("stake rogue") and " -> 0" not in t),
        "rogue_stake_attempts_executed": sum(1 for c in cases for t in (c.get("txs") or []) if t.startswith("stake rogue") and " -> 0" in t),
        "blocks_with_frozen_validator_in_votes_window": sum(1 for c in cases if c["frozen"] and c["height"] <= c["bvd"]),
        "negative_power_monitor[0 ok,1 negative]": hist(k[6] for k in codes),
        "unstake_more_than_record_refused": sum(1 for c in cases for t in (c.get("txs") or []) if "exceeds the stake" in t),
        "blocks_ending_with_validate_refused_tx": hist(c["last_refused"] for c in cases if c.get("last_refused")),
        "blocks_ending_with_validate_refused_tx_and_purge": sum(1 for c in cases if c.get("last_refused") and any(u["v"] == 0 for u in c["ups"])),
        "blocks_ending_with_validate_refused_tx_and_election_change": sum(1 for c in cases if c.get("last_refused") and c["quiet"] == 1 and c["height"] > 2),
        "blocks_with_absent_signers": sum(1 for c in cases if c.get("absent")),
        "blocks_with_absent_signer_outside_the_election": sum(1 for c in cases if any(a not in [u["k"] for u in c["ups"] if u["v"] > 0] for a in (c.get("absent") or []))),
        "convergence_checked_blocks_with_absent_signer": sum(1 for c in cases if c["quiet"] >= 5 and c["tm_ok"] and c.get("absent")),
        "staked_has_record_monitor[0 ok,1 missing record]": hist(k[7] for k in codes),
        "restakes_right_after_full_unstake": sum(1 for c in cases for t in (c.get("txs") or []) if "again" in t and " -> 0" in t),
        "releases_executed": sum(len(c.get("released") or []) for c in cases),
        "released_validators_re_elected": released_reelected(cases),
        "freezes_by_missed_votes_or_verdict_blocks": sum(1 for c in cases if c["mal"]),
        "restart_twin_blocks_compared": sum(1 for c in cases if c["kind"] == "release"),
        "restart_twin_differences": sum(1 for c in cases if c.get("twin_diff")),
        "convergence_checked_blocks": sum(1 for c in cases if c["quiet"] >= 5 and c["tm_ok"]),
        "record_stake_differs_from_delegation_store": len(own_diff),
        "blocks_where_node_exited[1 negative power record,3 zero total power,2 other]": hist(cres),
        "samples": [{"case": c, "codes": k} for c, k in list(zip(cases, codes))[5:400:97]],
        "explanation": "theorems of props/C10.v re-checked; Election.v / Tendermint.v evaluated by vm_compute on the inputs and outputs of every "
                       "block the real application executed (real ValidatorSet as acceptance oracle); monitors = Coq-defined acceptance, "
                       "rule and convergence predicates evaluated on what the implementation returned",
    })
    judge(ctx, cases, codes, tcases, tres, crashed, cres)
    if broken is not None and ctx.violations == 0:
        raise broken


def replay(ctx, rp):
    vh = common.build_harness()
    ok, log = common.coq_make(["theories/ElectionCheck.vo"])
    if not ok:
        raise Broken("model does not build", log[-2000:])
    out_dir, cases, tcases, files, tfiles, crashed, cfiles = run_harness(ctx, vh, 1, 1, 0, ["-kind", rp["history_kind"], "-hseed", str(rp["hseed"])])
    codes, tres, cres = evaluate(out_dir, cases, files, tfiles, cfiles)
    for c, k in zip(crashed, cres):
        print("height", c["height"], "NODE EXITED in EndBlock; crash code", k, c.get("txs") or "")
    for c, k in zip(cases, codes):
        print("height", c["height"], "codes[mm,tm,acc,rule,conv,keyed,negp,staked]", k, "updates", [(u["k"], u["v"]) for u in c["ups"]],
              "tm_err", c.get("tm_err", ""), c.get("txs") or "")
    judge(ctx, cases, codes, tcases, tres, crashed, cres)
