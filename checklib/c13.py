"""C13 — block rewards stay within the pulled amount and the yearly schedule."""
import json, os
from concurrent.futures import ThreadPoolExecutor
import common
from common import Broken, sh

ASSUMPTIONS = [
    "votes of one BeginBlock carry pairwise distinct validator addresses (Tendermint's LastCommitInfo; C13_split_distinct_needed "
    "shows the hypothesis is necessary) and non-negative powers",
    "active delegation amounts are non-negative and sum to at most the delegation pool balance (property C12); the harness also runs "
    "pools that exceed the table (genesis balance without delegators)",
    "the pulled amount is non-negative: proved (C13_pull_nonneg) for sane options (cycle > 0, window >= 0, burnout >= 0), a "
    "non-negative pool and a forecast product secsToClose*cycle inside int64",
    "the property bounds each single pull by what the year had left when the cycle began; after a slow cycle the forecast can be "
    "shorter than the cycle, so a year's TOTAL can still exceed its supply (C13_year_total_can_exceed_supply) — not covered by the property as stated",
    "int64(d.Seconds()) is modelled as truncation of d/1e9: exact for |d| < 2^32 s with a sub-second part <= 999_999_000 ns "
    "(dur_guard); int64(float64(a)/float64(b)) is modelled as truncated division for |a|,|b| < 2^52 (b >= 1 since 0cc9fdb); "
    "generated header times stay inside these guards",
    "block header times of the block store are inputs (function bt); year close times are read from the rwcum_ydist record "
    "(Go's AddDate is not modelled)",
    "RewardInterval/BlockSpeedCalculateCycle > 0 and unchanged during a run (governance updates of reward options are outside the model)",
    "storage errors (Set/Get failing) are outside the model",
    "export/import: theorems are about the interval record of a chain that started from an ordinary genesis (first relaunch); the relaunched chain "
    "keeps the reward interval; the harness imports the rewards state only (other stores start from the same genesis as the exporting chain)",
    "WITHDRAW_REWARD on the application path: the model withdraw_tx covers the amount checks of Validate (45cfd0d, ed95e98), the int64 narrowing of "
    "ToCoinWithBase and the balance/pool sufficiency; signer = the validator's stake address and a funded fee payer in all generated transactions",
]

MISMATCH = {1: "cold pull", 7: "warm pull", 2: "validator credits", 3: "delegator credits", 4: "consumed total",
            8: "WITHDRAW_REWARD verdict/records", 13: "exported interval record (DumpState) differs from the model's dump", 5: "year records", 6: "matured/cumulative records", 9: "model predicts a panic"}
VIOL = {10: "rewards credited in a block (validators' chunks + all delegator reward balances, proposer bonus included) exceed the amount pulled for that block", 11: "negative credit", 12: "negative pulled amount",
        20: "per-block amount depends on a restart (warm cache <> cold cache)",
        21: "pulled amount above the remaining year supply / the pool-capped burnout rate",
        30: "cumulative invariant broken (balance < 0 or balance + withdrawn <> matured)",
        31: "a withdrawal paid more than the matured balance",
        33: "a validator's matured rewards (balance + withdrawn) exceed what was ever credited to it (sum of its chunks), e.g. a chunk matured twice across an export/import",
        34: "all matured rewards together exceed the total distributed",
        37: "at the start of a cycle the running year's TillLastCycle differs from its Distributed: the snapshot at the previous cycle end was skipped",
        38: "at the first block of a cycle pulled * forecast exceeds the year's supply minus what was distributed when the cycle began",
        35: "a block reported less to ConsumeRewards (TotalDistributed / year Distributed) than it really credited to validators and delegators: the year books under-count the payments",
        36: "what was really credited during a reward year exceeds the year's supply",
        32: "a WITHDRAW_REWARD amount that is negative or outside int64 was accepted (CheckTx or DeliverTx) or changed the cumulative records"}
KNOWN = {}   # monitor code -> trigger id of a finding with status "known" (none at present: all three are fixed)


REGION = {}  # region number of RewardsCheck.region -> trigger id (none at present)


def listed(trigger):
    """known or fixed finding: inside its trigger region the comparison with the model is one-sided"""
    return any(f["property"] == "C13" and f["trigger"] == trigger and f["status"] == "known"
               for f in common.load_findings())


def triples(a):
    return [(a[i], a[i + 1], a[i + 2]) for i in range(0, len(a) - 2, 3)]


def run_part(ctx, vh, tag, args):
    out_dir = os.path.join(ctx.scratch, "c13")
    os.makedirs(out_dir, exist_ok=True)
    rc, out = sh([vh, "c13", "-out", out_dir, "-tag", str(tag)] + args, timeout=1800, env=dict(os.environ, VH_DEBUG="1"))
    if rc != 0:
        out = "\n".join(l for l in out.splitlines() if not l.startswith(("I[", "D[", "E[")))
        raise Broken("C13 harness run failed (the real code panicked or the harness could not decode a record)",
                     "args: %s\n%s" % (" ".join(args), out[-3000:]))
    rep = json.load(open(os.path.join(out_dir, "c13_report_%s.json" % tag)))
    cases = json.load(open(os.path.join(out_dir, "c13_cases_%s.json" % tag)))
    ok, cout = common.coqc_file(rep["files"][0], cwd=out_dir)
    if not ok:
        raise Broken("the model could not be evaluated on the recorded runs (cases file does not check)", cout[-3000:])
    res = {k: triples(common.parse_print(cout, k)) for k in ("MMC", "MMP", "MMQ")}
    return {"tag": tag, "args": args, "rep": rep, "cases": cases, "res": res}


def payload(part, kind, ci, step, code):
    cases = part["cases"]
    p = {"kind": kind, "code": code, "harness_args": part["args"], "case_index_in_part": ci, "step": step,
         "how": "./check replay <this file>"}
    if kind == "chain":
        c = cases["chains"][ci]
        p.update({"chain_index": c["Index"], "descr": c["Descr"], "opts": c["Opts"], "nblocks": len(c["Blocks"]),
                  "block": c["Blocks"][step] if step < len(c["Blocks"]) else None})
    elif kind == "pcases":
        c = cases["pcases"][ci]
        p.update({"pcases": [{"Index": c["Index"], "Opts": c["Opts"], "Times": c["Times"], "Descr": c.get("Descr", ""),
                              "Steps": [{"H": s["H"], "Restart": s["Restart"], "Pool": s["Pool"], "Frac": s["Frac"]} for s in c["Steps"]]}],
                  "observed_step": c["Steps"][step] if step < len(c["Steps"]) else None})
    else:
        c = cases["qcases"][ci]
        p.update({"qcase_index": c["Index"], "nops": len(c["Ops"]), "ops": c["Ops"][: step + 1]})
    return p


def judge(ctx, parts):
    """Monitors first (a failing input on the implementation is a violation or a known finding);
    a model/implementation mismatch without any failing input is a broken correspondence."""
    found = False
    mism = []
    counts = {}
    for part in parts:
        for kind, key in (("chain", "MMC"), ("pcases", "MMP"), ("qcase", "MMQ")):
            for (ci, step, code) in part["res"][key]:
                counts["%s.%d" % (kind, code)] = counts.get("%s.%d" % (kind, code), 0) + 1
                if code >= 1000 and listed(REGION.get(code // 1000, "")):
                    # the implementation differs from the (defective) model inside a known-trigger region:
                    # allowed (a repaired defect); the monitors still ran on this step
                    counts["one_sided.%s" % REGION[code // 1000]] = counts.get("one_sided.%s" % REGION[code // 1000], 0) + 1
                    continue
                if code in KNOWN:
                    if ctx.known_finding(KNOWN[code], ""):
                        continue
                    found = True
                    if ctx.violations < 4:
                        ctx.violation("%s_%s_%d_%d_%d" % (kind, part["tag"], ci, step, code),
                                      dict(payload(part, kind, ci, step, code), what="unlisted finding " + KNOWN[code]))
                elif code in VIOL:
                    found = True
                    if ctx.violations < 4:
                        ctx.violation("%s_%s_%d_%d_%d" % (kind, part["tag"], ci, step, code),
                                      dict(payload(part, kind, ci, step, code), what=VIOL[code]))
                else:
                    mism.append((part, kind, ci, step, code))
    panics = [x for part in parts for x in (part["rep"].get("panics") or [])]
    aborts = [x for part in parts for x in (part["rep"].get("harness_aborts") or [])]
    nchains = sum(part["rep"]["chains"] for part in parts)
    ctx.coverage["whole_app_panics"] = len(panics)
    ctx.coverage["harness_aborted_chains"] = aborts[:5]
    if len(aborts) * 20 > max(1, nchains + len(aborts)) and not found:
        raise Broken("more than 5% of the whole-app chains could not be run by the harness", "\n".join(aborts[:5]))
    ctx.coverage["outcome_codes"] = counts
    ctx.coverage["model_mismatches"] = len(mism)
    if mism and not found:
        part, kind, ci, step, code = mism[0]
        raise Broken("correspondence Rewards.v vs the real reward code broke: %s differ (%s case %d step %d)"
                     % (MISMATCH.get(code, str(code)), kind, ci, step), json.dumps(payload(part, kind, ci, step, code), default=str)[:6000])
    if panics and not found:
        raise Broken("the real application panicked during a whole-app reward run", "\n".join(panics[:5]))
    return found


def finding_inputs(ctx):
    """corpus + the replays of the recorded (now fixed) findings: run on the implementation first thing in
    every run, expecting the property to hold (any monitor code on them is an ordinary VIOLATION)"""
    ins = []
    cp = os.path.join(common.VERIF, "corpus", "C13.json")
    if os.path.exists(cp):
        ins += json.load(open(cp)).get("pcases", [])
    for f in common.load_findings():
        if f["property"] == "C13" and f.get("replay"):
            rp = json.load(open(os.path.join(common.VERIF, f["replay"])))
            ins += rp.get("pcases", [])
    p = os.path.join(ctx.scratch, "c13_findings.json")
    json.dump(ins, open(p, "w"))
    return p, len(ins)


def corpus_wvalues():
    cp = os.path.join(common.VERIF, "corpus", "C13.json")
    if os.path.exists(cp):
        return json.load(open(cp)).get("withdraw_values", [])
    return []


def run(ctx):
    broken = None
    try:
        common.prove(ctx, "props/C13.v")
    except Broken as b:
        broken = b
    vh = common.build_harness()
    if ctx.tier == "thorough":
        nparts, per = 16, dict(chains=40, blocks=40, pcases=250, pblocks=45, qcases=40, qops=80)
    else:
        nparts, per = 12, dict(chains=5, blocks=30, pcases=40, pblocks=40, qcases=8, qops=60)
    fpath, nf = finding_inputs(ctx)
    jobs = []
    for i in range(nparts):
        stride = max(per["chains"], per["pcases"], per["qcases"])
        args = ["-seed", str(ctx.seed), "-first", str(i * stride), "-chains", str(per["chains"]), "-blocks", str(per["blocks"]),
                "-pcases", str(per["pcases"]), "-pblocks", str(per["pblocks"]), "-qcases", str(per["qcases"]), "-qops", str(per["qops"])]
        if i == 0 and nf:
            args += ["-replay-pcases", fpath]
        if i == 0:
            args += ["-directed"]
        if corpus_wvalues():
            args += ["-corpus-wvalues", ",".join(corpus_wvalues())]
        jobs.append((i, args))
    with ThreadPoolExecutor(max_workers=min(14, nparts)) as ex:
        parts = list(ex.map(lambda j: run_part(ctx, vh, j[0], j[1]), jobs))
    hist = {}
    tot = {"chains": 0, "blocks": 0, "pcases": 0, "psteps": 0, "qcases": 0, "qops": 0, "distinct_blocks": 0}
    for p in parts:
        for k in tot:
            tot[k] += p["rep"][k]
        for k, v in p["rep"]["histogram"].items():
            hist[k] = hist.get(k, 0) + v
    cov = ctx.coverage
    cov.update({
        "evaluations": tot["blocks"] + tot["psteps"] + tot["qops"],
        "distinct_nontrivial": tot["distinct_blocks"] + tot["psteps"] + tot["qops"],
        "rule": "seeded generators: whole-app chains (1-8 genesis validators, 3 power patterns, absent-signer patterns none/one/half/all, "
                "delegation pool none/tiny/huge/medium/balance-only, stake/delegate/undelegate/withdraw-reward transactions, in half of the chains "
                "network-delegation traffic (delegate 40-250000 OLT, undelegate 50-90% as the last delegation-store transaction of a block, undelegations "
                "that are only CheckTx'ed), in a third of the chains an export/import relaunch (RewardMasterStore.DumpState on the running chain at a version "
                "that is a multiple of the reward interval, one off, or arbitrary; JSON round trip; new app from a genesis holding the dump; one validator stops "
                "signing after the import), four directed witnesses (delegate 1000 / undelegate 900 delivered or only checked; export at a maturity block; a whole 365-block reward year with a pool as large as the validators' power), restarts, 5 block-time "
                "patterns incl. month jumps and sub-second blocks, 1-3 reward years, cycle 1-10, interval 1-5); calculator runs over a real block "
                "store (cycle up to 25, warm and cold twin stores, restarts); cumulative store operation sequences; distinct = distinct recorded "
                "block records + calculator steps + store operations",
        "traces_validated_against_impl": tot["blocks"] + tot["psteps"] + tot["qops"],
        "whole_app_chains": tot["chains"], "whole_app_blocks": tot["blocks"],
        "calculator_runs": tot["pcases"], "calculator_steps": tot["psteps"],
        "cumulative_sequences": tot["qcases"], "cumulative_ops": tot["qops"],
        "finding_witnesses_replayed": nf,
        "withdraw_reward_txs_compared": sum(v for k, v in hist.items() if k.startswith("chain.withdraw_reward.")),
        "corpus_withdraw_values": corpus_wvalues(),
        "histogram": hist, "samples": parts[0]["rep"]["samples"],
        "explanation": "theorems of props/C13.v re-checked; Rewards.v (split, calculator, cumulative records) evaluated by vm_compute on every "
                       "recorded block of real app.App runs and on every step of package-level runs of rewards.RewardCumulativeStore "
                       "(model_mismatches must be 0); monitors evaluated on the implementation's observations only: credits (every vote's chunk delta + the deltas of "
                       "ALL delegator reward balances, not only of the active table) <= what the block reported to ConsumeRewards <= pulled, a reward year's real credits <= its supply "
                       "(while no forecast was shorter than its cycle), no negative "
                       "credit/pull, warm pull = cold pull (two real stores), pull within remaining supply / pool-capped burnout, "
                       "balance >= 0 and balance + withdrawn = matured",
    })
    judge(ctx, parts)
    if broken is not None and ctx.violations == 0:
        raise broken


def replay(ctx, rp):
    vh = common.build_harness()
    ok, log = common.coq_make(["theories/RewardsCheck.vo"])
    if not ok:
        raise Broken("model does not build", log[-2000:])
    if rp.get("pcases"):
        p = os.path.join(ctx.scratch, "rp.json")
        json.dump(rp["pcases"], open(p, "w"))
        args = ["-chains", "0", "-pcases", "0", "-qcases", "0", "-replay-pcases", p]
    else:
        args = [a for a in rp["harness_args"]]
    part = run_part(ctx, vh, "replay", args)
    print("codes (case, step, code): chains", part["res"]["MMC"], "calculator", part["res"]["MMP"], "cumulative", part["res"]["MMQ"])
    judge(ctx, [part])
