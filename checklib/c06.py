"""C06 — failed transactions are atomic no-ops."""
import common, twinlib
from common import Broken

ASSUMPTIONS = [
    "handlers touch consensus state only through the storage.State API (side memories outside it — EVM object cache, "
    "in-memory option copies — are not in the Abci.v model; the twin run on the real application covers them empirically)",
    "block-level corollary is stated in the gas-free semantics / below the block gas limit (the gas counter is the one thing a failed transaction advances)",
]


def run(ctx):
    broken = None
    try:
        common.prove(ctx, "props/C06.v")
    except Broken as b:
        broken = b
    vh = common.build_harness()
    n, blocks = (40, 60) if ctx.tier == "thorough" else (10, 40)
    rep = twinlib.run_twin(ctx, vh, "c06", n, blocks)
    ctx.coverage.update(twinlib.coverage(rep))
    ctx.coverage["rule"] = ("seeded histories over 30+ transaction kinds with ~55% failing transactions (insufficient balance after partial "
                            "updates, wrong state, wrong owner, fee failures); each history is re-run with all / a random half of the failed "
                            "transactions removed and app hashes, validator updates and the remaining results compared; non-trivial = history with transactions")
    ctx.coverage["explanation"] = "theorems of props/C06.v (wrapper over arbitrary handler programs) + Facts_Wrapper obligations + twin runs on the real app"
    twinlib.judge(ctx, rep)
    if broken is not None and ctx.violations == 0:
        raise broken


def replay(ctx, rp):
    twinlib.replay(ctx, rp)
