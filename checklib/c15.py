"""C15 — cross-chain lock/redeem: threshold-gated, exactly-once mint and refund."""
import json, os, subprocess, concurrent.futures as cf
import common
from common import Broken, sh

ASSUMPTIONS = [
    "the Ethereum side is an oracle: for a submitted byte string, its tracker name (last 32 bytes), whether runLock's decoding / "
    "VerifyLock / contract-address checks accept it and with which value, and what ParseRedeem returns are inputs of the model; the "
    "harness fills them by calling the real chains/ethereum functions (go-ethereum's RLP/ABI decoding is not modelled)",
    "ETHCDOption (contract ABI/address, TotalSupply, TotalSupplyAddr) and the witness set do not change during a history "
    "(the witness store is written only at genesis)",
    "a handler that returns false leaves no trace (C06's theorem about the DeliverTx wrapper); gas exhaustion inside a handler is not modelled",
    "wrapped ETH moves only through lock/redeem/report-finality and SEND (other transaction kinds taking an arbitrary currency are outside the model)",
    "job-store writes of the block-end transitions do not fail (local LevelDB of the node); the node-local inputs (witness flag, "
    "validator address, presence of the broadcast job) are explicit parameters, the theorems hold for all of them, and the state is proved not to depend on them",
    "authorisation of the signer of a finality report is C04's subject: the theorems count a vote by WHO the report says the validator is",
    "ERC-20: only runERC20Lock's effect on the tracker stores is modelled (do_lock_erc, outside op/step); the ERC-20 mint/burn side and "
    "ext_ERC20redeem.go are not; that part is tied to the code by two scripted scenarios on the real application (`vh c15 -erc20`), not by generated runs",
    "DeliverTx runs the kind's Validate first (/repo d276709); the model's [valid] has the static field checks (vote index >= 0, SEND amount >= 0 and "
    "20-byte addresses) and abstracts 'the named signer signed' by e_key (accounts with a key in the harness; signature checking itself is C04's subject); "
    "fee validation concerns OLT and is outside the model",
    "the supply address is not the address of any signing key (it is the byte string of TotalSupplyAddr)",
    "redeem byte strings that make ParseRedeem panic (no selector inside) are never submitted by the harness (C18's subject: see findings/C15_c18_crash_inputs.json)",
]

ERC_TRIGGER = "C15.erc20_lock_no_existence_check"
TRIGGERS = {2: "C15.supply_address_transacts"}   # C15.mint_to_report_locker is fixed (/repo b01fdf0): its witness is corpus case 0, expected to hold
CHECKS = {1: "one tracker per external transaction name across the three stores",
          2: "supply counter = wrapped tokens in circulation",
          3: "every change of a wrapped balance is a transfer, a redeem debit, a threshold-crossing mint of the locked amount to the "
             "lock's owner, or a threshold-crossing refund to the redeem's owner",
          4: "recorded tracker fields never change and a vote slot changes only by the recorded witness of an empty slot",
          5: "at most one mint and one refund per tracker name",
          6: "mint / refund happen in the transaction that crosses the threshold",
          7: "a tracker is created only by an accepted lock/redeem of a name in no store, with empty slots (redeem: debited in the same step)",
          9: "a transaction that its kind's Validate refuses (signer without key, negative vote index, SEND to/from a malformed address) has no effect",
          11: "over all trackers ever created the external (decoded) transaction is unique: no second tracker, under another name, for an external transaction that already backed one",
          12: "at most one mint per external transaction",
          13: "the refund of a redeem tracker equals the amount its owner was debited when the tracker was created (both from the owner's observed balance)",
          10: "tracker stores and wrapped balances do not depend on the node's witness flag / job store (twin node with the flag off, same transactions)",
          8: "REGRESSION of the repaired defect C15.mint_to_report_locker: the locked amount was credited to the Locker named in the "
             "threshold-crossing report instead of the account that submitted the lock"}


def run_shard(vh, out_dir, shard, args):
    rc, out = sh([vh, "c15", "-out", out_dir, "-shard", str(shard)] + args, timeout=1500)
    if rc != 0:
        raise Broken("C15 harness run failed (shard %d)" % shard, out[-3000:])
    rep = json.load(open(os.path.join(out_dir, "c15_report_%d.json" % shard)))
    ok, cout = common.coqc_file(rep["files"][0], cwd=out_dir)
    if not ok:
        raise Broken("the model could not be evaluated on the recorded traces (cases file does not check)", cout[-3000:])
    a = common.parse_print(cout, "MM")
    mm = [(shard, a[i], a[i + 1]) for i in range(0, len(a), 2)]
    b = common.parse_print(cout, "SV")
    sv = [(shard, b[i], b[i + 1], b[i + 2], b[i + 3]) for i in range(0, len(b), 4)]
    st = common.parse_print(cout, "ST")
    return rep, mm, sv, st


def evaluate(ctx, vh, shard_args):
    out_dir = os.path.join(ctx.scratch, "c15")
    os.makedirs(out_dir, exist_ok=True)
    reps, mm, sv, st = {}, [], [], [0] * 5
    with cf.ThreadPoolExecutor(max_workers=8) as ex:
        futs = {ex.submit(run_shard, vh, out_dir, i, a): i for i, a in enumerate(shard_args)}
        for f in cf.as_completed(futs):
            rep, m, s, t = f.result()
            reps[futs[f]] = rep
            mm += m
            sv += s
            st = [x + y for x, y in zip(st, t)]
    cases = {i: json.load(open(os.path.join(out_dir, "c15_cases_%d.json" % i))) for i in reps}
    return reps, cases, sorted(mm), sorted(sv), st


SCRIPTS = []   # the scripted corpus cases: they are cases 0.. of shard 0


def payload(cases, shard, ci, step, extra):
    c = cases[shard][ci]
    lo = max(0, step - 12)
    if shard == 0 and ci < len(SCRIPTS):
        extra = dict(extra, script=SCRIPTS[ci], kind_of_case="scripted corpus case %d" % ci)
    return dict(extra, cfg=c["Cfg"], scripted=(c["Cfg"]["Blocks"] == 0), first_bad_step=step,
                steps_before=[c["Descr"][j] + (" -> ok" if c["Obs"][j]["Ok"] else " -> fail") for j in range(lo, min(step + 1, len(c["Descr"])))],
                observed=c["Obs"][step] if step < len(c["Obs"]) else None,
                how="./check replay <this file>  (re-runs the seeded configuration on the current tree)")


def judge(ctx, cases, mm, sv):
    found = False
    seen = set()
    for sh_ in sorted(cases):
        for ci, c in enumerate(cases[sh_]):
            if c.get("TwinDiv", -1) >= 0:
                found = True
                seen.add((sh_, ci))
                if ctx.violations < 3:
                    ctx.violation("c%d_%d_k10" % (sh_, ci), payload(cases, sh_, ci, c["TwinDiv"], {"kind": "twin-node-divergence", "check": 10,
                                  "check_text": CHECKS[10], "divergence": c.get("TwinNote", "")[:3000]}))
    for (sh_, ci, step, chk, cl) in sv:
        if cl in TRIGGERS and ctx.known_finding(TRIGGERS[cl], ""):
            continue
        found = True
        if (sh_, ci) in seen:
            continue
        seen.add((sh_, ci))
        if ctx.violations < 3:
            ctx.violation("c%d_%d_k%d" % (sh_, ci, chk), payload(cases, sh_, ci, step, {"kind": "property-monitor", "check": chk, "check_text": CHECKS.get(chk, "?"), "cls": cl}))
    if mm and not found:
        sh_, ci, step = mm[0]
        raise Broken("correspondence Tracker.v vs the real lock/redeem/report-finality/transition code broke "
                     "(model and implementation differ; the property monitor found no failing input)",
                     json.dumps(payload(cases, sh_, ci, step, {"kind": "model-mismatch"}), default=str)[:6000])
    return found


def erc20_probe(ctx, vh):
    """ERC-20 scenarios on the real application (`vh c15 -erc20`); every one must HOLD (all of them are witnesses of repaired defects:
    A, B /repo 81bf4e3; C seeded lenient decoder; D /repo dec611a; E, F /repo f9d6d79).  Anything else is a violation."""
    out = os.path.join(ctx.scratch, "c15_erc20.json")
    rc, log = sh([vh, "c15", "-erc20", out], timeout=600)
    if rc != 0:
        raise Broken("C15 ERC-20 probe failed to run", log[-2000:])
    scs = json.load(open(out))
    res = {}
    for sc in scs:
        tag = sc["scenario"][0]
        steps, fin = sc["steps"], sc["final_ttc"]
        last = steps[-1]
        same = [s for s in steps if "SAME external tx" in s["do"]]
        n_on, n_pa, n_fa = len(last["ongoing"] or []), len(last["passed"] or []), len(last["failed"] or [])
        if tag in "AB":
            ok = all(not s["ok"] for s in same) and fin == {"acct1": "100", "acct2": "1000", "acct99": "1100"} and (n_on, n_pa) == (0, 1)
        elif tag == "C":
            ok = len(same) >= 5 and all(not s["ok"] for s in same) and n_on == 1 and fin["acct99"] == "1000"
        elif tag == "D":
            ok = len(same) >= 5 and all(not s["ok"] for s in same) and n_on == 1 and fin == {"acct1": "0", "acct2": "900", "acct99": "900"}
        elif tag == "E":
            ok = fin == {"acct1": "0", "acct2": "1000", "acct99": "1000"} and (n_on, n_pa, n_fa) == (0, 0, 1)
        elif tag == "F":
            ok = fin == {"acct1": "0", "acct2": "1000", "acct99": "1000"} and (n_on, n_pa, n_fa) == (0, 0, 1)
        else:
            ok = False
        res[tag] = "holds" if ok else "violated"
    ctx.coverage["erc20_probe"] = {sc["scenario"][0]: {"outcome": res[sc["scenario"][0]], "scenario": sc["scenario"], "final_ttc": sc["final_ttc"]} for sc in scs}
    for sc in scs:
        tag = sc["scenario"][0]
        if res[tag] != "holds":
            ctx.violation("erc20_%s" % tag, {"kind": "erc20probe", "scenario": sc, "outcome": res[tag],
                                             "how": "./check replay <this file> (re-runs `vh c15 -erc20` on the current tree)"})
    return res


def run(ctx):
    broken = None
    try:
        common.prove(ctx, "props/C15.v")
    except Broken as b:
        broken = b
    vh = common.build_harness()
    corpus = os.path.join(common.VERIF, "corpus", "C15.json")
    cfg_corpus = os.path.join(common.VERIF, "corpus", "C15_cfgs.json")
    if ctx.tier == "thorough":
        nshard, n, blocks = 16, 12, 60
    else:
        nshard, n, blocks = 8, 5, 40
    if os.path.exists(corpus):
        SCRIPTS[:] = json.load(open(corpus))
    shard_args = []
    for i in range(nshard):
        a = ["-seed", str(ctx.seed), "-n", str(n), "-blocks", str(blocks)]
        if i == 0 and os.path.exists(corpus):
            a += ["-script", corpus]
        if i == 0 and os.path.exists(cfg_corpus):
            a += ["-cfg", cfg_corpus]
        shard_args.append(a)
    reps, cases, mm, sv, st = evaluate(ctx, vh, shard_args)
    agg = lambda k: {x: sum(r[k].get(x, 0) for r in reps.values()) for r0 in reps.values() for x in r0[k]}
    ncases = sum(r["cases"] for r in reps.values())
    cov = ctx.coverage
    cov.update({
        "evaluations": ncases, "distinct_nontrivial": sum(r["distinct_cases"] for r in reps.values()),
        "rule": "each case = one run of the real application (app.App through ABCI: DeliverTx of signed ETH_LOCK / ETH_REDEEM / "
                "ETH_REPORT_FINALITY_MINT / SEND transactions, EndBlock = doEthTransitions, Commit) over 0..7 genesis witnesses, three supply caps, "
                "node witness flag off / on / switched on mid-run; seeded mixtures of yes/no reports from witnesses and non-witnesses, wrong and "
                "out-of-range slots, repeated votes, lying Locker fields, duplicate and colliding-name submissions, locks above the cap, "
                "redeems without funds; plus the scripted known-finding witnesses; distinct = distinct operation sequences",
        "traces_validated_against_impl": ncases, "steps": sum(r["steps"] for r in reps.values()),
        "op_histogram": agg("op_histogram"), "outcome_histogram": agg("outcome_histogram"),
        "witness_count_histogram": agg("witness_count_histogram"), "trackers_final_store": agg("trackers_final_store"),
        "mints_observed": sum(r["mints_observed"] for r in reps.values()), "refunds_observed": sum(r["refunds_observed"] for r in reps.values()),
        "genuine_votes": st[0], "crossings_yes": st[1], "crossings_no": st[2], "crossings_with_lying_locker": st[3], "steps_in_supply_trigger": st[4],
        "model_mismatches": len(mm), "monitor_findings": len(sv),
        "monitor_findings_by_class": {str(k): sum(1 for x in sv if x[4] == k) for k in (0, 2)},
        "corpus_cases": len(SCRIPTS) + (len(json.load(open(cfg_corpus))) if os.path.exists(cfg_corpus) else 0),
        "twin_node_runs": sum(r.get("twin_runs", 0) for r in reps.values()), "twin_node_divergences": sum(r.get("twin_divergences", 0) for r in reps.values()),
        "fixed_finding_witness_holds": (not any(x[0] == 0 and x[1] == 0 for x in sv)) and (not any(x[0] == 0 and x[1] == 0 for x in mm)),
        "samples": [s for r in reps.values() for s in r["samples"]][:3],
        "explanation": "theorems of props/C15.v re-checked; Tracker.v evaluated by vm_compute on every step of every recorded run of the real "
                       "application, comparing result code, the three tracker stores (type, state, witnesses, vote slots, owner, external tx) and all wrapped "
                       "balances (model_mismatches must be 0); the property monitor (TrackerCheck.v, 7 checks) is evaluated on the IMPLEMENTATION's observed "
                       "states; findings inside a Coq-defined trigger region with the recorded effect signature are known findings, anything else a violation; "
                       "corpus case 0 is the lying-witness history of the repaired defect C15.mint_to_report_locker and must satisfy every check",
    })
    erc20_probe(ctx, vh)
    judge(ctx, cases, mm, sv)
    if broken is not None and ctx.violations == 0:
        raise broken


def replay(ctx, rp):
    vh = common.build_harness()
    ok, log = common.coq_make(["theories/TrackerCheck.vo"])
    if not ok:
        raise Broken("model does not build", log[-2000:])
    if rp.get("kind") == "erc20probe":
        print("erc20 probe outcome per scenario:", erc20_probe(ctx, vh))
        return
    tmp = os.path.join(ctx.scratch, "one.json")
    SCRIPTS[:] = [rp["script"]] if "script" in rp else []
    if rp.get("kind") == "script" or "script" in rp:
        json.dump([rp["script"]], open(tmp, "w"))
        args = ["-n", "0", "-script", tmp]
    else:
        json.dump([rp["cfg"]], open(tmp, "w"))
        args = ["-n", "0", "-cfg", tmp]
    reps, cases, mm, sv, st = evaluate(ctx, vh, [args])
    print("model_mismatches (shard, case, step)", mm)
    print("monitor findings (shard, case, step, check, class)", sv)
    for x in sv[:10]:
        print("  step %d: check %d (%s) class %d %s" % (x[2], x[3], CHECKS.get(x[3]), x[4], TRIGGERS.get(x[4], "VIOLATION")))
    judge(ctx, cases, mm, sv)
