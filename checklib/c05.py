"""C05 — at-most-once: a signed transaction never takes effect twice."""
import json, os
import common
from common import Broken, sh

ASSUMPTIONS = [
    "the transaction hash is collision-free on the inputs considered (modelled as the identity)",
    "the node runs Tendermint's kv transaction indexer and the index is complete when the next block starts (the harness feeds an in-memory kv index at every commit as a node would); with indexer = \"null\" there is no replay record at all",
    "OLVM transactions are additionally protected by the account nonce (modelled under C17); Ethereum lock / redeem transactions by their tracker record in the ongoing, passed or failed store (modelled under C15): for both, every re-encoding must be refused, also after the tracker has been cleaned up",
    "\"took effect\" is observed as a change of the deliver state's key/value view across the DeliverTx call",
]

MIN_KINDS = 18


def run_harness(ctx, vh, extra):
    out_dir = os.path.join(ctx.scratch, "c05")
    os.makedirs(out_dir, exist_ok=True)
    rc, out = sh([vh, "c05", "-out", out_dir, "-seed", str(ctx.seed)] + extra, timeout=1500)
    if rc != 0:
        raise Broken("C05 harness run failed", out[-3000:])
    rep = json.load(open(os.path.join(out_dir, "c05_report.json")))
    mm = []
    for f in rep["files"]:
        ok, cout = common.coqc_file(f, cwd=out_dir)
        if not ok:
            raise Broken("Replay.v could not be evaluated on the recorded submissions", cout[-3000:])
        mm += common.parse_print(cout, "MM")
    return rep, mm


def judge(ctx, rep, mm):
    exercised, viol, known_hits = 0, [], 0
    for k in rep["kinds"]:
        if k["base_deliver_code"] != 0 or not k["base_took_effect"]:
            continue
        exercised += 1
        for s in k["resubmissions"]:
            indexed = s["name"].startswith("identical") or s["name"].endswith("@later")
            again = s["check_code"] == 0 or s["took_effect"]
            if not again:
                continue
            if indexed:
                viol.append((k, s, "byte-identical (already indexed) resubmission accepted or took effect"))
            elif s["same_parsed"] and k["kind"].startswith("OLVM"):
                # OLVM transactions are protected by the account nonce: no encoding may execute twice
                viol.append((k, s, "re-encoding of an executed OLVM transaction accepted or took effect again (account nonce)"))
            elif s["same_parsed"] and k["kind"].startswith("GOV"):
                # a proposal id stays taken in whichever store holds the proposal
                viol.append((k, s, "re-encoding of an executed PROPOSAL_CREATE accepted or took effect again (proposal id)"))
            elif s["same_parsed"] and k["kind"].startswith("ETH"):
                # Ethereum lock / redeem transactions are protected by their tracker record (ongoing, then archived)
                viol.append((k, s, "re-encoding of an executed Ethereum lock/redeem transaction accepted or took effect again (tracker record)"))
            elif s["same_parsed"]:
                # the known finding names the kinds whose content carries nothing that stays taken (a payment, a
                # stake, a vote ...): only those are excused.  Every other kind is protected by a record of its own
                # (a domain name, a proposal or request id, a conversation) and must refuse re-encodings for ever.
                f = common.known("C05", "C05.reencoding_replay")
                if f is not None and k["kind"] in f.get("kinds", []) and ctx.known_finding("C05.reencoding_replay", ""):
                    known_hits += 1
                else:
                    viol.append((k, s, "re-encoding of an executed transaction accepted or took effect again (its kind is protected by a record that stays taken)"))
    for k, s, what in viol[:3]:
        ctx.violation("%s_%s" % (k["kind"], s["name"].replace("@", "_")), {
            "kind": "signed-transaction-took-effect-twice", "what": what, "tx_kind": k["kind"], "resubmission": s["name"],
            "base_tx": k["base_tx"], "resubmitted_tx": s["tx"], "observed": {x: s[x] for x in ("check_code", "deliver_code", "took_effect", "changed_keys") if x in s},
            "how": "./check replay <this file>"})
    if mm and not viol:
        raise Broken("correspondence Replay.v (hash index lookup) vs txChecker broke", "case %d of the cases file" % mm[0])
    if exercised < MIN_KINDS and not viol:
        raise Broken("only %d kinds have a base transaction that executes with an effect" % exercised)
    return exercised, viol, known_hits


def run(ctx):
    broken = None
    try:
        common.prove(ctx, "props/C05.v", extra_targets=["theories/ReplayCheck.vo"])
    except Broken as b:
        broken = b
    vh = common.build_harness()
    rep, mm = run_harness(ctx, vh, [])
    exercised, viol, known_hits = judge(ctx, rep, mm)
    subs = sum(len(k.get("resubmissions") or []) for k in rep["kinds"])
    hist = {}
    for k in rep["kinds"]:
        for s in k.get("resubmissions") or []:
            key = "%s:%s" % (s["name"].split("@")[0] + ("@later" if "@" in s["name"] else ""), "again" if (s["check_code"] == 0 or s["took_effect"]) else "blocked")
            hist[key] = hist.get(key, 0) + 1
    ctx.coverage.update({
        "evaluations": subs, "distinct_nontrivial": subs,
        "rule": "for each of %d kinds: a valid signed transaction executed in a block, then resubmitted byte-identical and in 7 re-encodings of the same signed content "
                "(leading space, trailing newline, indentation, key order, extra unsigned field, duplicate key, unicode escape) to CheckTx and inside the next block, and all "
                "of them again three blocks later; each (kind, resubmission) is a distinct case; non-trivial = base executed with an effect" % len(rep["kinds"]),
        "traces_validated_against_impl": 2 * exercised, "kinds": len(rep["kinds"]), "kinds_exercised": exercised,
        "resubmission_histogram": hist, "model_mismatches": len(mm), "known_finding_hits": known_hits,
        "samples": [{"kind": k["kind"], "resubmissions": [(s["name"], s["check_code"], s["took_effect"]) for s in (k.get("resubmissions") or [])][:9]} for k in rep["kinds"][:2]],
        "explanation": "theorems of props/C05.v re-checked; Replay.v's index lookup evaluated by vm_compute against the real CheckTx duplicate answers; every kind resubmitted through the real app",
    })
    if broken is not None and ctx.violations == 0:
        raise broken


def replay(ctx, rp):
    vh = common.build_harness()
    common.coq_make(["theories/ReplayCheck.vo"])
    rep, mm = run_harness(ctx, vh, ["-kind", rp.get("tx_kind", "SEND")])
    for k in rep["kinds"]:
        for s in k.get("resubmissions") or []:
            print(k["kind"], s["name"], "check", s["check_code"], "deliver", s["deliver_code"], "effect", s["took_effect"])
    judge(ctx, rep, mm)
