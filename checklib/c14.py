"""C14 — governance proposals follow their lifecycle and their funds are accounted for."""
import json, os
from concurrent.futures import ThreadPoolExecutor
import common
from common import Broken, sh

ASSUMPTIONS = [
    "handlers' writes are discarded when they return false (DiscardTxSession; property C06) — the model returns the unchanged state",
    "what governance reads but does not own is an input of each step (current proposal options, active/full validator list, "
    "bounty / execution-cost addresses, outcome of the configuration update function); theorems quantify over all such inputs; "
    "the harness reads them from the real stores before each step",
    "float64 tally compared exactly: total voting power < 2^45 and (total-no)*100 != pass*total (tally_float_guard); "
    "fund shares are int64(percentage*10000) computed by the harness with the Go expression",
    "amounts are in OLT (Validate, run by CheckTx and since /repo d276709 by DeliverTx, refuses other currencies); their sign is NOT checked by Validate and negative amounts are modelled faithfully; int64 wrap of heights / power sums not modelled",
    "storage iteration sees committed keys only: modelled for the vote tally and IsFundedByFunder (records written in the current "
    "block are invisible); DeleteAllFunds is modelled as deleting every record (no uncommitted record can exist at a finalisation); "
    "surviving records are judged by the monitor",
    "no validator is frozen and the validator set is never empty in the generated histories; storage never fails mid-distribution",
]

TRIGGERS = {5: "C14.expired_never_finalised"}   # all other findings have been repaired in /repo: any other monitor hit is a violation
CODES = {1: "stage went backwards", 2: "proposal id held by two stores", 3: "recorded total differs from the sum of the funder records",
         4: "voting although the total is below the goal", 5: "expired (insufficientVotes) although not in voting with its deadline behind the block height",
         6: "snapshot validators/powers changed after voting began", 7: "passed store without completedYes / finalized with funds left",
         8: "deadline, goal, type, proposer or pass percentage of a proposal changed", 9: "balances + fee pool + proposal funds grew",
         10: "funder records survive the distribution",
         12: "a configuration update came into force for a proposal that is not recorded as passed (outcome completedYes)",
         14: "the votes (validator, power, opinion) of a proposal after the import differ from those before the export: the tally changed across the relaunch",
         15: "a proposal record after the import differs from the one before the export (beyond the deadline shift of active proposals)",
         16: "the OLT recorded for a proposal exceeds the OLT actually paid into it minus the OLT refunded (measured from the OLT balance deltas of payers and beneficiaries)",
         17: "more OLT refunded from a proposal than was paid into it (measured from OLT balance deltas)",
         18: "the stage does not follow the recorded votes (exact tally under the proposal's own percentage)",
         19: "expired (insufficientVotes) with the goal reached: the funds are neither refunded nor distributed",
         13: "still in the funding stage at the end of a block although the recorded total has reached the goal recorded in the proposal",
         11: "declared insufficientFunds (refundable) although the goal was met or the funding deadline had not passed"}


def tier_args(ctx):
    if ctx.tier == "thorough":
        return ["-seed", str(ctx.seed), "-n", "360", "-blocks", "40"]
    return ["-seed", str(ctx.seed), "-n", "36", "-blocks", "28"]


def evaluate(ctx, vh, args):
    out_dir = os.path.join(ctx.scratch, "c14")
    os.makedirs(out_dir, exist_ok=True)
    rc, out = sh([vh, "c14", "-out", out_dir] + args, timeout=1800)
    if rc != 0:
        raise Broken("C14 harness run failed", out[-3000:])
    rep = json.load(open(os.path.join(out_dir, "c14_report.json")))
    cases = json.load(open(os.path.join(out_dir, "c14_cases.json")))

    def one(f):
        return common.coqc_file(f, cwd=out_dir)
    with ThreadPoolExecutor(max_workers=14) as ex:
        results = list(ex.map(one, rep["files"]))
    mm, mon = [], []
    for fi, (ok, cout) in enumerate(results):
        if not ok:
            raise Broken("the model could not be evaluated on the recorded histories (cases file does not check)", cout[-3000:])
        first = rep["shard_first"][fi]
        a = common.parse_print(cout, "MM")
        mm += [(first + a[i], a[i + 1], a[i + 2], a[i + 3]) for i in range(0, len(a), 4)]
        b = common.parse_print(cout, "MON")
        mon += [(first + b[i], b[i + 1], b[i + 2], b[i + 3], b[i + 4]) for i in range(0, len(b), 5)]
    return rep, cases, mm, mon


def describe(case, block=None):
    d = []
    blk = -1
    for o in case["Ops"]:
        if o["Kind"] == "begin":
            blk += 1
        if o["Descr"] and (block is None or blk <= block):
            d.append("h%d %s -> ok=%s" % (blk + 1, o["Descr"], o["Ok"]))
    return d


def judge(ctx, args, rep, cases, mm, mon):
    found = False
    for (ci, blk, pi, code, cl) in mon:
        if cl in TRIGGERS and ctx.known_finding(TRIGGERS[cl], CODES.get(code, "")):
            continue
        found = True
        if ctx.violations < 3:
            c = cases[ci]
            ctx.violation("monitor_%s_b%d_p%d_c%d" % (c["Name"], blk, pi, code), {
                "kind": CODES.get(code, str(code)), "code": code, "case": c["Name"], "case_index": ci, "block_index": blk, "proposal": pi,
                "args": args, "history": describe(c, blk)[-40:],
                "observation": c["Obs"][blk]["Props"][pi] if 0 <= pi < len(c["Obs"][blk]["Props"]) else None,
                "how": "./check replay <this file>"})
    if mm and not found:
        ci, kind, pos, detail = mm[0]
        c = cases[ci]
        raise Broken("correspondence Gov.v vs the application broke (model and implementation differ)",
                     json.dumps({"case": c["Name"], "case_index": ci, "args": args,
                                 "what": "ok flag of operation #%d" % pos if kind == 1 else "observation after block #%d (field %d)" % (pos, detail),
                                 "op": c["Ops"][pos] if kind == 1 else None, "history": describe(c)[-30:]}))
    return found


def run(ctx):
    broken = None
    try:
        common.prove(ctx, "props/C14.v")
    except Broken as b:
        broken = b
    vh = common.build_harness()
    args = tier_args(ctx)
    rep, cases, mm, mon = evaluate(ctx, vh, args)
    notes = rep.get("notes", {})
    cov = ctx.coverage
    by = {}
    for m in mon:
        k = "code%d/class%d" % (m[3], m[4])
        by[k] = by.get(k, 0) + 1
    cov.update({
        "evaluations": rep["steps"], "distinct_nontrivial": rep["distinct_cases"],
        "rule": "13 scripted histories (tallies exactly on and next to the 33% / 67% thresholds with stake-weighted powers; 64-character ids with '_' / '~' / non-hex letters; expiry with the goal reached; create / fund / withdraw with amounts in ETH (by accounts that own it and that do not), an unknown and an empty currency; export / import of proposals in every state incl. partial votes and waiting finalisations; corpus cases of the four fixed findings; two contradicting configuration updates drive a proposal into the finalize-failed store, then the ids of proposals in every state are submitted again; funding-goal option raised / lowered by a finalised configuration proposal while a proposal of that type is being funded; votingDeadline, passPercentage, initialFunding, fundingDeadline of a type changed while proposals of it are in funding / voting) + seeded "
                "random governance histories on the whole application (Replica): create/fund/vote/cancel/withdraw/public expire/public "
                "finalize from proposers, funders, strangers, a poor account, validators and non-validators, stake changes, blocks past "
                "the deadlines; stage-biased generator; the generated histories rotate through five validator sets (3, 6 and 7 validators, stake-weighted powers that put single validators and coalitions exactly on and next to 33/34, 40/41, 49/51, 60 and 67 per cent); about 3% of the creates use a malformed id; about 5% of the create / fund / withdraw transactions name another currency (two users really own ETH); per proposal the OLT paid in and refunded is measured from the OLT balance deltas of payers and beneficiaries and compared with the model's events and with the recorded total; every second history is relaunched in its middle from the governance state exported the way olfullnode save_state does (JSON genesis, InitChain -> LoadProposals) and goes on on the new chain; every third history runs on a genesis with production-range options (half of them start with a pair of contradicting updates, so that finalize-failed is reached; ids of existing proposals, finalize-failed ones first, are submitted again) where "
                "configuration proposals change fundingGoal / votingDeadline / fundingDeadline / initialFunding / passPercentage of "
                "every type (and ONS options) while other proposals are in their funding / voting stage; distinct = distinct operation sequences",
        "traces_validated_against_impl": rep["cases"], "blocks": rep["blocks"], "proposals": rep["proposals"],
        "op_histogram": rep["op_histogram"], "ok_histogram": rep["ok_histogram"], "final_stage_histogram": rep["final_stage_histogram"],
        "model_mismatches": len(mm), "monitor_hits": by, "corpus_cases_hold": notes,
        "samples": rep["samples"],
        "explanation": "theorems of props/C14.v re-checked (incl. router fact obligation on regenerated Facts_TxKinds); Gov.v evaluated by "
                       "vm_compute on every recorded history: per transaction ok/fail, per block the decoded proposal records of the five "
                       "stores, vote and fund records, balances of all involved accounts, fee pool, applied configuration (model_mismatches "
                       "must be 0); monitor = lifecycle/funds predicates of GovCheck.v on the implementation's observations",
    })
    # corpus cases (former findings, all fixed in /repo): the property must HOLD on each of them
    corpus = [
        ("public_expire_votes", 0, "0988205", "EXPIRE_VOTES from an unrelated account expired a proposal in its funding stage before any deadline",
         notes.get("e11_deliver_ok") or notes.get("e11_moved_to_failed") or notes.get("e11_checktx_code") == 0),
        ("stale_fund_records", 1, "9dda72d", "funder records survived a finalisation / a finalised proposal accepted a withdrawal / id in two stores",
         notes.get("stale_survivors", 0) != 0 or notes.get("stale_zero_withdraw_ok") or notes.get("stale_two_stores")),
        ("negative_fund_amount", 2, "782c385", "a negative contribution or withdrawal was accepted / the refund after the cancellation was refused",
         notes.get("negfund_deliver_ok") or notes.get("negfund_checktx_code") == 0 or notes.get("negwithdraw_ok") or notes.get("negfund_refund_ok") is False),
        ("tally_float_boundary", 10, "6d9c57c", "a NO share of exactly (100-pass)% failed the proposal / a tally on a threshold was decided wrongly",
         notes.get("tally_exact33_undecided") is False or notes.get("tally_exact33_then_passes") is False or
         notes.get("tally_33p5_failed") is False or notes.get("tally_exact67_passed") is False),
        ("proposal_id_alphabet", 11, "76734a6", "a proposal id that is not 64 hexadecimal characters was accepted by PROPOSAL_CREATE",
         notes.get("badid_created") is not False),
        ("pass_percentage_drift", 3, "23f7d29", "a proposal whose votes pass under its own percentage was recorded as failed / ended up in two stores",
         notes.get("drift_p1_outcome_yes") is False or notes.get("drift_p1_two_stores") or notes.get("drift_applied") != 1),
    ]
    # directed: the funding-goal option changed by governance while a proposal of that type is being funded
    for nm, ci in (("goalup", 4), ("goallow", 5)):
        if notes.get(nm + "_p1_voting") is False or notes.get(nm + "_p1_final_stage_ok") is False:
            ctx.violation("directed_" + nm, {"kind": "a proposal that met the funding goal RECORDED in it before its funding deadline is not in its "
                          "voting stage / was thrown out of it after the funding-goal option of its type was changed by governance",
                          "notes": notes, "args": args, "case_index": ci, "history": describe(cases[ci])})
    # the known finding C14.expired_never_finalised must still reproduce as recorded (or be repaired: then update the entry)
    if notes.get("expired_reached") is False:
        ctx.violation("directed_expired", {"kind": "the scenario 'goal reached, one vote, voting deadline passed' no longer ends in the failed store "
                      "with outcome insufficientVotes", "notes": notes, "args": args, "case_index": 12, "history": describe(cases[12])})
    # directed: amounts denominated in another currency (owned or not, unknown, empty) for create / fund / withdraw
    if notes.get("currency_non_olt_accepted") or notes.get("currency_p0_untouched") is False:
        ctx.violation("directed_currency", {"kind": "a PROPOSAL_CREATE / PROPOSAL_FUND / PROPOSAL_WITHDRAW_FUNDS whose amount is not denominated in OLT was "
                      "accepted (the fund store is denominated in OLT: the number is later refunded / distributed as OLT nobody paid in)",
                      "notes": notes, "args": args, "case_index": 9, "history": describe(cases[9])})
    # directed: export / import with proposals in every state
    if notes.get("relaunch_waiting_finalised") is False or notes.get("relaunch_partial_votes_kept") is False:
        ctx.violation("directed_relaunch", {"kind": "after a relaunch from the exported state a proposal waiting for its finalisation was not finalised "
                      "according to its recorded votes / a proposal with recorded votes did not pass although its snapshot's votes pass it",
                      "notes": notes, "args": args, "case_index": 8, "history": describe(cases[8])})
    # directed: a proposal is driven into the finalize-failed store; ids of proposals in every state are submitted again
    if notes.get("finfail_reached") is False or notes.get("finfail_recreate_accepted") or notes.get("finfail_still_terminal") is False:
        ctx.violation("directed_finfail", {"kind": "the id of an existing proposal was accepted by PROPOSAL_CREATE again / the finalize-failed "
                      "proposal left its terminal state (or the scenario no longer reaches finalize-failed)",
                      "notes": notes, "args": args, "case_index": 7, "history": describe(cases[7])})
    for name, ci, commit, what, bad in corpus:
        if bad:
            ctx.violation("corpus_" + name, {"kind": "fixed finding C14.%s (%s) fails again: %s" % (name, commit, what), "notes": notes,
                          "corpus": "corpus/C14.json", "args": args, "case_index": ci, "history": describe(cases[ci])})
    judge(ctx, args, rep, cases, mm, mon)
    if broken is not None and ctx.violations == 0:
        raise broken


def replay(ctx, rp):
    vh = common.build_harness()
    ok, log = common.coq_make(["theories/GovCheck.vo"])
    if not ok:
        raise Broken("model does not build", log[-2000:])
    args = list(rp.get("args") or tier_args(ctx))
    if "case_index" in rp:
        args += ["-only", str(rp["case_index"]), "-shard", "1"]
    rep, cases, mm, mon = evaluate(ctx, vh, args)
    print("notes", rep.get("notes"))
    print("model_mismatches", mm)
    print("monitor (case, block, proposal, code, class)", mon)
    for c in cases[:1]:
        for line in describe(c)[:60]:
            print("  ", line)
    judge(ctx, args, rep, cases, mm, mon)
