"""Shared driver for the relational (twin-run) properties C06 C07 C08 C01."""
import json, os
import common
from common import Broken, sh


def signature(case):
    d = case["divergence"]
    return "%s|%s|%s|%s" % (case["genesis"], case["variant"].split("-")[0], d["what"], ",".join(k.split(":")[0] for k in (d.get("key_diff") or [])))


def run_twin(ctx, vh, mode, n, blocks, txs=6, extra=None):
    out = os.path.join(ctx.scratch, "twin_%s.json" % mode)
    args = [vh, "twin", "-mode", mode, "-seed", str(ctx.seed), "-n", str(n), "-blocks", str(blocks), "-txs", str(txs), "-out", out]
    rc, log = sh(args + (extra or []), timeout=3000)
    if rc != 0:
        raise Broken("twin harness (%s) failed to run" % mode, log[-3000:])
    return json.load(open(out))


def judge(ctx, rep, trigger_of=None):
    """Every divergence is a failing history of the property: VIOLATION unless its signature is a listed known finding."""
    n = 0
    for c in rep["cases"]:
        if not c.get("divergence"):
            continue
        sig = signature(c)
        trig = trigger_of(c, sig) if trigger_of else None
        if trig and ctx.known_finding(trig, sig):
            continue
        n += 1
        if n <= 3:
            ctx.violation("%s_h%d_%s" % (rep["mode"], c["index"], c["variant"]), {
                "kind": "twin-run-divergence", "mode": rep["mode"], "genesis": c["genesis"], "variant": c["variant"],
                "vseed": int(c["extra"].split("=")[1]) if c.get("extra") else 0,
                "divergence": c["divergence"], "signature": sig, "hname": c.get("hname", ""), "history": c["history"], "descr": c.get("descr"),
                "how": "./check replay <this file>"})
    return n


def coverage(rep):
    return {
        "evaluations": rep["comparisons"], "histories": rep["histories"], "comparisons": rep["comparisons"],
        "divergent": rep["divergent"], "tx_total": rep["tx_total"], "tx_failed": rep["tx_failed"],
        "kind_histogram": rep["kind_histogram"], "restarts": rep.get("restarts", 0), "checktx_calls": rep.get("checktx_calls", 0),
        "distinct_nontrivial": sum(1 for c in rep["cases"] if c["txs"] > 0),
        "traces_validated_against_impl": rep["comparisons"],
        "samples": [{k: c[k] for k in ("index", "genesis", "variant", "blocks", "txs", "failed_txs")} for c in rep["cases"][:3]],
    }


def replay(ctx, rp, trigger_of=None):
    vh = common.build_harness()
    tmp = os.path.join(ctx.scratch, "replay_in.json")
    json.dump({"genesis": rp["genesis"], "hname": rp.get("hname", ""), "vseed": rp.get("vseed", 0), "history": rp["history"]}, open(tmp, "w"))
    rep = run_twin(ctx, vh, rp["mode"], 1, 1, extra=["-replay", tmp])
    print("replay: %d comparisons, %d divergent" % (rep["comparisons"], rep["divergent"]))
    for c in rep["cases"]:
        if c.get("divergence"):
            print("  ", c["variant"], json.dumps(c["divergence"])[:400])
    judge(ctx, rep, trigger_of)
