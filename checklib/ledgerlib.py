"""Shared implementation of the C02 (no value creation) and C03 (no unauthorised debit) checks: one harness
subcommand (`vh c02`) decodes the value ledger of the real application after every ABCI step; the Coq-defined
monitors and the per-kind model correspondence of coq/theories/LedgerCheck.v are evaluated on it."""
import glob, json, os
from concurrent.futures import ThreadPoolExecutor
import common
from common import Broken, sh

BUCKETS = ["balance", "fee", "stake", "unstaking", "withdrawable", "undelegating", "reward_claim", "reward_withdrawing",
           "proposal_fund", "delegated", "validator_reward_matured", "validator_reward_withdrawn", "validator_reward_interval", "bid_escrow", "wrapped_supply_counter"]
STEPKIND = {0: "BeginBlock", 1: "DeliverTx", 2: "EndBlock"}

# monitor classes of LedgerCheck.step_viol
C02_CLASSES = {1: "transaction-increased-a-currency-total", 2: "BeginBlock-increased-a-total-beyond-the-accrual-allowance",
               3: "EndBlock-increased-a-total", 4: "block-increased-a-total-beyond-its-allowance", 5: "negative-stored-amount",
               8: "transaction-raised-a-validator-reward-claim"}
C03_CLASSES = {6: "holdings-decreased-across-a-block-without-authority", 7: "holdings-decreased-in-a-step-without-authority"}
T_NEGFUND = "C02.proposal_fund_negative"
T_STALE = "C02.finalize_stale_fund_records"
T_NEGWD2 = "C02.withdraw_funds_negative"
T_NEGWD3 = "C03.withdraw_funds_negative"
C02_KNOWN = {13: T_STALE, 14: T_STALE, 15: T_NEGFUND, 25: T_NEGWD2}
C03_KNOWN = {16: T_NEGWD3, 17: T_NEGWD3}
CORR = {1: "model-ledger-differs", 2: "model-refuses-a-successful-step", 3: "failed-transaction-changed-the-ledger"}


def evaluate(ctx, vh, args, tag="c02"):
    out_dir = os.path.join(ctx.scratch, tag)
    os.makedirs(out_dir, exist_ok=True)
    rc, out = sh([vh, "c02", "-out", out_dir] + args, timeout=2400)
    if rc != 0:
        raise Broken("%s harness run failed (vh c02)" % ctx.prop, out[-3000:])
    rep = json.load(open(os.path.join(out_dir, "c02_report.json")))
    cases = json.load(open(os.path.join(out_dir, "c02_cases.json")))
    mon, corr, tr = [], [], []
    with ThreadPoolExecutor(max_workers=14) as ex:
        results = list(ex.map(lambda f: common.coqc_file(f, cwd=out_dir), rep["files"]))
    for ok, cout in results:
        if not ok:
            raise Broken("the monitors / model could not be evaluated on the recorded runs (cases file does not check)", cout[-3000:])
        a = common.parse_print(cout, "MON")
        mon += [tuple(a[i:i + 5]) for i in range(0, len(a), 5)]
        b = common.parse_print(cout, "CORR")
        corr += [tuple(b[i:i + 3]) for i in range(0, len(b), 3)]
        t = common.parse_print(cout, "TR")
        tr += [tuple(t[i:i + 3]) for i in range(0, len(t), 3)]
    return rep, cases, sorted(mon), sorted(corr), tr


def describe_step(case, si):
    """si is 1-based (0 = genesis)."""
    if si == 0:
        return {"step": "InitChain"}
    s = case["steps"][si - 1]
    d = {"step": STEPKIND[s["kind"]], "height": s["h"], "ok": s["ok"]}
    for k in ("type", "descr", "tx", "log", "amt"):
        if s.get(k):
            d[k] = s[k]
    d["changed_records"] = [{"owner": case["owners"][u["o"]], "bucket": BUCKETS[u["b"]], "currency": case["curs"][u["c"]],
                             "sub": u["s"], "new_amount": u["amt"]} for u in s["upd"]]
    d["changed_side_records"] = [{"owner": case["owners"][u["o"]], "currency": case["curs"][u["c"]], "bucket": BUCKETS[u["b"]], "sub": u["s"], "new_amount": u["amt"]}
                                         for u in s.get("side") or []]
    if s.get("allowc"):
        d["wrapped_allowance"] = [{"currency": case["curs"][u["c"]], "amount": u["amt"]} for u in s["allowc"]]
    d["authority"] = [case["owners"][i] for i in s.get("auth") or []]
    return d


def payload(case, si, cl, a, b, names):
    d = {"kind": names.get(cl, str(cl)), "cls": cl, "case": case["spec"]["name"], "first_bad_step": si,
         "observed": describe_step(case, si), "how": "./check replay <this file>"}
    if cl in (1, 2, 3, 4, 13, 14):
        d["currency"], d["increase"] = case["curs"][a] if a < len(case["curs"]) else a, str(b)
    elif cl in (5, 15, 25):
        d["owner"], d["bucket"] = case["owners"][a], BUCKETS[b]
    elif cl == 8:
        d["validator"], d["increase"] = case["owners"][a], str(b)
    else:
        d["owner"], d["currency"] = case["owners"][a], case["curs"][b] if b < len(case["curs"]) else b
    # replayable input: the history up to and including the block of the offending step
    nb = sum(1 for s in case["steps"][:max(si, 1)] if s["kind"] == 0)
    for s in case["steps"][max(si, 1):]:
        if s["kind"] == 0:
            break
    d["spec"] = dict(case["spec"], blocks=case["spec"]["blocks"][:max(nb, 1)])  # keeps genesis variant / option overrides of the case
    return d


def judge(ctx, cases, mon, corr, mine, known, names):
    """mine: classes this property owns; known: class -> trigger id."""
    stats = {"known": {}, "violating_cases": set()}
    seen = set()
    for (ci, si, cl, a, b) in mon:
        if cl in known:
            if ctx.known_finding(known[cl], ""):
                stats["known"].setdefault(known[cl], set()).add(ci)
                continue
            cl0 = cl  # the finding is not (or no longer) listed: an ordinary violation
        elif cl not in mine:
            continue
        if (ci, cl, a) in seen:
            continue
        seen.add((ci, cl, a))
        stats["violating_cases"].add(ci)
        if ctx.violations < 3:
            ctx.violation("%s_step%d_class%d" % (cases[ci]["spec"]["name"], si, cl), payload(cases[ci], si, cl, a, b, names))
    # a broken correspondence never stops the search: the Coq monitors above were evaluated on EVERY step of EVERY case
    # (monitor_all does not depend on the model), so a mismatch is reported as "no failing input" only when none of them fired
    bad = [(ci, si, r) for (ci, si, r) in corr if r in CORR]
    if bad and not stats["violating_cases"]:
        ci, si, r = bad[0]
        raise Broken("correspondence LedgerTx.v vs the application broke (%s) and the property monitors found no failing input" % CORR[r],
                     json.dumps({"case": cases[ci]["spec"]["name"], "step": si, "observed": describe_step(cases[ci], si),
                                 "model": cases[ci]["steps"][si - 1].get("model")}, default=str)[:6000])
    return stats


def adversarial_tables(cases):
    """Which value-moving kind received which adversarial amount class / currency, and what the application answered."""
    import re
    amt, cur = {}, {}
    for c in cases:
        for st in c["steps"]:
            m = re.match(r'adv (\S+) amount (\S+) currency "(.*)"$', st.get("descr") or "")
            if st["kind"] != 1 or not m:
                continue
            kind, cls, cu = m.groups()
            res = "accepted" if st["ok"] else "refused"
            a = amt.setdefault(kind, {}).setdefault(cls, {"accepted": 0, "refused": 0})
            a[res] += 1
            b = cur.setdefault(kind, {}).setdefault(cu if cu else "(empty)", {"accepted": 0, "refused": 0})
            b[res] += 1
    return {
        "adversarial_amount_classes_by_kind": amt,
        "adversarial_currencies_by_kind": cur,
        "adversarial_kinds_not_fed": "ERC20 lock+redeem and BTC (C15's check; ETH_LOCK / ETH_REDEEM / ETH_REPORT_FINALITY are fed by the scenario ethlock and the witness "
                                     "eth_redeem_refund on the 'eth' genesis variant: per-tracker allowance 'mint = value locked', 'refund = amount burnt'), OLVM value "
                                     "transfers beyond the generated ones (C17), bid external app; PROPOSAL_CREATE/FUND/WITHDRAW_FUNDS (eligible "
                                     "and not eligible proposal), all four network delegation kinds, ONS create/renew/purchase/send/sell, SENDPOOL "
                                     "(bounty and delegation pool), SEND, STAKE/UNSTAKE/WITHDRAW (ordinary and self-staked) and WITHDRAW_REWARD "
                                     "(real validator with matured rewards) receive every class of the series in OLT and a thinner series in "
                                     "ETH / unregistered / empty currency",
    }


def extra_specs(ctx):
    """Replays of all recorded C02/C03 findings (known and fixed alike) and the corpus run as ordinary cases."""
    specs = []
    for f in sorted(glob.glob(os.path.join(common.VERIF, "findings", "C02_*.json")) + glob.glob(os.path.join(common.VERIF, "findings", "C03_*.json"))):
        specs.append(json.load(open(f))["spec"])
    for name in ("C02.json", "C03.json"):
        corpus = os.path.join(common.VERIF, "corpus", name)
        if os.path.exists(corpus):
            specs += json.load(open(corpus))
    path = os.path.join(ctx.scratch, "c02_extra.json")
    json.dump(specs, open(path, "w"))
    return path, len(specs)


def tier_args(ctx):
    if ctx.tier == "thorough":
        return ["-seed", str(ctx.seed), "-n", "60", "-blocks", "48", "-txs", "6", "-adv", "4", "-shard", "2"]
    return ["-seed", str(ctx.seed), "-n", "6", "-blocks", "36", "-txs", "5", "-adv", "1", "-shard", "1"]


def run(ctx, props, mine, known, names, what):
    broken = None
    try:
        common.prove(ctx, props, extra_targets=["theories/LedgerCheck.vo"])
    except Broken as b:
        broken = b
    vh = common.build_harness()
    extra, nextra = extra_specs(ctx)
    rep, cases, mon, corr, tr = evaluate(ctx, vh, tier_args(ctx) + ["-extra", extra])
    cov = ctx.coverage
    own = [m for m in mon if m[2] in mine or m[2] in known]
    cov.update({
        "evaluations": rep["steps"], "distinct_nontrivial": rep["distinct_cases"],
        "rule": "whole-application runs (real app.App through ABCI, Replica): replays of the recorded findings (all fixed: expected to HOLD) + 19 witnesses (incl. both roles of a two-party kind being ONE account (the owner buys its own name on sale, SEND to self, DOMAIN_SEND to the own name, withdrawal with beneficiary = funder, bid on the own asset, delegation by a validator's stake account) and a purchase whose `account` names a third funded account; envelopes carrying a VICTIM's public key (secp256k1 and ed25519 victims), unchanged and relabelled as every other key algorithm, with junk / empty signature bytes; OLVM creations at addresses funded in advance by native SENDs (no / with endowment, reverting init code, self-destruct pay-out, inner CREATE and CREATE2 of a factory); wrapped ETH on the 'eth' genesis variant: lock -> reports -> mint, a redeem that succeeds, a redeem that fails and is refunded, crafted redeems with the redeem(uint256) selector in the gas price / nonce / value field or twice in the call data; bid amounts (negative / zero / further offer / counter offer / expiry by a third party); an OLVM contract whose call clears a storage slot (SSTORE refund), reverts, carries value; stakingOptions.maturityTime lowered by a finalised configuration proposal between one validator's unstake and two same-block unstakes of another, both address orders; a reward withdrawal that matures while the delegation pool is empty, with and without a CheckTx as the last call before each block; a transaction refused in the fee step after its handler ran, followed at once by a spend from the account it had credited; several unstakes of one delegator in one block through maturity and withdrawal; a self-staking candidate with a foreign public key + junk in signature slot 0) + the 5 directed "
                "scenarios + adversarial-amount histories (25 value-moving kinds incl. BID_CREATE / further offer / counter offer, incl. self-staked STAKE/UNSTAKE/WITHDRAW; per kind also a pair 'refused in the fee step (gas limit 1) after a successful handler / SEND by the account it touched last of more than, and of nearly all, it owns', forged envelopes naming a secp256k1 / ed25519 victim as the source with the victim's public key in slot 0 (unchanged / relabelled ed25519, secp256k1, btcecsecp, ethsecp x junk / empty / another transaction's genuine signature) for 13 spending kinds, and signature lists with a foreign key + junk in the first / last slot at a high fee price; x amounts {-2^64,-1,0,1,base-1,base,base+1,2^63-1,2^63,2^64-2,2^64,"
                "2^64+1,10^40} relative to the observed source record x currencies {OLT,ETH,unregistered,empty}; every address field replaced by "
                "other accounts, signed by the rightful signers / the attacker / the named account) + seeded random histories over ~35 kinds incl. OLVM "
                "(genHistory); evaluations = ABCI steps (BeginBlock, DeliverTx, EndBlock) whose decoded ledger change was judged by the monitors; "
                "distinct = distinct histories. Mempool policy of every generated history: blocks cycle through delivered-without-CheckTx / CheckTx of every "
                "transaction on the same replica right before the block / CheckTx, then an unrelated block, then the delivery (mempool_histogram counts them, "
                "forged transactions separately); random histories and the adversarial stream end with / contain 'reward withdrawal, then EVERY delegator "
                "undelegates everything' run past the maturities",
        "traces_validated_against_impl": rep["cases"], "blocks": rep["blocks"], "txs": rep["txs"], "tx_ok": rep["tx_ok"], "tx_fail": rep["tx_fail"],
        "kind_histogram": rep["kind_histogram"], "outcome_histogram": rep["outcome_histogram"], "source_histogram": rep["source_histogram"],
        "adversarial_histogram": rep["adversarial_histogram"], "mempool_histogram": rep["mempool_histogram"], "decoded_prefix_histogram": rep["decoded_prefix_histogram"],
        "undecoded_keys": len(rep["unknown_keys"] or []), "undecodable_values": len(rep["undecodable_values"] or []),
        "max_ledger_records": rep["max_ledger_records"], "max_owners": rep["max_owners"],
        "modelled_steps": rep["modelled_steps"], "modelled_histogram": rep["modelled_histogram"],
        "model_mismatches": sum(1 for c in corr if c[2] in CORR),
        "modelled_steps_agreeing": sum(1 for c in corr if c[2] == 0),
        "failed_for_a_non_ledger_reason": sum(1 for c in corr if c[2] == 4),
        "monitor_hits_of_this_property": len(own),
        "monitor_hits_by_class": {names.get(k, C02_KNOWN.get(k, C03_KNOWN.get(k, str(k)))) + "(%d)" % k: sum(1 for m in own if m[2] == k) for k in sorted(set(m[2] for m in own))},
        "cases_in_trigger_region": {T_NEGFUND: sum(1 for t in tr if t[0]), T_STALE: sum(1 for t in tr if t[1]),
                                    "withdraw_funds_negative": sum(1 for t in tr if t[2])},
        "finding_replays_and_corpus_cases_run": nextra,
        "samples": rep["samples"],
        "explanation": what,
    })
    cov.update(adversarial_tables(cases))
    if rep["unknown_keys"] or rep["undecodable_values"]:
        raise Broken("the decoder met state records it does not recognise (the ledger would be incomplete)",
                     json.dumps({"unknown": (rep["unknown_keys"] or [])[:20], "undecodable": (rep["undecodable_values"] or [])[:20]}))
    cov["crashed_cases"] = rep.get("crashed_cases") or []
    stats = judge(ctx, cases, mon, corr, mine, known, names)
    if cov["crashed_cases"] and ctx.violations == 0:
        raise Broken("the application panicked while running a history (C18's matter) and the monitors found no failing input of this property",
                     json.dumps(cov["crashed_cases"][:5]))
    cov["known_finding_cases"] = {k: len(v) for k, v in stats["known"].items()}
    if broken is not None and ctx.violations == 0:
        raise broken


def replay(ctx, rp, mine, known, names):
    vh = common.build_harness()
    ok, log = common.coq_make(["theories/LedgerCheck.vo"])
    if not ok:
        raise Broken("model does not build", log[-2000:])
    tmp = os.path.join(ctx.scratch, "one.json")
    json.dump([rp["spec"]], open(tmp, "w"))
    rep, cases, mon, corr, tr = evaluate(ctx, vh, ["-corpus", tmp, "-shard", "1"], tag="replay")
    for s in cases[0]["steps"]:
        if s["kind"] == 1:
            print("  h%d %-34s %-4s %s" % (s["h"], s.get("type"), "ok" if s["ok"] else "FAIL", s.get("descr") or ""))
    print("monitor hits (case, step, class, detail, detail):", [(m, names.get(m[2], C02_KNOWN.get(m[2], C03_KNOWN.get(m[2])))) for m in mon])
    print("model mismatches (case, step, kind):", [c for c in corr if c[2] in CORR])
    print("triggers (negative proposal fund, two finalised in one block, negative withdraw funds):", tr)
    judge(ctx, cases, mon, corr, mine, known, names)
